#!/bin/bash
# tools/wt.sh <patch>  -> prints a scratch worktree of /repo HEAD with the patch applied (remove with: git -C /repo worktree remove --force <dir>)
wt=$(mktemp -d /tmp/seedwt.XXXXXX); rmdir $wt
git -C /repo worktree add -q --detach $wt HEAD || exit 3
cp /repo/Lib/core/public/module/cmn.h /repo/Lib/core/public/module/ctx.h $wt/Lib/core/public/module/ 2>/dev/null
[ -n "${1:-}" ] && { git -C $wt apply $1 || exit 3; }
echo $wt
