#!/usr/bin/env python3
"""Regenerates /verif/MANIFEST.json from vf/specs/*.py (each spec has MANIFEST = {...}) so the manifest can never
drift from what is implemented.  Properties without a spec (or whose spec sets NOT_APPLICABLE) go to not_applicable."""
import importlib, json, os, sys
V = os.path.dirname(os.path.dirname(os.path.abspath(__file__)))
sys.path.insert(0, V)
props = [json.loads(l) for l in open(os.path.join(V, "properties.jsonl"))]
NA_DEFAULT = {
    "C06": "thread-pool schedule property: CBMC 6.11 refuses threads that dereference shared pointers ('pointer handling "
           "for concurrency is unsound', probed on thpool.c); no sequentialiser/KLEE/ESBMC in the image; a run-at-join "
           "sequential harness would explore one schedule and claim all (DESIGN.md section 5)",
}
enabled = set(open(os.path.join(V, "tools", "enabled.txt")).read().split())
checks, na = [], []
for p in props:
    pid = p["id"]
    if pid not in enabled:
        na.append({"property_id": pid, "reason": NA_DEFAULT.get(pid, "check not finished yet in this round (planned: DESIGN.md section 4/%s); not claimed" % pid)})
        continue
    try:
        spec = importlib.import_module("vf.specs." + pid)
    except ModuleNotFoundError:
        na.append({"property_id": pid, "reason": NA_DEFAULT.get(pid, "check not built yet in this round (planned: DESIGN.md section 4/%s); not claimed" % pid)})
        continue
    if getattr(spec, "NOT_APPLICABLE", None):
        na.append({"property_id": pid, "reason": spec.NOT_APPLICABLE})
        continue
    m = spec.MANIFEST
    checks.append({
        "property_id": pid,
        "quick_cmd": "bin/check %s --tier quick" % pid,
        "thorough_cmd": "bin/check %s --tier thorough" % pid,
        "evidence_file": "/verif/evidence/%s.json" % pid,
        "replay_cmd_template": "bin/check %s --replay {path}" % pid,
        "engine": "cbmc",
        "level_claimed": {"category": "model_checking", "text": m["text"], "design_ref": "DESIGN.md section 4/%s" % pid},
        "level_note": m["note"],
        "technique": m.get("technique", "CBMC 6.11 bounded symbolic execution of the real C translation units (goto-cc), SAT/SMT verdict per harness, unwinding assertions on"),
    })
man = {
    "version": 1,
    "setup_cmd": "true",
    "hooks": {
        "guard": "FEDEDP_LIBMODULE_VERIF",
        "enable": "checks compile /repo/Lib/**/*.c with goto-cc -DFEDEDP_LIBMODULE_VERIF (plus -DFEDEDP_LIBMODULE_VERIF_MAP_SIZE=<n> for whole-core harnesses); the normal CMake build never defines it",
        "baseline_off_cmd": "cmake -G Ninja -S /repo -B /repo/_build -DBUILD_TESTS=ON -DWITH_VALGRIND=ON -DCMAKE_BUILD_TYPE=RelWithDebInfo && cmake --build /repo/_build && ctest --test-dir /repo/_build -j8 --timeout 900",
        "source_commits": json.load(open(os.path.join(V, "tools", "hook_commits.json"))) if os.path.exists(os.path.join(V, "tools", "hook_commits.json")) else [],
        "add_only": True,
    },
    "engines": [
        {"name": "cbmc", "path": "/verif/vf/runner.py", "serves_properties": [c["property_id"] for c in checks],
         "kind_free_text": "goto-cc builds the real /repo sources on every run; goto-instrument cuts stubbed bodies and restricts function pointers; cbmc 6.11 decides each harness (MiniSat default, cvc5 with --solve-bv-as-int=sum shim for division kernels); counterexamples are replayed natively (gcc + ASan/UBSan) against the real sources"},
    ],
    "checks": checks,
    "not_applicable": na,
    "notes": "Exit codes of bin/check: 0 held (KNOWN-FINDING lines allowed), 1 VIOLATION, 2 inconclusive (time-out, memory cap, failed unwinding assertion, vacuous harness). Known findings / fixed defects: /verif/known_findings.txt. Seeded mutations: /verif/seeded/.",
}
json.dump(man, open(os.path.join(V, "MANIFEST.json"), "w"), indent=1)
print("checks:", [c["property_id"] for c in checks]); print("n/a:", [x["property_id"] for x in na])
