#!/bin/bash
# tools/seed_save.sh <id> <property> <srcdir> <n> <caught-by (free text)> <needs (free text)>
id=$1; prop=$2; src=$3; n=$4; caught=$5; needs=$6
d=/verif/seeded/$id; mkdir -p $d
cp $src/change$n.diff $d/patch.diff; cp $src/demo$n.c $d/demo.c; cp $src/change$n.md $d/notes.md 2>/dev/null
python3 - "$id" "$prop" "$caught" "$needs" <<'PY'
import json,sys,subprocess
id,prop,caught,needs=sys.argv[1:5]
base=subprocess.check_output(["git","-C","/repo","rev-parse","--short","HEAD"]).decode().strip()
json.dump({"id":id,"breaks_property":prop,"needs_to_manifest":needs,
 "base_commit":base,
 "confirmed":"tools/seed_verify.sh: patch applies to a scratch worktree of /repo HEAD; library builds; repository test suite (ctest ModuleTest) passes with the change; demo.c (public API only, linked against the changed sources) exits non-zero with the change and 0 on the pristine tree",
 "check_result":caught,
 "ran":"tools/seed_verify.sh %s %s seeded/%s/patch.diff seeded/%s/demo.c" % (id,prop,id,id)}, open("/verif/seeded/%s/meta.json"%id,"w"), indent=1)
PY
