#!/bin/bash
# tools/seed_verify.sh <seed-id> <property> <patch.diff> <demo.c> [extra check args]
# Confirms a seeded change: (1) applies to a scratch worktree of /repo HEAD, (2) the library still builds and the
# repository's test suite passes with it, (3) the demonstration fails with it and passes without it, (4) runs
# bin/check <property> --tier quick against the changed tree and reports its exit status.  Removes the worktree.
set -u
id=$1; prop=$2; patch=$3; demo=$4; shift 4
wt=$(mktemp -d /tmp/seedwt.XXXXXX); rmdir $wt
git -C /repo worktree add -q --detach $wt HEAD || exit 3
cp /repo/Lib/core/public/module/cmn.h /repo/Lib/core/public/module/ctx.h $wt/Lib/core/public/module/ 2>/dev/null
trap 'git -C /repo worktree remove --force $wt >/dev/null 2>&1' EXIT
INC="-I$wt/Lib/core -I$wt/Lib/core/public -I$wt/Lib/core/fs -I$wt/Lib/core/poll -I$wt/Lib/utils -I$wt/Lib/structs -I$wt/Lib/structs/public -I$wt/Lib/mem -I$wt/Lib/mem/public -I$wt/Lib/thpool -I$wt/Lib/thpool/public"
SRCS="$wt/Lib/core/ctx.c $wt/Lib/core/mod.c $wt/Lib/core/ps.c $wt/Lib/core/src.c $wt/Lib/core/evts.c $wt/Lib/core/main.c $wt/Lib/core/fs/fs_noop.c $wt/Lib/core/poll/epoll.c $wt/Lib/core/poll/cmn_linux.c $wt/Lib/structs/map.c $wt/Lib/structs/bst.c $wt/Lib/structs/queue.c $wt/Lib/structs/stack.c $wt/Lib/structs/list.c $wt/Lib/mem/mem.c $wt/Lib/utils/mem.c $wt/Lib/utils/utils.c $wt/Lib/utils/log.c $wt/Lib/thpool/thpool.c"
PUBINC="-I$wt/Lib/core/public -I$wt/Lib/structs/public -I$wt/Lib/mem/public -I$wt/Lib/thpool/public"
build_demo() { gcc -g -O1 -D_GNU_SOURCE -w $PUBINC -c $demo -o $wt/demo.o 2>$wt/demo_build.log && gcc -g -O1 -D_GNU_SOURCE -w $INC $wt/demo.o $SRCS -o $1 -lpthread -ldl 2>>$wt/demo_build.log; }
echo "== seed $id property $prop base $(git -C /repo rev-parse --short HEAD)"
build_demo $wt/demo_clean || { echo "DEMO-BUILD-FAILED (pristine)"; tail -5 $wt/demo_build.log; exit 3; }
( cd $wt && timeout 120 ./demo_clean >/dev/null 2>&1 ); rc_clean=$?
git -C $wt apply $patch || { echo "PATCH-DOES-NOT-APPLY"; exit 3; }
build_demo $wt/demo_mut || { echo "DEMO-BUILD-FAILED (changed)"; exit 3; }
( cd $wt && timeout 120 ./demo_mut >/dev/null 2>&1 ); rc_mut=$?
echo "demo: pristine rc=$rc_clean changed rc=$rc_mut"
if [ "${SKIP_SUITE:-0}" != 1 ]; then
  ( cd $wt && cmake -G Ninja -S . -B _b -DBUILD_TESTS=ON -DWITH_VALGRIND=${WITH_VALGRIND:-OFF} -DCMAKE_BUILD_TYPE=RelWithDebInfo >/dev/null 2>&1 && cmake --build _b >/dev/null 2>&1 && ctest --test-dir _b -j4 --timeout 900 2>&1 | grep -E "tests passed|tests failed" )
  git -C $wt checkout -q -- . 2>/dev/null; git -C $wt apply $patch
fi
cd /verif
VF_REPO=$wt bin/check $prop --tier quick --no-evidence "$@" > $wt/check.log 2>&1; rc_check=$?
echo "check: bin/check $prop --tier quick -> exit $rc_check"
grep -E "^VIOLATION|^INCONCLUSIVE|^KNOWN" $wt/check.log | cut -c1-160 | head -5
grep -E "^  job" $wt/check.log | cut -c1-220 | head -3
echo "RESULT id=$id prop=$prop demo_pristine=$rc_clean demo_changed=$rc_mut check_exit=$rc_check"
