#!/usr/bin/env python3
"""Regenerates the seed table of DESIGN.md section 8.5 from seeded/*/meta.json; prints the counts."""
import json, glob, re
rows, n = [], {"caught": 0, "missed, then caught": 0, "not caught": 0}
def key(p):
    m = re.search(r'/(C\d+)-(\d+)/', p); return (m.group(1), int(m.group(2)))
for m in sorted(glob.glob('/verif/seeded/*/meta.json'), key=key):
    d = json.load(open(m)); cr = d["check_result"].strip()
    if cr.startswith("NOT caught"): res = "not caught"
    elif cr.startswith("caught"): res = "caught"
    else: res = "missed, then caught"
    n[res] += 1
    esc = lambda s: " ".join(s.split()).replace("|", "\\|")
    rows.append("| %s | %s | %s | %s |" % (d["id"], esc(d["needs_to_manifest"])[:260], res, esc(cr)[:420]))
p = '/verif/DESIGN.md'; s = open(p).read()
head = "| seed | needs | result | how |\n|---|---|---|---|\n"
i = s.index(head) + len(head); j = s.index("\n\n", i)
s = s[:i] + "\n".join(rows) + s[j:]
open(p, 'w').write(s)
print(len(rows), n)
