#!/bin/bash
# re-verify every saved seed against the current /repo HEAD and the current checks: tools/seed_recheck.sh [ids...]
cd /verif
ids=${@:-$(ls seeded)}
for id in $ids; do
  prop=${id%%-*}
  SKIP_SUITE=${SKIP_SUITE:-1} tools/seed_verify.sh $id $prop /verif/seeded/$id/patch.diff /verif/seeded/$id/demo.c -P ${P:-12} --first-violation 2>&1 | grep -E "^RESULT|DOES-NOT|FAILED"
done
