#!/bin/sh
# tools/quick.sh <kept-job-dir> <harness.c> "<extra -D>" "<cbmc extra>"   -- rebuild only the harness against a kept repo binary
jd=$1; h=$2; defs=$3; extra=$4
INC="-I /repo/Lib/core -I /repo/Lib/core/public -I /repo/Lib/core/fs -I /repo/Lib/core/poll -I /repo/Lib/utils -I /repo/Lib/structs -I /repo/Lib/structs/public -I /repo/Lib/mem -I /repo/Lib/mem/public -I /repo/Lib/thpool -I /repo/Lib/thpool/public -I /verif/harness/common -I /verif/model -I /repo/Lib"
set -e
goto-cc -D_GNU_SOURCE -DFEDEDP_LIBMODULE_VERIF -DLIBMODULE_LOG_CTX=OTHER $INC $defs --export-file-local-symbols -c $h -o $jd/q_h.gb
goto-cc -D_GNU_SOURCE -DFEDEDP_LIBMODULE_VERIF -DLIBMODULE_LOG_CTX=OTHER $INC -c /verif/harness/common/vf_defs.c -o $jd/q_d.gb
repo=$jd/repo.rm.gb; [ -f $repo ] || repo=$jd/repo.gb
goto-cc $jd/q_h.gb $jd/q_d.gb $repo -o $jd/q_l.gb
goto-instrument --function-pointer-restrictions-file $jd/restr.json $jd/q_l.gb $jd/q_r.gb >/dev/null 2>&1
/usr/bin/time -f "wall=%es rss=%MKB" timeout ${QT:-300} cbmc $jd/q_r.gb --function vf_main --unwinding-assertions --drop-unused-functions --no-malloc-may-fail --max-field-sensitivity-array-size 1024 --verbosity 9 $extra 2>&1 | grep -E "VCC|variables|Runtime Symex|Runtime Solver|size of program|VERIFICATION|FAILURE|wall=|unwinding assertion.*FAIL" | head -${QL:-30}
