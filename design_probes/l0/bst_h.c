#include "cmn_stub.h"
#include <assert.h>
#include "/repo/Lib/structs/bst.c"
#ifndef NI
#define NI 3
#endif
typedef struct { int key; int dt; } el_t;
static el_t els[NI + 1];
static int cmp(void *a, void *b) { return ((el_t *)a)->key - ((el_t *)b)->key; }
static void dt(void *p) { ((el_t *)p)->dt++; }
static int seq[NI + 1], nseq;
static int collect(void *u, void *d) { seq[nseq++] = ((el_t *)d)->key; return 0; }
int main(void) {
    vf_init_logger();
    m_bst_t *t = m_bst_new(cmp, dt);
    __CPROVER_assume(t);
    bool in[NI + 1] = {0}; int n = 0;
    for (int i = 0; i < NI; i++) {
        els[i].key = nondet_uchar(); __CPROVER_assume(els[i].key < 8);
        bool dup = false;
        for (int j = 0; j < i; j++) if (in[j] && els[j].key == els[i].key) dup = true;
        int r = m_bst_insert(t, &els[i]);
        if (dup) assert(r == -EEXIST); else { assert(r == 0); in[i] = true; n++; }
        assert(m_bst_len(t) == n);
    }
    els[NI].key = nondet_uchar(); __CPROVER_assume(els[NI].key < 8);
    int victim = -1;
    for (int j = 0; j < NI; j++) if (in[j] && els[j].key == els[NI].key) victim = j;
    assert(m_bst_find(t, &els[NI]) == (victim >= 0 ? (void *)&els[victim] : NULL));
    int r = m_bst_remove(t, &els[NI]);
    if (victim >= 0) { assert(r == 0); n--; in[victim] = false; assert(els[victim].dt == 1); }
    else assert(r == -ENOENT || (n == 0 && r == -EINVAL));
    for (int j = 0; j < NI; j++) if (j != victim) assert(els[j].dt == 0);   /* survivors never destroyed */
    assert(m_bst_len(t) == n);
    if (n > 0) {
        r = m_bst_traverse(t, M_BST_IN, collect, NULL);
        assert(r == 0 && nseq == n);
        for (int i = 1; i < nseq; i++) assert(seq[i - 1] < seq[i]);
        for (int j = 0; j < NI; j++) assert((m_bst_find(t, &els[j]) == &els[j]) == in[j] || (!in[j] && m_bst_find(t, &els[j]) != &els[j]));
    }
    return 0;
}
