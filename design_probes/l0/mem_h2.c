#include <stddef.h>
#include <stdint.h>
#include <stdbool.h>
#include <stdlib.h>
#include <stdalign.h>
#include <sys/types.h>
#include <assert.h>
#include "log.h"
#include "mem.h"
static void vf_log_noop(const char *caller, int lineno, const char *fmt, ...) {}
m_logger libmodule_logger = { {vf_log_noop,vf_log_noop,vf_log_noop,vf_log_noop,vf_log_noop}, {vf_log_noop,vf_log_noop,vf_log_noop,vf_log_noop,vf_log_noop}, {vf_log_noop,vf_log_noop,vf_log_noop,vf_log_noop,vf_log_noop}, {vf_log_noop,vf_log_noop,vf_log_noop,vf_log_noop,vf_log_noop}, 0 };
size_t nondet_size_t(void); unsigned char nondet_uchar(void);
#define ARENA 160
static _Alignas(16) unsigned char arena[ARENA];
static size_t a_req; static int a_live, a_frees; static void *a_freed;
static void *vf_calloc(size_t n, size_t s) { assert(a_live == 0); a_req = n * s; assert(a_req <= ARENA); a_live = 1; return arena; }
static void *vf_malloc(size_t s) { return vf_calloc(1, s); }
static void vf_free(void *p) { a_frees++; a_freed = p; a_live = 0; }
m_memhook_t memhook = { vf_malloc, vf_calloc, vf_free };
#include "/repo/Lib/mem/mem.c"
static int dtor_calls; static void *dtor_arg; static int dtor_saw_live;
static void dt(void *p) { dtor_calls++; dtor_arg = p; dtor_saw_live = a_live; }
int main(void) {
    size_t size = nondet_size_t();
    __CPROVER_assume(size <= 100);
    unsigned char *p = m_mem_new(size, dt);
    assert(p);
    size_t off = p - arena;
    assert(off % alignof(max_align_t) == 0);                 /* aligned for any type */
    assert(off >= sizeof(mem_header_t) && off + size <= a_req); /* user block inside the allocation, after header */
    assert(m_mem_size(p) == size);
    unsigned char k = nondet_uchar(); __CPROVER_assume(k <= 3);
    for (unsigned char i = 0; i < k; i++) assert(m_mem_ref(p) == p);
    for (unsigned char i = 0; i < k; i++) { assert(m_mem_unref(p) == NULL); assert(dtor_calls == 0 && a_frees == 0); assert(m_mem_size(p) == size); }
    m_mem_unref(p);
    assert(dtor_calls == 1 && dtor_arg == p && dtor_saw_live == 1);
    assert(a_frees == 1 && a_freed == arena);
#ifdef WITNESS
    assert(0);
#endif
    return 0;
}
