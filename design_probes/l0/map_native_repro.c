#include <stdio.h>
#include <module/structs/map.h>
#include "keys.h"
int main(void) {
    m_map_t *m = m_map_new(0, NULL);
    static int v = 1;
    for (int i = 0; i < 129; i++) if (m_map_put(m, K[i], &v) != 0) { printf("put %d failed\n", i); return 2; }
    printf("len=%zd, last present before: %d\n", m_map_len(m), m_map_contains(m, K[128]));
    int r = m_map_remove(m, K[0]);
    printf("remove first: %d, len=%zd\n", r, m_map_len(m));
    int bad = 0;
    for (int i = 1; i < 129; i++) if (!m_map_contains(m, K[i])) { printf("LOST key %d (%s)\n", i, K[i]); bad++; }
    printf("lost=%d\n", bad);
    return bad ? 1 : 0;
}
