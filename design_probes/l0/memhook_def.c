#include <stdlib.h>
#include "mem.h"
m_memhook_t memhook = { malloc, calloc, free };
