#include "cmn_stub.h"
#include <assert.h>
#include <string.h>
#include <errno.h>
#include "public/module/structs/map.h"
typedef struct { const char *key; void *data; } map_elem;
struct _map { size_t table_size; size_t length; m_map_flags flags; map_elem *table; m_map_dtor dtor; };
struct _map_itr { m_map_t *m; map_elem *curr; bool removed; };
#define TS 4
#define NK 3
static char keys[NK][2] = { "a", "b", "c" };
static size_t homes[NK];
size_t __CPROVER_file_local_map_c_hashmap_hash_string(const char *key) { return homes[key[0] - 'a']; }
static char vals[NK + 1][1];
static map_elem table[TS];
static struct _map M;
static int slot_of[NK];
static bool inv(void) {
    size_t cnt = 0;
    for (int k = 0; k < NK; k++) slot_of[k] = -1;
    for (int s = 0; s < TS; s++) {
        if (!M.table[s].key) { if (M.table[s].data) return false; continue; }
        int k = -1;
        for (int j = 0; j < NK; j++) if (M.table[s].key == keys[j]) k = j;
        if (k < 0 || slot_of[k] != -1 || !M.table[s].data) return false;
        slot_of[k] = s; cnt++;
        size_t h = homes[k] & (TS - 1); size_t d = (s - h) & (TS - 1);
        if (d >= TS / 2) return false;
        for (size_t i = 0; i < d; i++) if (!M.table[(h + i) & (TS - 1)].key) return false;
    }
    return cnt == M.length && cnt <= 3 * TS / 4;
}
int main(void) {
    for (int i = 0; i < NK; i++) homes[i] = nondet_size_t();
    M.table = table; M.table_size = TS; M.flags = 0; M.dtor = NULL; M.length = nondet_size_t();
    for (int s = 0; s < TS; s++) { unsigned char k = nondet_uchar(); if (k < NK) { table[s].key = keys[k]; table[s].data = vals[0]; } }
    __CPROVER_assume(inv());
    /* iterator in the middle of an iteration: cursor on an occupied slot c; keys before c visited, at/after c not */
    unsigned char c = nondet_uchar(); __CPROVER_assume(c < TS && table[c].key);
    bool visited[NK];
    for (int k = 0; k < NK; k++) visited[k] = slot_of[k] >= 0 && slot_of[k] < c;
    m_map_itr_t *it = malloc(sizeof(*it)); __CPROVER_assume(it);
    it->m = &M; it->curr = &table[c]; it->removed = false;
    int cur = table[c].key[0] - 'a';
    visited[cur] = true;                       /* the user looks at the current entry ... */
    bool present[NK]; for (int k = 0; k < NK; k++) present[k] = slot_of[k] >= 0;
    if (nondet_bool()) { int r = m_map_itr_remove(it); assert(r == 0); present[cur] = false; }   /* ... and may remove it */
    m_map_itr_next(&it);
    if (it) {
        assert(it->curr >= table && it->curr < table + TS && it->curr->key);
        int nk = it->curr->key[0] - 'a';
        assert(present[nk]);
        assert(!visited[nk]);                  /* never yields an entry twice */
        visited[nk] = true;
        assert(inv());
        for (int k = 0; k < NK; k++) if (present[k]) assert(visited[k] == (slot_of[k] <= it->curr - table));  /* step invariant re-established */
    } else {
        for (int k = 0; k < NK; k++) if (present[k]) assert(visited[k]);   /* nothing skipped */
    }
    return 0;
}
