#include "cmn_stub.h"
#include "/repo/Lib/structs/queue.c"
#include <assert.h>
#define N 3
static char elems[N + 2];
#define EL(i) ((void *)&elems[i])
static int dt_cnt[N + 2];
static void dtor(void *p) { dt_cnt[(char *)p - elems]++; }
int main(void) {
    /* arbitrary well-formed queue of n <= N elements, built directly */
    unsigned char n = nondet_uchar(); __CPROVER_assume(n <= N);
    m_queue_t *q = m_queue_new(dtor); __CPROVER_assume(q);
    queue_elem *nodes[N] = {0};
    for (int i = 0; i < N; i++) if (i < n) { nodes[i] = calloc(1, sizeof(queue_elem)); __CPROVER_assume(nodes[i]); nodes[i]->userptr = EL(i); }
    for (int i = 0; i + 1 < N; i++) if (i + 1 < n) nodes[i]->prev = nodes[i + 1];
    q->head = n ? nodes[0] : NULL; q->tail = n ? nodes[n - 1] : NULL; q->len = n;
    int model[N + 1]; int mlen = n; for (int i = 0; i < N; i++) model[i] = i;
    /* one iterator-removal at an arbitrary position p (first, middle or last) */
    unsigned char p = nondet_uchar(); __CPROVER_assume(p < n);
    m_queue_itr_t *it = m_queue_itr_new(q); assert(it);
    for (int i = 0; i < N; i++) if (i < p) m_queue_itr_next(&it);
    assert(m_queue_itr_get_data(it) == EL(p));
    int r = m_queue_itr_remove(it); assert(r == 0 && dt_cnt[p] == 1);
    for (int i = p; i + 1 < mlen; i++) model[i] = model[i + 1]; mlen--;
    m_queue_itr_next(&it);
    assert((it != NULL) == (p < mlen));
    if (it) { assert(m_queue_itr_get_data(it) == EL(model[p])); free(it); }
    assert(m_queue_len(q) == mlen);
    /* observation suffix through the public API */
    r = m_queue_enqueue(q, EL(N)); assert(r == 0); model[mlen++] = N;
    for (int i = 0; i < N + 1; i++) if (i < mlen) { void *d = m_queue_dequeue(q); assert(d == EL(model[i])); }
    assert(m_queue_len(q) == 0 && m_queue_dequeue(q) == NULL);
    return 0;
}
