#include "cmn_stub.h"
#include <assert.h>
#include <pthread.h>
#include "/repo/Lib/thpool/thpool.c"
#ifndef NT
#define NT 1
#endif
#ifndef NTASK
#define NTASK 1
#endif
#ifndef FLAGS
#define FLAGS 0
#endif
#ifndef WAITALL
#define WAITALL 1
#endif
static int ran[NTASK];
static int finished;
static void *task(void *a) { int i = (int *)a - ran; ran[i]++; return NULL; }
int main(void) {
    vf_init_logger();
    m_thpool_t *p = m_thpool_new(NT, FLAGS);
    __CPROVER_assume(p);
    for (int i = 0; i < NTASK; i++) { int r = m_thpool_add(p, task, &ran[i]); assert(r == 0); }
    int r = m_thpool_free(&p, WAITALL);
    assert(r == 0 && p == NULL);
    for (int i = 0; i < NTASK; i++) assert(WAITALL ? ran[i] == 1 : ran[i] <= 1);
    return 0;
}
