#include "cmn_stub.h"
#include "/repo/Lib/structs/queue.c"
#include <assert.h>
#ifndef L
#define L 6
#endif
#define CAP 8
static int dtor_cnt[CAP+1];
static char elems[CAP+1];
#define EL(i) ((void*)&elems[i])
#define ID(p) ((uintptr_t)((char*)(p)-elems))
static void dtor(void *p) { dtor_cnt[ID(p)]++; }
int main(void) {
    vf_init_logger();
    m_queue_t *q = m_queue_new(dtor);
    __CPROVER_assume(q != NULL);
    uintptr_t model[CAP]; int mlen = 0; uintptr_t next_id = 1;
    m_queue_itr_t *itr = NULL; int ipos = 0; bool iremoved = false;
    for (int step = 0; step < L; step++) {
        unsigned char op = nondet_uchar();
        __CPROVER_assume(op < 7);
        if (op == 0 && next_id <= CAP && mlen < CAP && !itr) { /* enqueue */
            int r = m_queue_enqueue(q, EL(next_id));
            assert(r == 0);
            model[mlen++] = next_id++;
        } else if (op == 1 && !itr) { /* dequeue */
            void *d = m_queue_dequeue(q);
            if (mlen == 0) assert(d == NULL);
            else { assert(d == EL(model[0])); for (int i = 1; i < mlen; i++) model[i-1] = model[i]; mlen--; }
        } else if (op == 2) {
            void *d = m_queue_peek(q);
            assert(d == (mlen ? EL(model[0]) : NULL));
        } else if (op == 3 && !itr) {
            itr = m_queue_itr_new(q); ipos = 0; iremoved = false;
            assert((itr != NULL) == (mlen > 0));
        } else if (op == 4 && itr) {
            m_queue_itr_next(&itr);
            if (!iremoved) ipos++;
            iremoved = false;
            assert((itr != NULL) == (ipos < mlen));
        } else if (op == 5 && itr && !iremoved) {
            assert(m_queue_itr_get_data(itr) == EL(model[ipos]));
            int before = dtor_cnt[model[ipos]];
            int r = m_queue_itr_remove(itr);
            assert(r == 0);
            assert(dtor_cnt[model[ipos]] == before + 1);
            for (int i = ipos + 1; i < mlen; i++) model[i-1] = model[i];
            mlen--; iremoved = true;
        } else if (op == 6 && itr && iremoved) { /* finish iteration to free itr */
        }
        assert(m_queue_len(q) == mlen);
    }
    return 0;
}
