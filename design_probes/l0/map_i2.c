#include "cmn_stub.h"
#include <assert.h>
#include <string.h>
#include <errno.h>
#include "public/module/structs/map.h"
typedef struct { const char *key; void *data; } map_elem;
struct _map { size_t table_size; size_t length; m_map_flags flags; map_elem *table; m_map_dtor dtor; };
#define TS 4
#define NK 3
static char keys[NK][2] = { "a", "b", "c" };
static size_t homes[NK];
size_t __CPROVER_file_local_map_c_hashmap_hash_string(const char *key) { return homes[key[0] - 'a']; }
static char vals[NK + 1][1];
static int dt_cnt[NK + 1];
static void dt(void *p) { dt_cnt[(char (*)[1])p - vals]++; }
static int visits[NK];
static int visit_rm(void *u, const char *key, void *val) { visits[key[0]-'a']++; m_map_remove((m_map_t *)u, key); return 0; }
static map_elem table[TS];
static struct _map M;
/* representation invariant of a reachable table, returns slot of each key or -1 */
static int slot_of[NK];
static bool inv(void) {
    size_t cnt = 0;
    for (int k = 0; k < NK; k++) slot_of[k] = -1;
    for (int s = 0; s < TS; s++) {
        if (!M.table[s].key) { if (M.table[s].data) return false; continue; }
        int k = -1;
        for (int j = 0; j < NK; j++) if (M.table[s].key == keys[j]) k = j;
        if (k < 0 || slot_of[k] != -1 || !M.table[s].data) return false;
        slot_of[k] = s; cnt++;
        /* no empty slot between home and s (cyclically), distance < probe_len */
        size_t h = homes[k] & (TS - 1);
        size_t d = (s - h) & (TS - 1);
        if (d >= TS / 2) return false;
        for (size_t i = 0; i < d; i++) if (!M.table[(h + i) & (TS - 1)].key) return false;
    }
    return cnt == M.length && cnt <= 3 * TS / 4;
}
int main(void) {
    vf_init_logger();
    for (int i = 0; i < NK; i++) homes[i] = nondet_size_t();
    bool upd = nondet_bool();
    M.table = calloc(TS, sizeof(map_elem)); __CPROVER_assume(M.table); M.table_size = TS; M.flags = upd ? M_MAP_VAL_ALLOW_UPDATE : 0; M.dtor = dt;
    M.length = nondet_size_t();
    int pre_val[NK];
    for (int s = 0; s < TS; s++) {
        unsigned char k = nondet_uchar(); unsigned char v = nondet_uchar();
        if (k < NK) { __CPROVER_assume(v <= NK); M.table[s].key = keys[k]; M.table[s].data = vals[v]; }
    }
    __CPROVER_assume(inv());
    int pre_slot[NK]; for (int k = 0; k < NK; k++) { pre_slot[k] = slot_of[k]; pre_val[k] = pre_slot[k] >= 0 ? (int)((char (*)[1])M.table[pre_slot[k]].data - vals) : -1; }
    size_t pre_len = M.length;
    unsigned char op = nondet_uchar(); __CPROVER_assume(op < 4);
    unsigned char k = nondet_uchar(); __CPROVER_assume(k < NK);
    if (op == 0) {
        int r = m_map_remove(&M, keys[k]);
        if (pre_slot[k] >= 0) { assert(r == 0); assert(M.length == pre_len - 1); assert(dt_cnt[pre_val[k]] == 1); }
        else { assert(r == -ENOENT || r == -EINVAL); assert(M.length == pre_len); }
        assert(inv());
        for (int j = 0; j < NK; j++) {
            void *g = m_map_get(&M, keys[j]);
            if (j == k || pre_slot[j] < 0) assert(g == NULL); else assert(g == (void *)vals[pre_val[j]]);
        }
    } else if (op == 1) {
        void *g = m_map_get(&M, keys[k]);
        assert(g == (pre_slot[k] >= 0 ? (void *)vals[pre_val[k]] : NULL));
    } else if (op == 2) {
        unsigned char v = nondet_uchar(); __CPROVER_assume(v <= NK);
        int r = m_map_put(&M, keys[k], vals[v]);
        if (pre_slot[k] < 0) { assert(r == 0 || r == -ENOMEM); if (r == 0) { assert(M.length == pre_len + 1); assert(m_map_get(&M, keys[k]) == (void *)vals[v]); } }
        else if (upd) { assert(r == 0); assert(m_map_get(&M, keys[k]) == (void *)vals[v]); assert(M.length == pre_len); if (v != pre_val[k]) assert(dt_cnt[pre_val[k]] == 1); }
        else { assert(r == -EPERM); assert(m_map_get(&M, keys[k]) == (void *)vals[pre_val[k]]); }
        for (int j = 0; j < NK; j++) if (j != k) assert(m_map_get(&M, keys[j]) == (pre_slot[j] >= 0 ? (void *)vals[pre_val[j]] : NULL));
    } else {
        visits[0] = visits[1] = visits[2] = 0;
        if (pre_len > 0) { int r = m_map_iterate(&M, visit_rm, &M); assert(r == 0); }
        for (int j = 0; j < NK; j++) assert(visits[j] == (pre_slot[j] >= 0 ? 1 : 0));
        assert(M.length == 0);
    }
#ifdef WITNESS
    assert(0);
#endif
    return 0;
}
