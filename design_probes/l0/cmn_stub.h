/* common harness prelude */
#include <stddef.h>
#include <stdint.h>
#include <stdbool.h>
#include <stdlib.h>
#include <sys/types.h>
#include "log.h"
#include "mem.h"
static void vf_log_noop(const char *caller, int lineno, const char *fmt, ...) {}
#define N5 {vf_log_noop,vf_log_noop,vf_log_noop,vf_log_noop,vf_log_noop}
m_logger libmodule_logger = { N5, N5, N5, N5, 0 };
extern m_memhook_t memhook;
static void vf_init_logger(void) {}
int nondet_int(void); unsigned nondet_uint(void); _Bool nondet_bool(void); size_t nondet_size_t(void);
unsigned char nondet_uchar(void);
