/* L1-b: the evaluation pass: real m_map_iterate + evaluate_module + start() with lower layers stubbed */
#include "ps.h"
#include "src.h"
#include "ctx.h"
#include "poll.h"
#include <assert.h>
static void vf_log_noop(const char *caller, int lineno, const char *fmt, ...) {}
#define N5 {vf_log_noop,vf_log_noop,vf_log_noop,vf_log_noop,vf_log_noop}
m_logger libmodule_logger = { N5, N5, N5, N5, 0 };
_Bool nondet_bool(void); unsigned char nondet_uchar(void); uint64_t nondet_u64(void);
static m_ctx_t *the_ctx;
m_ctx_t *m_ctx(void) { return the_ctx; }
int __CPROVER_file_local_mod_c_manage_srcs(m_mod_t *mod, m_ctx_t *c, int flag, bool stop) { return 0; }
int __CPROVER_file_local_mod_c_init_pubsub_fd(m_mod_t *mod) { return 0; }
void __CPROVER_file_local_mod_c_reset_module(m_mod_t *mod) { }
int tell_system_pubsub_msg(const m_mod_t *r, m_ctx_t *c, m_mod_t *s, const char *topic) { return 0; }
void fetch_ms(uint64_t *val, uint64_t *ctr) { *val = 0; if (ctr) (*ctr)++; }
int poll_notify_userevent(poll_priv_t *priv, ev_src_t *src) { return 0; }
m_bst_itr_t *m_bst_itr_new(const m_bst_t *l) { return NULL; }  /* no threshold sources */
#define NM 3
static m_mod_t *mods[NM]; static bool has_eval[NM], eval_ret[NM], start_ret[NM]; static int evals[NM], starts[NM];
static int idx(m_mod_t *m) { return m == mods[0] ? 0 : m == mods[1] ? 1 : 2; }
static bool on_eval(m_mod_t *m) { evals[idx(m)]++; return eval_ret[idx(m)]; }
static bool on_start(m_mod_t *m) { starts[idx(m)]++; return start_ret[idx(m)]; }
static void on_stop(m_mod_t *m) {}
static void on_evt(m_mod_t *m, const m_queue_t *const e) {}
static const char *names[NM] = { "a", "b", "c" };
int main(void) {
    the_ctx = m_mem_new(sizeof(m_ctx_t), NULL); __CPROVER_assume(the_ctx);
    the_ctx->modules = m_map_new(0, NULL); __CPROVER_assume(the_ctx->modules);
    the_ctx->state = M_CTX_LOOPING;
    m_mod_states pre[NM];
    for (int i = 0; i < NM; i++) {
        mods[i] = m_mem_new(sizeof(m_mod_t), NULL); __CPROVER_assume(mods[i]);
        mods[i]->ctx = the_ctx; mods[i]->name = names[i]; mods[i]->tb.tokens = UINT64_MAX;
        unsigned char sb = nondet_uchar(); __CPROVER_assume(sb < 4);        /* IDLE, RUNNING, PAUSED or STOPPED */
        pre[i] = mods[i]->state = 1u << sb;
        if (pre[i] == M_MOD_RUNNING) the_ctx->stats.running_modules++;
        has_eval[i] = nondet_bool(); eval_ret[i] = nondet_bool(); start_ret[i] = nondet_bool();
        mods[i]->hook.on_eval = has_eval[i] ? on_eval : NULL; mods[i]->hook.on_start = on_start; mods[i]->hook.on_stop = on_stop; mods[i]->hook.on_evt = on_evt;
        int r = m_map_put(the_ctx->modules, names[i], mods[i]); assert(r == 0);
    }
    m_map_iterate(the_ctx->modules, evaluate_module, NULL);               /* what loop_start / recv_events do */
    size_t running = 0;
    for (int i = 0; i < NM; i++) {
        if (pre[i] == M_MOD_IDLE && (!has_eval[i] || eval_ret[i])) {
            assert(starts[i] == 1);                                        /* started regardless of the other modules' eval results */
            assert(mods[i]->state == (start_ret[i] ? M_MOD_RUNNING : M_MOD_STOPPED));
        } else { assert(starts[i] == 0); assert(mods[i]->state == pre[i]); }
        if (pre[i] != M_MOD_IDLE) assert(evals[i] == 0);
        running += mods[i]->state == M_MOD_RUNNING;
    }
    assert(the_ctx->stats.running_modules == running);
    return 0;
}
