#include "poll.h"
#include "evts.h"
#include <assert.h>
static void vf_log_noop(const char *caller, int lineno, const char *fmt, ...) {}
#define N5 {vf_log_noop,vf_log_noop,vf_log_noop,vf_log_noop,vf_log_noop}
m_logger libmodule_logger = { N5, N5, N5, N5, 0 };
m_memhook_t memhook = { malloc, calloc, free };
uint64_t nondet_u64(void);
static m_ctx_t *the_ctx;
m_ctx_t *m_ctx(void) { return the_ctx; }
void fetch_ms(uint64_t *val, uint64_t *ctr) { *val = 0; if (ctr) (*ctr)++; }
bool str_not_empty(const char *s) { return s && s[0]; }
void mem_dtor(void *p) { m_mem_unref(p); }
bool m_mod_is(const m_mod_t *mod, m_mod_states st) { return mod->state & st; }
int poll_set_new_evt(poll_priv_t *priv, ev_src_t *tmp, const enum op_type flag) { return 0; }
int main(void) {
    the_ctx = m_mem_new(sizeof(m_ctx_t), NULL);
    m_mod_t *mod = m_mem_new(sizeof(m_mod_t), NULL);
    __CPROVER_assume(the_ctx && mod);
    mod->ctx = the_ctx; mod->state = M_MOD_IDLE; mod->tb.tokens = UINT64_MAX;
    assert(init_src(mod, M_SRC_TYPE_TMR) == 0);
    m_src_tmr_t t1 = { CLOCK_MONOTONIC, nondet_u64() }, t2 = { CLOCK_MONOTONIC, nondet_u64() };
    __CPROVER_assume(t1.ns > 0 && t2.ns > 0);
    int r = m_mod_src_register_tmr(mod, &t1, 0, NULL); assert(r == 0);
    r = m_mod_src_register_tmr(mod, &t2, 0, NULL);
    if (t1.ns == t2.ns) assert(r == -EEXIST); else assert(r == 0);
    assert(m_bst_len(mod->srcs[M_SRC_TYPE_TMR]) == (t1.ns == t2.ns ? 1 : 2));
    r = m_mod_src_deregister_tmr(mod, &t1); assert(r == 0);
    r = m_mod_src_deregister_tmr(mod, &t1); assert(r < 0);
    if (t1.ns != t2.ns) { r = m_mod_src_deregister_tmr(mod, &t2); assert(r == 0); }
    assert(m_bst_len(mod->srcs[M_SRC_TYPE_TMR]) == 0);
    return 0;
}
