/* L1 unit harness: lifecycle guards + start()/stop() bodies of mod.c, one step from an arbitrary (state, flags, tokens) */
#include "ps.h"
#include "src.h"
#include "ctx.h"
#include "poll.h"
#include <assert.h>
static void vf_log_noop(const char *caller, int lineno, const char *fmt, ...) {}
#define N5 {vf_log_noop,vf_log_noop,vf_log_noop,vf_log_noop,vf_log_noop}
m_logger libmodule_logger = { N5, N5, N5, N5, 0 };
m_memhook_t memhook = { malloc, calloc, free };
unsigned char nondet_uchar(void); _Bool nondet_bool(void); unsigned nondet_uint(void); uint64_t nondet_u64(void); size_t nondet_size_t(void);
/* ---- stubs for the lower layers (each is part of the claim) ---- */
static m_ctx_t *the_ctx;
m_ctx_t *m_ctx(void) { return the_ctx; }
int __CPROVER_file_local_mod_c_manage_srcs(m_mod_t *mod, m_ctx_t *c, int flag, bool stop) { return 0; }
int __CPROVER_file_local_mod_c_init_pubsub_fd(m_mod_t *mod) { return 0; }
void __CPROVER_file_local_mod_c_reset_module(m_mod_t *mod) { mod->tb.tokens = UINT64_MAX; }
static int told_started, told_stopped;
int tell_system_pubsub_msg(const m_mod_t *r, m_ctx_t *c, m_mod_t *s, const char *topic) { if (topic[14] == 'S' && topic[16] == 'A') told_started++; else told_stopped++; return 0; }
void fetch_ms(uint64_t *val, uint64_t *ctr) { *val = nondet_u64(); if (ctr) (*ctr)++; }
int fs_cleanup(m_mod_t *mod) { return 0; }
int m_ctx_deregister(void) { return 0; }
int m_map_remove(m_map_t *m, const char *key) { return 0; }
ssize_t m_map_len(const m_map_t *m) { return 1; }
m_list_itr_t *m_list_itr_new(const m_list_t *l) { return NULL; }   /* no bound modules */
int m_list_itr_next(m_list_itr_t **itr) { return 0; }
void *m_list_itr_get_data(const m_list_itr_t *itr) { return NULL; }
/* ---- callbacks ---- */
static int n_start, n_stop, n_evt; static bool start_ret;
static bool on_start(m_mod_t *m) { n_start++; return start_ret; }
static void on_stop(m_mod_t *m) { n_stop++; }
static void on_evt(m_mod_t *m, const m_queue_t *const e) { n_evt++; }
int main(void) {
    the_ctx = m_mem_new(sizeof(m_ctx_t), NULL);
    m_mod_t *mod = m_mem_new(sizeof(m_mod_t), NULL);
    __CPROVER_assume(the_ctx && mod);
    mod->ctx = the_ctx;
    unsigned char sb = nondet_uchar(); __CPROVER_assume(sb < 5);
    m_mod_states pre = 1u << sb;
    mod->state = pre;
    mod->flags = nondet_uint() & (M_MOD_PERSIST | M_MOD_ALLOW_REPLACE | M_MOD_DENY_PUB | M_MOD_DENY_SUB);
    mod->hook.on_start = on_start; mod->hook.on_stop = on_stop; mod->hook.on_evt = on_evt;
    mod->tb.tokens = nondet_u64(); __CPROVER_assume(mod->tb.tokens > 0);
    size_t running_others = nondet_size_t(); __CPROVER_assume(running_others < 3);
    the_ctx->stats.running_modules = running_others + (pre == M_MOD_RUNNING);
    the_ctx->state = nondet_bool() ? M_CTX_LOOPING : M_CTX_IDLE;
    start_ret = nondet_bool();
    unsigned char op = nondet_uchar(); __CPROVER_assume(op < 4);
    int r; m_mod_states exp = pre; int es = 0, ep = 0;
    switch (op) {
    case 0: r = m_mod_start(mod);
        if (pre & (M_MOD_IDLE | M_MOD_STOPPED)) { assert(r == 0); es = 1; if (start_ret) exp = M_MOD_RUNNING; else { exp = M_MOD_STOPPED; ep = 1; } } else assert(r < 0);
        break;
    case 1: r = m_mod_pause(mod);  if (pre == M_MOD_RUNNING) { assert(r == 0); exp = M_MOD_PAUSED; } else assert(r < 0); break;
    case 2: r = m_mod_resume(mod); if (pre == M_MOD_PAUSED) { assert(r == 0); exp = M_MOD_RUNNING; } else assert(r < 0); break;
    case 3: r = m_mod_stop(mod);   if (pre & (M_MOD_RUNNING | M_MOD_PAUSED)) { assert(r == 0); exp = M_MOD_STOPPED; ep = 1; } else assert(r < 0); break;
    }
    assert(mod->state == exp);
    assert(n_start == es && n_stop == ep && n_evt == 0);
    assert(the_ctx->stats.running_modules == running_others + (exp == M_MOD_RUNNING));
#ifdef WITNESS
    assert(0);
#endif
    return 0;
}
