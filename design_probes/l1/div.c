#include <stdint.h>
#include <assert.h>
uint32_t nondet_uint(void);
int main(void) {
    uint32_t rate = nondet_uint();
    __CPROVER_assume(rate >= 1 && rate <= 1000000000u);
    uint64_t period = 1000000000 / rate;       /* mod.c:575 */
    assert(period * rate >= 1000000000ull);
    return 0;
}
