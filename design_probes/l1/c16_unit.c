#include "ps.h"
#include "src.h"
#include "ctx.h"
#include "evts.h"
#include <assert.h>
static void vf_log_noop(const char *caller, int lineno, const char *fmt, ...) {}
#define N5 {vf_log_noop,vf_log_noop,vf_log_noop,vf_log_noop,vf_log_noop}
m_logger libmodule_logger = { N5, N5, N5, N5, 0 };
unsigned char nondet_uchar(void); size_t nondet_size_t(void); uint64_t nondet_u64(void);
static m_ctx_t *the_ctx;
m_ctx_t *m_ctx(void) { return the_ctx; }
void fetch_ms(uint64_t *val, uint64_t *ctr) { *val = 0; if (ctr) (*ctr)++; }
#define NS 3
static evt_priv_t *evs[NS];
static int seen[NS + 1], nseen, calls;
static void on_evt(m_mod_t *m, const m_queue_t *const q) {
    calls++;
    m_itr_foreach(q, { m_evt_t *e = m_itr_get(m_itr); for (int i = 0; i < NS; i++) if ((void *)e == (void *)evs[i] && nseen < NS) seen[nseen++] = i; });
}
int main(void) {
    the_ctx = m_mem_new(sizeof(m_ctx_t), NULL);
    m_mod_t *mod = m_mem_new(sizeof(m_mod_t), NULL);
    __CPROVER_assume(the_ctx && mod);
    mod->ctx = the_ctx; mod->state = M_MOD_RUNNING; mod->tb.tokens = UINT64_MAX;
    mod->hook.on_evt = on_evt;
    mod->recvs = m_stack_new(NULL); mod->stashed = m_queue_new(mem_dtor);
    __CPROVER_assume(mod->recvs && mod->stashed);
    unsigned char ns = nondet_uchar(); __CPROVER_assume(ns <= NS);
    for (int i = 0; i < NS; i++) if (i < ns) {
        evs[i] = m_mem_new(sizeof(evt_priv_t), NULL); __CPROVER_assume(evs[i]);
        int r = m_mod_stash(mod, &evs[i]->evt); assert(r == 0);
        m_mem_unref(evs[i]);   /* the loop's own reference goes away after the handler returned */
    }
    size_t n = nondet_size_t(); __CPROVER_assume(n > 0);
    ssize_t r = m_mod_unstash(mod, n);
    size_t exp = n < ns ? n : ns;
    assert(r == (ssize_t)exp);
    assert(nseen == (int)exp && calls == (exp ? 1 : 0));
    for (int i = 0; i < NS; i++) if (i < nseen) assert(seen[i] == i);
    assert(m_queue_len(mod->stashed) == (ssize_t)(ns - exp));
#ifdef WITNESS
    assert(0);
#endif
    return 0;
}
