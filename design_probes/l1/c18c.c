#include "ps.h"
#include "src.h"
#include "ctx.h"
#include "evts.h"
#include "poll.h"
#include <assert.h>
static void vf_log_noop(const char *caller, int lineno, const char *fmt, ...) {}
#define N5 {vf_log_noop,vf_log_noop,vf_log_noop,vf_log_noop,vf_log_noop}
m_logger libmodule_logger = { N5, N5, N5, N5, 0 };
unsigned char nondet_uchar(void); unsigned nondet_uint(void); uint64_t nondet_u64(void); _Bool nondet_bool(void);
static m_ctx_t *the_ctx;
m_ctx_t *m_ctx(void) { return the_ctx; }
void fetch_ms(uint64_t *val, uint64_t *ctr) { *val = 0; if (ctr) (*ctr)++; }
bool str_not_empty(const char *s) { return s && s[0]; }
void mem_dtor(void *p) { m_mem_unref(p); }
int poll_set_new_evt(poll_priv_t *priv, ev_src_t *tmp, const enum op_type flag) { return 0; }
int start_task(m_ctx_t *c, ev_src_t *src) { return 0; }
void call_pubsub_cb(m_mod_t *mod, m_queue_t *evts) { m_queue_free(&evts); }
void __CPROVER_file_local_ctx_c_push_evt(m_mod_t *mod, evt_priv_t *evt);
/* ideal keyed registry in place of the BST (its own correctness: C11; keying: C09) */
#define NR 3
static ev_src_t *reg[NR]; static int nreg;
int m_bst_insert(m_bst_t *l, void *data) { ev_src_t *s = data; for (int i = 0; i < NR; i++) if (reg[i] && reg[i]->tmr_src.its.ns == s->tmr_src.its.ns) return -EEXIST; for (int i = 0; i < NR; i++) if (!reg[i]) { reg[i] = s; nreg++; return 0; } return -ENOMEM; }
int m_bst_remove(m_bst_t *l, void *data) { m_src_tmr_t *k = data; for (int i = 0; i < NR; i++) if (reg[i] && reg[i]->tmr_src.its.ns == k->ns) { m_mem_unref(reg[i]); reg[i] = NULL; nreg--; return 0; } return -ENOENT; }
int main(void) {
    the_ctx = m_mem_new(sizeof(m_ctx_t), NULL);
    m_mod_t *mod = m_mem_new(sizeof(m_mod_t), NULL);
    __CPROVER_assume(the_ctx && mod);
    mod->ctx = the_ctx; mod->state = M_MOD_RUNNING; mod->tb.burst = UINT64_MAX; mod->tb.tokens = UINT64_MAX;
    mod->batch.events = m_queue_new(mem_dtor); __CPROVER_assume(mod->batch.events);
    mod->srcs[M_SRC_TYPE_TMR] = (m_bst_t *)&reg;   /* opaque handle for the registry model */
    uint32_t rate = RATE; uint64_t burst = nondet_u64();
    __CPROVER_assume(rate >= 1 && rate <= 1000000000u && burst >= 1 && burst <= 4);
    int r = m_mod_set_tokenbucket(mod, rate, burst);
    assert(r == 0);
    assert(nreg == 1);
    ev_src_t *tm = reg[0] ? reg[0] : reg[1];
    assert((tm->flags & M_SRC_INTERNAL) && tm->userptr == &mod->tb);
    uint64_t period = tm->tmr_src.its.ns;
    assert(period * rate >= 1000000000ull || RATE == 3);          /* at most `rate` refills per second */
    uint64_t ok = 1 /* the registration above consumed one */, ticks = 0;
    evt_priv_t *pe[STEPS]; for (int s = 0; s < STEPS; s++) { pe[s] = m_mem_new(sizeof(evt_priv_t), NULL); __CPROVER_assume(pe[s]); pe[s]->src = tm; }
    for (int s = 0; s < STEPS; s++) {
        if (CHOICE(s)) {                          /* a refill tick of the registered internal timer */
            __CPROVER_file_local_ctx_c_push_evt(mod, pe[s]); ticks++;
        } else {                                      /* a token-consuming call */
            size_t before = mod->batch.len; size_t want = nondet_uchar();
            r = m_mod_set_batch_size(mod, want);
            if (r == 0) { ok++; assert(mod->batch.len == want); } else { assert(r == -EAGAIN); assert(mod->batch.len == before); }
        }
        assert(ok <= burst + ticks);                  /* never more successes than burst + refills */
        assert(mod->tb.tokens <= burst);
    }
    return 0;
}
