#include "ps.h"
#include "src.h"
#include "ctx.h"
#include "evts.h"
#include "poll.h"
#include <assert.h>
static void vf_log_noop(const char *caller, int lineno, const char *fmt, ...) {}
#define N5 {vf_log_noop,vf_log_noop,vf_log_noop,vf_log_noop,vf_log_noop}
m_logger libmodule_logger = { N5, N5, N5, N5, 0 };
uint64_t nondet_u64(void); _Bool nondet_bool(void);
int __CPROVER_file_local_ctx_c_recv_events(m_ctx_t *c, int timeout);
/* per-thread clock: arbitrary non-decreasing readings; the k-th reading of a thread is the same in the solo and in the mixed run */
#define NCLK 8
static uint64_t T[2][NCLK]; static int ti[2]; static int cur; static int overflow;
void fetch_ms(uint64_t *val, uint64_t *ctr) { if (ti[cur] < NCLK) *val = T[cur][ti[cur]++]; else { overflow = 1; *val = T[cur][NCLK - 1]; } if (ctr) (*ctr)++; }
int poll_wait(poll_priv_t *priv, const int timeout) { return 0; }      /* nothing ready */
int m_map_iterate(const m_map_t *m, m_map_cb fn, void *up) { return 0; }
static uint64_t run(int mixed) {
    m_ctx_t *A = m_mem_new(sizeof(m_ctx_t), NULL), *B = m_mem_new(sizeof(m_ctx_t), NULL);
    __CPROVER_assume(A && B);
    A->state = B->state = M_CTX_LOOPING; ti[0] = ti[1] = 0;
    for (int k = 0; k < 3; k++) {
        cur = 0; __CPROVER_file_local_ctx_c_recv_events(A, 0); A->stats.recv_msgs++;   /* A has seen traffic: counter not restarted */
        if (mixed) { cur = 1; __CPROVER_file_local_ctx_c_recv_events(B, 0); }
    }
    return A->stats.idle_time;
}
int main(void) {
    for (int t = 0; t < 2; t++) for (int i = 0; i < NCLK; i++) { T[t][i] = nondet_u64(); __CPROVER_assume(T[t][i] < (1ull << 32)); if (i) __CPROVER_assume(T[t][i] >= T[t][i - 1]); }
    uint64_t solo = run(0), mixed = run(1);
    assert(!overflow);
    assert(solo == mixed);          /* A's idle time must not depend on what the context of another thread does */
    return 0;
}
