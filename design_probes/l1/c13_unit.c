#include "ps.h"
#include "src.h"
#include "ctx.h"
#include "evts.h"
#include <assert.h>
static void vf_log_noop(const char *caller, int lineno, const char *fmt, ...) {}
#define N5 {vf_log_noop,vf_log_noop,vf_log_noop,vf_log_noop,vf_log_noop}
m_logger libmodule_logger = { N5, N5, N5, N5, 0 };
unsigned char nondet_uchar(void); size_t nondet_size_t(void); unsigned nondet_uint(void); _Bool nondet_bool(void);
void __CPROVER_file_local_ctx_c_push_evt(m_mod_t *mod, evt_priv_t *evt);
void mem_dtor(void *p) { m_mem_unref(p); }
#define NQ 3
static evt_priv_t *pre[NQ], *nw;
static int delivered, dcount; static void *dseq[NQ + 1];
void call_pubsub_cb(m_mod_t *mod, m_queue_t *evts) {      /* recorder instead of the user handler */
    delivered++;
    m_itr_foreach(evts, { if (dcount <= NQ) dseq[dcount++] = m_itr_get(m_itr); });
    m_queue_free(&evts);
}
int main(void) {
    m_mod_t *mod = m_mem_new(sizeof(m_mod_t), NULL); __CPROVER_assume(mod);
    mod->state = M_MOD_RUNNING;
    mod->batch.events = m_queue_new(mem_dtor); __CPROVER_assume(mod->batch.events);
    mod->batch.len = nondet_size_t();
    mod->tb.burst = 5; mod->tb.tokens = nondet_uchar(); __CPROVER_assume(mod->tb.tokens <= 5);
    const unsigned char nq = NPRE;                        /* already accumulated events (heap shape: per job) */
    for (int i = 0; i < nq; i++) { pre[i] = m_mem_new(sizeof(evt_priv_t), NULL); __CPROVER_assume(pre[i]); m_queue_enqueue(mod->batch.events, pre[i]); }
    ev_src_t *src = m_mem_new(sizeof(ev_src_t), NULL); __CPROVER_assume(src);
    unsigned prio = 1u << (nondet_uchar() % 3);           /* LOW / NORM / HIGH, normalised as the registration code does */
    bool internal = nondet_bool();
    src->flags = prio | (internal ? M_SRC_INTERNAL : 0);
    unsigned char which = nondet_uchar() % 3;
    static char user; src->userptr = which == 0 ? (void *)&mod->batch : which == 1 ? (void *)&mod->tb : (void *)&user;
    nw = m_mem_new(sizeof(evt_priv_t), NULL); __CPROVER_assume(nw);
    nw->src = src;
    size_t tokens0 = mod->tb.tokens;
    __CPROVER_file_local_ctx_c_push_evt(mod, nw);
    bool batch_timer = internal && which == 0, tb_timer = internal && which == 1;
    size_t have = nq + (internal ? 0 : 1);
    bool expect;
    if (internal) expect = batch_timer && have > 0;
    else if (prio == M_SRC_PRIO_HIGH) expect = true;
    else if (prio == M_SRC_PRIO_LOW) expect = false;
    else expect = have >= mod->batch.len;
    assert(delivered == (expect ? 1 : 0));
    if (expect) { assert(dcount == (int)have); for (int i = 0; i < nq; i++) assert(dseq[i] == pre[i]); if (!internal) assert(dseq[nq] == nw); assert(m_queue_len(mod->batch.events) == 0); }
    else assert(m_queue_len(mod->batch.events) == (ssize_t)have);
    assert(mod->tb.tokens == tokens0 + ((tb_timer && tokens0 < 5) ? 1 : 0));
#ifdef WITNESS
    assert(0);
#endif
    return 0;
}
