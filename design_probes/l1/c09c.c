#include "poll.h"
#include "evts.h"
#include <assert.h>
static void vf_log_noop(const char *caller, int lineno, const char *fmt, ...) {}
#define N5 {vf_log_noop,vf_log_noop,vf_log_noop,vf_log_noop,vf_log_noop}
m_logger libmodule_logger = { N5, N5, N5, N5, 0 };
uint64_t nondet_u64(void); double nondet_double(void);
int __CPROVER_file_local_src_c_tmrcmp(void *my, void *node);
int __CPROVER_file_local_src_c_threshcmp(void *my, void *node);
ev_src_t *__CPROVER_file_local_src_c_create_src(m_mod_t *mod, m_src_types type, process_cb proc, const void *src_data, m_src_flags flags, const void *userptr);
static ev_src_t *dummy_proc(ev_src_t *t, m_ctx_t *c, int i, evt_priv_t *e) { return t; }
static int sgn(int x) { return (x > 0) - (x < 0); }
int main(void) {
#if KIND == 0
    m_src_tmr_t k1 = { CLOCK_MONOTONIC, nondet_u64() }, k2 = { CLOCK_MONOTONIC, nondet_u64() };
    __CPROVER_assume(k1.ns > 0 && k2.ns > 0);
    ev_src_t *s1 = __CPROVER_file_local_src_c_create_src(NULL, M_SRC_TYPE_TMR, dummy_proc, &k1, 0, NULL);
    ev_src_t *s2 = __CPROVER_file_local_src_c_create_src(NULL, M_SRC_TYPE_TMR, dummy_proc, &k2, 0, NULL);
    __CPROVER_assume(s1 && s2);
    int by_key = __CPROVER_file_local_src_c_tmrcmp(&k2, s1);      /* lookup / removal path */
    int by_src = __CPROVER_file_local_src_c_tmrcmp(s2, s1);       /* what m_bst_insert(tree, s2) evaluates */
    int truth = (k2.ns > k1.ns) - (k2.ns < k1.ns);
#else
    m_src_thresh_t k1 = { nondet_u64(), 0.0 }, k2 = { nondet_u64(), 0.0 };
    __CPROVER_assume(k1.inactive_ms > 0 && k2.inactive_ms > 0 && k1.inactive_ms < (1ull << 40) && k2.inactive_ms < (1ull << 40));
    ev_src_t *s1 = __CPROVER_file_local_src_c_create_src(NULL, M_SRC_TYPE_THRESH, dummy_proc, &k1, 0, NULL);
    ev_src_t *s2 = __CPROVER_file_local_src_c_create_src(NULL, M_SRC_TYPE_THRESH, dummy_proc, &k2, 0, NULL);
    __CPROVER_assume(s1 && s2);
    int by_key = __CPROVER_file_local_src_c_threshcmp(&k2, s1);
    int by_src = __CPROVER_file_local_src_c_threshcmp(s2, s1);
    int truth = (k2.inactive_ms > k1.inactive_ms) - (k2.inactive_ms < k1.inactive_ms);
#endif
    assert(sgn(by_key) == truth);       /* key order respected at any distance */
    assert(sgn(by_src) == truth);       /* insertion orders by the same key */
    return 0;
}
