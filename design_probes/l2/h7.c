#include <module/mod.h>
#include <module/ctx.h>
#include <module/mem/mem.h>
#include <assert.h>
#include <stdlib.h>
#include <string.h>
#include "log.h"
static void vf_log_noop(const char *caller, int lineno, const char *fmt, ...) {}
#define N5 {vf_log_noop,vf_log_noop,vf_log_noop,vf_log_noop,vf_log_noop}
m_logger libmodule_logger = { N5, N5, N5, N5, 0 };
_Bool nondet_bool(void); unsigned nondet_uint(void);
static m_mod_t *mods[2]; static m_mod_t *keep; static int stops[2];
static void on_stop(m_mod_t *m) { stops[m == mods[1]]++; }
static void on_evt(m_mod_t *m, const m_queue_t *const evts) {
    m_itr_foreach(evts, {
        m_evt_t *e = m_itr_get(m_itr);
        if (m == mods[0] && e->type == M_SRC_TYPE_PS && !e->ps_evt->system) {
            m_mod_ps_tell(m, mods[1], "x", 0);          /* message in flight whose sender is about to vanish */
            m_mod_t *self = m; m_mod_deregister(&self);   /* re-entrant self-deregistration */
        }
    });
}
int vf_main(void) {
    unsigned fl = nondet_uint() & (M_MOD_NAME_DUP | M_MOD_ALLOW_REPLACE);
    int r = m_ctx_register("c", M_CTX_PERSIST, NULL); assert(r == 0);
    m_mod_hook_t hook = { NULL, NULL, on_evt, on_stop };
    r = m_mod_register("a", &mods[0], &hook, fl, NULL); assert(r == 0);
    r = m_mod_register("b", &mods[1], &hook, 0, NULL); assert(r == 0);
    keep = m_mem_ref(mods[0]);                            /* user keeps a reference on the module */
    r = m_mod_start(mods[0]); assert(r == 0);
    r = m_mod_start(mods[1]); assert(r == 0);
    r = m_mod_ps_tell(mods[1], mods[0], "go", 0); assert(r == 0);
    r = m_ctx_dispatch(); assert(r == 0);
    r = m_ctx_dispatch();                                 /* a gets "go", tells b, deregisters itself */
    assert(m_mod_is(keep, M_MOD_ZOMBIE) && stops[0] == 1);
    assert(strcmp(m_mod_name(keep), "a") == 0);           /* zombie still answers */
    _Bool early = nondet_bool();
    if (early) { m_mem_unref(keep); m_mem_unref(mods[0]); }   /* drop user refs before or after the message is consumed */
    r = m_ctx_dispatch();                                 /* b gets "x" from the zombie sender */
    if (!early) { m_mem_unref(keep); m_mem_unref(mods[0]); }
    r = m_ctx_quit(0); m_ctx_dispatch();
    r = m_mod_deregister(&mods[1]); assert(r == 0);
    r = m_ctx_deregister(); assert(r == 0);
    return 0;
}
