#include <module/mod.h>
#include <module/ctx.h>
#include <assert.h>
#include <stdlib.h>
#include "log.h"
m_logger libmodule_logger;
static void vf_log_noop(const char *caller, int lineno, const char *fmt, ...) {}
static void vf_init_logger(void) {
    for (int i = 0; i < X_LOG_CTX_MAX; i++) {
        libmodule_logger.DEBUG[i] = vf_log_noop; libmodule_logger.INFO[i] = vf_log_noop;
        libmodule_logger.WARN[i] = vf_log_noop; libmodule_logger.ERR[i] = vf_log_noop;
    }
}
_Bool nondet_bool(void);
static int got[2]; static const void *last_data[2];
static m_mod_t *mods[2];
static int starts[2], stops[2];
static bool on_start(m_mod_t *m) { starts[m == mods[1]]++; return true; }
static void on_stop(m_mod_t *m) { stops[m == mods[1]]++; }
static void on_evt(m_mod_t *m, const m_queue_t *const evts) {
    int idx = m == mods[1];
    m_itr_foreach(evts, {
        m_evt_t *e = m_itr_get(m_itr);
        if (e->type == M_SRC_TYPE_PS && !e->ps_evt->system) { got[idx]++; last_data[idx] = e->ps_evt->data; }
    });
}
int vf_main(void) {
    vf_init_logger();
    int r = m_ctx_register("c", M_CTX_PERSIST, NULL);
    assert(r == 0);
    m_mod_hook_t hook = { on_start, NULL, on_evt, on_stop };
    r = m_mod_register("a", &mods[0], &hook, 0, NULL); assert(r == 0);
    r = m_mod_register("b", &mods[1], &hook, 0, NULL); assert(r == 0);
    r = m_mod_start(mods[0]); assert(r == 0);
    r = m_mod_start(mods[1]); assert(r == 0);
    static char payload;
    r = m_mod_ps_tell(mods[0], mods[1], &payload, 0); assert(r == 0);
    r = m_ctx_dispatch(); assert(r == 0);
    r = m_ctx_dispatch();
    assert(got[1] == 1 && last_data[1] == &payload && got[0] == 0);
#ifdef WITNESS
    assert(0);
#endif
    return 0;
}
