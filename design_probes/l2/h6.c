#include <module/mod.h>
#include <module/ctx.h>
#include <assert.h>
#include <stdlib.h>
#include "log.h"
static void vf_log_noop(const char *caller, int lineno, const char *fmt, ...) {}
#define N5 {vf_log_noop,vf_log_noop,vf_log_noop,vf_log_noop,vf_log_noop}
m_logger libmodule_logger = { N5, N5, N5, N5, 0 };
uint64_t nondet_u64(void);
#define VF_NCLK 24
extern uint64_t vf_times[2][VF_NCLK]; extern int vf_clk_idx[2]; extern int vf_clk_overflow; extern int vf_cur_thread;
static void on_evt(m_mod_t *m, const m_queue_t *const evts) {}
static m_mod_hook_t hook = { NULL, NULL, on_evt, NULL };
typedef struct { int r[3]; uint64_t idle; uint64_t recv; size_t running; } obs_t;
static m_mod_t *mA, *mB;
static void other_step(int k) {            /* context on "thread 1" makes progress in between */
    vf_cur_thread = 1;
    if (k == 0) { int r = m_ctx_register("B", M_CTX_PERSIST, NULL); assert(r == 0); r = m_mod_register("b", &mB, &hook, 0, NULL); assert(r == 0); r = m_mod_start(mB); assert(r == 0); }
    else m_ctx_dispatch();
    vf_cur_thread = 0;
}
static obs_t run_P(int interleaved) {
    obs_t o; m_ctx_stats_t st;
    vf_cur_thread = 0; vf_clk_idx[0] = 0;
    int r = m_ctx_register("A", M_CTX_PERSIST, NULL); assert(r == 0);
    r = m_mod_register("a", &mA, &hook, 0, NULL); assert(r == 0);
    r = m_mod_start(mA); assert(r == 0);
    if (interleaved) other_step(0);
    o.r[0] = m_ctx_dispatch();
    if (interleaved) other_step(1);
    o.r[1] = m_ctx_dispatch();
    if (interleaved) other_step(2);
    o.r[2] = m_ctx_dispatch();
    r = m_ctx_stats(&st); assert(r == 0);
    o.idle = st.total_idle_time; o.recv = st.recv_msgs; o.running = st.running_modules;
    r = m_ctx_quit(0); assert(r == 0); m_ctx_dispatch();
    r = m_mod_deregister(&mA); assert(r == 0);
    r = m_ctx_deregister(); assert(r == 0);
    return o;
}
int vf_main(void) {
    for (int t = 0; t < 2; t++) for (int i = 0; i < VF_NCLK; i++) { vf_times[t][i] = nondet_u64(); __CPROVER_assume(vf_times[t][i] < (1u << 16)); if (i) __CPROVER_assume(vf_times[t][i] >= vf_times[t][i - 1]); }
    obs_t solo = run_P(0);
    obs_t mixed = run_P(1);
    assert(!vf_clk_overflow);
    assert(solo.r[0] == mixed.r[0] && solo.r[1] == mixed.r[1] && solo.r[2] == mixed.r[2]);
    assert(solo.recv == mixed.recv && solo.running == mixed.running);
    assert(solo.idle == mixed.idle);       /* what A observes must not depend on B */
    return 0;
}
