/* Minimal OS model for probing CBMC on libmodule core */

#include <stddef.h>
#include <stdint.h>
#include <stdbool.h>
#include <errno.h>
#include <string.h>
#include <unistd.h>
#include <fcntl.h>
#include <time.h>
#include <pthread.h>
#include <regex.h>
#include <signal.h>
#include <sys/epoll.h>
#include <sys/timerfd.h>
#include <sys/signalfd.h>
#include <sys/inotify.h>
#include <sys/eventfd.h>

int nondet_int(void); _Bool nondet_bool(void); unsigned nondet_uint(void); uint64_t nondet_u64(void);

#ifndef VF_NFD
#define VF_NFD 12
#endif
#ifndef VF_PIPE_CAP
#define VF_PIPE_CAP 3
#endif
enum vf_kind { VF_FREE = 0, VF_PIPE_R, VF_PIPE_W, VF_EPOLL, VF_TIMER, VF_SIGNAL, VF_INOTIFY, VF_PIDFD, VF_EVENTFD, VF_USER };
struct vf_fd {
    enum vf_kind kind;
    int peer;            /* pipe: other end */
    void *buf[VF_PIPE_CAP]; int head, cnt; /* pipe read end holds the buffer */
    uint64_t counter;    /* eventfd/timer expirations */
    bool ep_in;          /* in epoll interest list */
    bool ep_disabled;    /* oneshot fired */
    struct epoll_event ev;
    bool lib_owned;
};
struct vf_fd vf_fds[VF_NFD];
int vf_errno;
int vf_user_ready[VF_NFD];
static int vf_alloc(enum vf_kind k);
int vf_user_fd(void) { int fd = vf_alloc(VF_USER); if (fd >= 0) vf_fds[fd].lib_owned = false; return fd; }
int vf_bad_close;       /* ghost: close() of a non-open fd */
int *__errno_location(void) { return &vf_errno; }

static int vf_alloc(enum vf_kind k) {
    for (int i = 3; i < VF_NFD; i++) {
        if (vf_fds[i].kind == VF_FREE) {
            memset(&vf_fds[i], 0, sizeof(vf_fds[i]));
            vf_fds[i].kind = k; vf_fds[i].lib_owned = true; vf_fds[i].peer = -1;
            return i;
        }
    }
    errno = EMFILE;
    return -1;
}
static bool vf_valid(int fd) { return fd >= 0 && fd < VF_NFD && vf_fds[fd].kind != VF_FREE; }

int pipe(int p[2]) {
    int r = vf_alloc(VF_PIPE_R); if (r < 0) return -1;
    int w = vf_alloc(VF_PIPE_W); if (w < 0) { vf_fds[r].kind = VF_FREE; return -1; }
    vf_fds[r].peer = w; vf_fds[w].peer = r; p[0] = r; p[1] = w; return 0;
}
int fcntl(int fd, int cmd, ...) { return 0; }
int close(int fd) {
    if (!vf_valid(fd)) { vf_bad_close++; errno = EBADF; return -1; }
    if (vf_fds[fd].peer >= 0 && vf_valid(vf_fds[fd].peer)) vf_fds[vf_fds[fd].peer].peer = -1;
    vf_fds[fd].kind = VF_FREE; vf_fds[fd].ep_in = false;
    return 0;
}
int dup(int fd) { if (!vf_valid(fd)) { errno = EBADF; return -1; } int n = vf_alloc(vf_fds[fd].kind); return n; }
ssize_t write(int fd, const void *b, size_t n) {
    if (!vf_valid(fd)) { errno = EBADF; return -1; }
    struct vf_fd *f = &vf_fds[fd];
    if (f->kind == VF_PIPE_W) {
        if (f->peer < 0) { errno = EPIPE; return -1; }
        struct vf_fd *r = &vf_fds[f->peer];
        if (n != sizeof(void *)) { errno = EINVAL; return -1; }
        if (r->cnt == VF_PIPE_CAP) { errno = EAGAIN; return -1; }
        r->buf[(r->head + r->cnt) % VF_PIPE_CAP] = *(void *const *)b; r->cnt++;
        return n;
    }
    if (f->kind == VF_EVENTFD) { if (n != 8) { errno = EINVAL; return -1; } f->counter += *(const uint64_t *)b; return 8; }
    errno = EINVAL; return -1;
}
ssize_t read(int fd, void *b, size_t n) {
    if (!vf_valid(fd)) { errno = EBADF; return -1; }
    struct vf_fd *f = &vf_fds[fd];
    if (f->kind == VF_PIPE_R) {
        if (f->cnt == 0) { if (f->peer < 0) return 0; errno = EAGAIN; return -1; }
        if (n != sizeof(void *)) { errno = EINVAL; return -1; }
        *(void **)b = f->buf[f->head]; f->head = (f->head + 1) % VF_PIPE_CAP; f->cnt--;
        return n;
    }
    if (f->kind == VF_EVENTFD || f->kind == VF_TIMER) {
        if (f->counter == 0) { errno = EAGAIN; return -1; }
        *(uint64_t *)b = f->counter; f->counter = 0; return 8;
    }
    errno = EAGAIN; return -1;
}
int epoll_create1(int fl) { return vf_alloc(VF_EPOLL); }
int epoll_ctl(int ep, int op, int fd, struct epoll_event *ev) {
    if (!vf_valid(ep) || !vf_valid(fd)) { errno = EBADF; return -1; }
    struct vf_fd *f = &vf_fds[fd];
    if (op == EPOLL_CTL_ADD) { if (f->ep_in) { errno = EEXIST; return -1; } f->ep_in = true; f->ep_disabled = false; f->ev = *ev; return 0; }
    if (op == EPOLL_CTL_DEL) { if (!f->ep_in) { errno = ENOENT; return -1; } f->ep_in = false; return 0; }
    errno = EINVAL; return -1;
}
int epoll_wait(int ep, struct epoll_event *evs, int max, int timeout) {
    int n = 0;
    for (int i = 3; i < VF_NFD && n < max; i++) {
        struct vf_fd *f = &vf_fds[i];
        if (f->kind == VF_FREE || !f->ep_in || f->ep_disabled) continue;
        bool ready = false;
        if (f->kind == VF_PIPE_R) ready = f->cnt > 0;
        else if (f->kind == VF_EVENTFD) ready = f->counter > 0;
        else if (f->kind == VF_TIMER) { if (nondet_bool()) f->counter = 1; ready = f->counter > 0; }
        else if (f->kind == VF_USER) ready = vf_user_ready[i];
        else ready = nondet_bool();
        if (ready) { evs[n] = f->ev; evs[n].events = EPOLLIN; n++; if (f->ev.events & EPOLLONESHOT) f->ep_disabled = true; }
    }
    if (n == 0 && timeout < 0) __CPROVER_assume(0);
    return n;
}
int timerfd_create(int c, int fl) { return vf_alloc(VF_TIMER); }
int timerfd_settime(int fd, int fl, const struct itimerspec *n, struct itimerspec *o) { return 0; }
int signalfd(int fd, const sigset_t *m, int fl) { return vf_alloc(VF_SIGNAL); }
int sigprocmask(int how, const sigset_t *s, sigset_t *o) { return 0; }
int sigemptyset(sigset_t *s) { return 0; }
int sigaddset(sigset_t *s, int n) { return 0; }
int inotify_init1(int fl) { return vf_alloc(VF_INOTIFY); }
int inotify_add_watch(int fd, const char *p, uint32_t m) { return 1; }
long syscall(long nr, ...) { return vf_alloc(VF_PIDFD); }
int eventfd(unsigned v, int fl) { return vf_alloc(VF_EVENTFD); }

/* time: arbitrary non-decreasing, per simulated thread, replayable */
#define VF_NCLK 24
uint64_t vf_times[2][VF_NCLK]; int vf_clk_idx[2]; int vf_clk_overflow;
extern int vf_cur_thread;
int clock_gettime(clockid_t c, struct timespec *ts) {
    int t = vf_cur_thread; uint64_t v;
    if (vf_clk_idx[t] < VF_NCLK) v = vf_times[t][vf_clk_idx[t]++]; else { vf_clk_overflow = 1; v = vf_times[t][VF_NCLK - 1]; }
    ts->tv_sec = v; ts->tv_nsec = 0; return 0;
}
/* TLS: per simulated thread */
int vf_cur_thread;
static void *vf_tls[2];
int pthread_once(pthread_once_t *o, void (*fn)(void)) { return 0; }
int pthread_key_create(pthread_key_t *k, void (*d)(void *)) { *k = 0; return 0; }
void *pthread_getspecific(pthread_key_t k) { return vf_tls[vf_cur_thread]; }
int pthread_setspecific(pthread_key_t k, const void *v) { vf_tls[vf_cur_thread] = (void *)v; return 0; }
/* regex: uninterpreted */
int regcomp(regex_t *r, const char *p, int fl) { return 0; }
int regexec(const regex_t *r, const char *s, size_t n, regmatch_t *m, int fl) { return REG_NOMATCH; }
void regfree(regex_t *r) {}
void *dlopen(const char *f, int fl) { return 0; }
void *dlsym(void *h, const char *s) { return 0; }
int dlclose(void *h) { return 0; }
char *dlerror(void) { return "x"; }
char *strerror(int e) { return "err"; }
/* thpool stubbed out for this probe */
#include "public/module/thpool/thpool.h"
m_thpool_t *m_thpool_new(uint8_t n, m_thpool_flags f) { return 0; }
int m_thpool_add(m_thpool_t *p, m_thpool_task t, void *a) { return -1; }
int m_thpool_free(m_thpool_t **p, bool w) { return 0; }
