#include <module/mod.h>
#include <module/ctx.h>
#include <assert.h>
#include <stdlib.h>
#include <errno.h>
#include "log.h"
#include "mem.h"
static void vf_log_noop(const char *caller, int lineno, const char *fmt, ...) {}
#define N5 {vf_log_noop,vf_log_noop,vf_log_noop,vf_log_noop,vf_log_noop}
m_logger libmodule_logger = { N5, N5, N5, N5, 0 };
_Bool nondet_bool(void);
static m_mod_t *mods[3];
static int got[3];
static char payload[4]; static int payload_frees;
static void vf_free(void *p) { if (p == payload) payload_frees++; else free(p); }
static void on_evt(m_mod_t *m, const m_queue_t *const evts) {
    int i = m == mods[1] ? 1 : m == mods[2] ? 2 : 0;
    m_itr_foreach(evts, { m_evt_t *e = m_itr_get(m_itr); if (e->type == M_SRC_TYPE_PS && !e->ps_evt->system) { got[i]++; assert(e->ps_evt->data == payload); assert(payload_frees == 0); } });
}
int vf_main(void) {
    m_set_memhook(malloc, calloc, vf_free);
    int r = m_ctx_register("c", M_CTX_PERSIST, NULL); assert(r == 0);
    m_mod_hook_t hook = { NULL, NULL, on_evt, NULL };
    r = m_mod_register("a", &mods[0], &hook, 0, NULL); assert(r == 0);
    r = m_mod_register("b", &mods[1], &hook, 0, NULL); assert(r == 0);
    r = m_mod_register("c", &mods[2], &hook, 0, NULL); assert(r == 0);
    for (int i = 0; i < 3; i++) { r = m_mod_start(mods[i]); assert(r == 0); }
    r = m_mod_ps_subscribe(mods[1], "t", 0, NULL); assert(r == 0);
    r = m_mod_ps_subscribe(mods[2], "t", 0, NULL); assert(r == 0);
    r = m_ctx_dispatch(); assert(r == 0);
    _Bool autofree = nondet_bool();
    r = m_mod_ps_publish(mods[0], "t", payload, autofree ? M_PS_AUTOFREE : 0); assert(r == 0);
    r = m_ctx_dispatch();
    r = m_ctx_dispatch();
    assert(got[0] == 0 && got[1] == 1 && got[2] == 1);
    assert(payload_frees == (autofree ? 1 : 0));
    return 0;
}
