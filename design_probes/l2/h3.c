#include <module/mod.h>
#include <module/ctx.h>
#include <assert.h>
#include <stdlib.h>
#include <errno.h>
#include <unistd.h>
#include "log.h"
m_logger libmodule_logger;
static void vf_log_noop(const char *caller, int lineno, const char *fmt, ...) {}
static void vf_init_logger(void) {
    for (int i = 0; i < X_LOG_CTX_MAX; i++) {
        libmodule_logger.DEBUG[i] = vf_log_noop; libmodule_logger.INFO[i] = vf_log_noop;
        libmodule_logger.WARN[i] = vf_log_noop; libmodule_logger.ERR[i] = vf_log_noop;
    }
}
int nondet_int(void);
extern int vf_user_ready[];  /* harness-controlled readiness of user fds */
int vf_user_fd(void);
static m_mod_t *mod;
static int seen_fd[2], calls; static const void *seen_ud[2];
static int user_errno;
static void on_evt(m_mod_t *m, const m_queue_t *const evts) {
    m_itr_foreach(evts, {
        m_evt_t *e = m_itr_get(m_itr);
        if (e->type == M_SRC_TYPE_FD && calls < 2) { seen_fd[calls] = e->fd_evt->fd; seen_ud[calls] = e->userdata; calls++; }
    });
    errno = user_errno;   /* user code leaves an arbitrary errno behind */
}
int vf_main(void) {
    vf_init_logger();
    int r = m_ctx_register("c", M_CTX_PERSIST, NULL); assert(r == 0);
    m_mod_hook_t hook = { NULL, NULL, on_evt, NULL };
    r = m_mod_register("a", &mod, &hook, 0, NULL); assert(r == 0);
    r = m_mod_start(mod); assert(r == 0);
    int f1 = vf_user_fd(), f2 = vf_user_fd();
    static char u1, u2;
    r = m_mod_src_register_fd(mod, f1, 0, &u1); assert(r == 0);
    r = m_mod_src_register_fd(mod, f2, 0, &u2); assert(r == 0);
    r = m_ctx_dispatch(); assert(r == 0);           /* loop start */
    user_errno = nondet_int();
    vf_user_ready[f1] = 1; vf_user_ready[f2] = 1;   /* both ready in one poll batch */
    r = m_ctx_dispatch();
    assert(calls == 2);                              /* no event of the batch dropped */
    assert(seen_fd[0] != seen_fd[1]);
    assert((seen_fd[0] == f1 && seen_ud[0] == &u1) || (seen_fd[0] == f2 && seen_ud[0] == &u2));
    assert(r == 2);
    r = m_ctx_quit(7); assert(r == 0);
    r = m_ctx_dispatch(); assert(r == 7);            /* loop not quit by errno, returns requested code */
#ifdef WITNESS
    assert(0);
#endif
    return 0;
}
