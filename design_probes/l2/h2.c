#include <module/mod.h>
#include <module/ctx.h>
#include <module/mem/mem.h>
#include <assert.h>
#include <stdlib.h>
#include <errno.h>
#include "log.h"
m_logger libmodule_logger;
static void vf_log_noop(const char *caller, int lineno, const char *fmt, ...) {}
static void vf_init_logger(void) {
    for (int i = 0; i < X_LOG_CTX_MAX; i++) {
        libmodule_logger.DEBUG[i] = vf_log_noop; libmodule_logger.INFO[i] = vf_log_noop;
        libmodule_logger.WARN[i] = vf_log_noop; libmodule_logger.ERR[i] = vf_log_noop;
    }
}
_Bool nondet_bool(void); unsigned char nondet_uchar(void);
#define NM 2
#ifndef K
#define K 3
#endif
static m_mod_t *mods[NM];
static int starts[NM], stops[NM], evts_while_not_running;
static bool start_ret[NM];
static int idx_of(m_mod_t *m) { return m == mods[1]; }
static bool on_start(m_mod_t *m) { int i = idx_of(m); starts[i]++; return start_ret[i]; }
static void on_stop(m_mod_t *m) { stops[idx_of(m)]++; }
static void on_evt(m_mod_t *m, const m_queue_t *const evts) {
    if (!m_mod_is(m, M_MOD_RUNNING)) evts_while_not_running++;
}
/* reference model */
static m_mod_states mstate[NM];
int vf_main(void) {
    vf_init_logger();
    int r = m_ctx_register("c", M_CTX_PERSIST, NULL);
    assert(r == 0);
    m_mod_hook_t hook = { on_start, NULL, on_evt, on_stop };
    r = m_mod_register("a", &mods[0], &hook, 0, NULL); assert(r == 0);
    r = m_mod_register("b", &mods[1], &hook, 0, NULL); assert(r == 0);
    mstate[0] = mstate[1] = M_MOD_IDLE;
    static char payload;
    for (int s = 0; s < K; s++) {
        unsigned char op = nondet_uchar(); __CPROVER_assume(op < 6);
        unsigned char i = nondet_uchar(); __CPROVER_assume(i < NM);
        m_mod_t *m = mods[i];
        int es = starts[i], ep = stops[i];
        start_ret[i] = nondet_bool();
        m_mod_states pre = mstate[i];
        switch (op) {
        case 0: r = m_mod_start(m);
            if (pre & (M_MOD_IDLE | M_MOD_STOPPED)) { assert(r == 0); es++; if (start_ret[i]) mstate[i] = M_MOD_RUNNING; else { mstate[i] = M_MOD_STOPPED; ep++; } }
            else assert(r < 0);
            break;
        case 1: r = m_mod_pause(m);
            if (pre == M_MOD_RUNNING) { assert(r == 0); mstate[i] = M_MOD_PAUSED; } else assert(r < 0);
            break;
        case 2: r = m_mod_resume(m);
            if (pre == M_MOD_PAUSED) { assert(r == 0); mstate[i] = M_MOD_RUNNING; } else assert(r < 0);
            break;
        case 3: r = m_mod_stop(m);
            if (pre & (M_MOD_RUNNING | M_MOD_PAUSED)) { assert(r == 0); mstate[i] = M_MOD_STOPPED; ep++; } else assert(r < 0);
            break;
        case 4: r = m_mod_ps_tell(m, mods[1 - i], &payload, 0);
            break;
        case 5: { m_mod_t *tmp = m_mem_ref(m); r = m_mod_deregister(&tmp);
            if (pre != M_MOD_ZOMBIE) { assert(r == 0); if (pre & (M_MOD_RUNNING | M_MOD_PAUSED)) ep++; mstate[i] = M_MOD_ZOMBIE; } else { assert(r < 0); m_mem_unref(tmp);} }
            break;
        }
        assert(m_mod_state(m) == mstate[i]);
        assert(starts[i] == es && stops[i] == ep);
        assert(m_mod_state(mods[1-i]) == mstate[1-i]);
    }
    assert(evts_while_not_running == 0);
#ifdef WITNESS
    assert(0);
#endif
    return 0;
}
