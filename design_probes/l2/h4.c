#include <module/mod.h>
#include <module/ctx.h>
#include <assert.h>
#include <stdlib.h>
#include <errno.h>
#include "log.h"
static void vf_log_noop(const char *caller, int lineno, const char *fmt, ...) {}
#define N5 {vf_log_noop,vf_log_noop,vf_log_noop,vf_log_noop,vf_log_noop}
m_logger libmodule_logger = { N5, N5, N5, N5, 0 };
uint64_t nondet_u64(void);
static m_mod_t *mod;
static void on_evt(m_mod_t *m, const m_queue_t *const evts) {}
int vf_main(void) {
    int r = m_ctx_register("c", M_CTX_PERSIST, NULL); assert(r == 0);
    m_mod_hook_t hook = { NULL, NULL, on_evt, NULL };
    r = m_mod_register("a", &mod, &hook, 0, NULL); assert(r == 0);
    m_src_tmr_t t1 = { CLOCK_MONOTONIC, nondet_u64() }, t2 = { CLOCK_MONOTONIC, nondet_u64() };
    __CPROVER_assume(t1.ns > 0 && t2.ns > 0);
    r = m_mod_src_register_tmr(mod, &t1, 0, NULL); assert(r == 0);
    assert(m_mod_src_len(mod, M_SRC_TYPE_TMR) == 1);
    r = m_mod_src_register_tmr(mod, &t2, 0, NULL);
    if (t1.ns == t2.ns) assert(r == -EEXIST); else assert(r == 0);
    assert(m_mod_src_len(mod, M_SRC_TYPE_TMR) == (t1.ns == t2.ns ? 1 : 2));
    r = m_mod_src_deregister_tmr(mod, &t1); assert(r == 0);
    assert(m_mod_src_len(mod, M_SRC_TYPE_TMR) == (t1.ns == t2.ns ? 0 : 1));
    r = m_mod_src_deregister_tmr(mod, &t1); assert(r < 0);
    return 0;
}
