#include <module/mod.h>
#include <module/ctx.h>
#include <module/mem/mem.h>
#include <assert.h>
#include <stdlib.h>
#include <errno.h>
#include "log.h"
static void vf_log_noop(const char *caller, int lineno, const char *fmt, ...) {}
#define N5 {vf_log_noop,vf_log_noop,vf_log_noop,vf_log_noop,vf_log_noop}
m_logger libmodule_logger = { N5, N5, N5, N5, 0 };
unsigned nondet_uint(void);
static m_mod_t *mods[2]; static int stops[2];
static void on_stop(m_mod_t *m) { stops[m == mods[1]]++; }
static void on_evt(m_mod_t *m, const m_queue_t *const evts) {}
int vf_main(void) {
    unsigned cfl = nondet_uint() & (M_CTX_PERSIST | M_CTX_USERDATA_AUTOFREE);
    void *ud = (cfl & M_CTX_USERDATA_AUTOFREE) ? malloc(4) : NULL;
    int r = m_ctx_register("c", cfl, ud); assert(r == 0);
    r = m_ctx_register("d", 0, NULL); assert(r == -EEXIST);            /* one context per thread */
    m_mod_hook_t hook = { NULL, NULL, on_evt, on_stop };
    r = m_mod_register("a", &mods[0], &hook, 0, NULL); assert(r == 0);
    r = m_mod_register("b", &mods[1], &hook, 0, NULL); assert(r == 0);
    r = m_mod_start(mods[0]); assert(r == 0);                            /* a RUNNING, b IDLE at teardown */
    r = m_ctx_deregister(); assert(r == 0);
    assert(m_mod_is(mods[0], M_MOD_ZOMBIE) && m_mod_is(mods[1], M_MOD_ZOMBIE));   /* every module deregistered */
    assert(stops[0] == 1 && stops[1] == 0);
    assert(m_ctx_len() == -EPIPE);
    m_mem_unref(mods[0]); m_mem_unref(mods[1]);
    r = m_ctx_register("e", M_CTX_PERSIST, NULL); assert(r == 0);      /* thread can register a fresh context */
    return 0;
}
