/* OS model interface (DESIGN.md 3.3).  Force-included (-include vf_os.h) into every /repo source and harness of the
 * whole-core (L2) jobs: the libc / kernel entry points the core uses are renamed to vf_* by function-like macros, so
 * the same model serves CBMC and the native replay (gcc + sanitizers) without interposing on libc. */
#ifndef VF_OS_H
#define VF_OS_H
#include <stddef.h>
#include <stdint.h>
#include <stdbool.h>
#include <stdlib.h>
#include <errno.h>
#include <string.h>
#include <unistd.h>
#include <fcntl.h>
#include <time.h>
#include <pthread.h>
#include <regex.h>
#include <signal.h>
#include <dlfcn.h>
#include <sys/types.h>
#include <sys/epoll.h>
#include <sys/timerfd.h>
#include <sys/signalfd.h>
#include <sys/inotify.h>
#include <sys/eventfd.h>
#include <sys/syscall.h>

#ifndef VF_NFD
#define VF_NFD 12
#endif
#ifndef VF_PIPE_MAX
#define VF_PIPE_MAX 3
#endif
#ifndef VF_NTHREADS
#define VF_NTHREADS 2
#endif
#ifndef VF_NTASK
#define VF_NTASK 2
#endif

enum vf_kind { VF_FREE = 0, VF_PIPE_R, VF_PIPE_W, VF_EPOLL, VF_TIMER, VF_SIGNAL, VF_INOTIFY, VF_PIDFD, VF_EVENTFD, VF_USER };
struct vf_fd {
    enum vf_kind kind;
    int peer;                        /* pipe: the other end, -1 when closed */
    void *buf[VF_PIPE_MAX];          /* pipe read end: FIFO of pointer-sized words */
    int head, cnt;
    uint64_t counter;                /* eventfd counter / timer expirations */
    bool ready;                      /* user / signal / inotify / pidfd readiness (set by the harness) */
    bool hup;                        /* user descriptor: the peer wrote and hung up - reported as EPOLLIN|EPOLLHUP */
    bool ep_in;                      /* registered in the epoll interest list */
    bool ep_disabled;                /* EPOLLONESHOT already reported */
    struct epoll_event ev;
    bool lib_owned;                  /* opened by the library (ghost, C20) */
    uint64_t period_ns;              /* timerfd_settime value (ghost, C18/C19) */
};
extern struct vf_fd vf_fds[VF_NFD];
extern int vf_pipe_cap;              /* 1..VF_PIPE_MAX; harness may make it symbolic */
extern int vf_bad_close;             /* ghost: close() of a descriptor that is not open */
extern int vf_user_close[VF_NFD];    /* ghost: how often the library closed a user-owned descriptor */
extern int vf_cur_thread;            /* simulated thread issuing the calls */
extern bool vf_timers_autofire;      /* every armed timer may fire nondeterministically at each epoll_wait */
extern bool vf_tasks_autorun;        /* deferred tasks run at the next epoll_wait (else only at m_thpool_free) */
extern bool vf_epoll_desc;           /* report ready descriptors in descending order */
extern int vf_epoll_waits;
extern int vf_epoll_fail_errno;       /* harness: make the next epoll_wait fail once with this errno */           /* number of epoll_wait calls so far */

/* harness helpers */
int vf_user_fd(void);                         /* a descriptor opened by the user */
int vf_find_kind(enum vf_kind k, int nth);    /* nth open descriptor of that kind, -1 if none */
int vf_lib_open(void);                        /* number of library-owned descriptors still open */
bool vf_is_open(int fd);
void vf_fire_timers(void);                    /* every armed timer expires once */
int vf_match(const void *reg, const char *topic);   /* provided by the harness: the regex relation, 0 = match */
void vf_run_tasks(void);
void vf_key_create_hook(void);                 /* provided by the harness (l2.h: empty by default) */
extern int vf_nkeys;
bool vf_once_in_progress(void);

int vf_pipe(int p[2]);
int vf_fcntl(int fd, int cmd, ...);
int vf_close(int fd);
int vf_dup(int fd);
ssize_t vf_read(int fd, void *b, size_t n);
ssize_t vf_write(int fd, const void *b, size_t n);
int vf_epoll_create1(int fl);
int vf_epoll_ctl(int ep, int op, int fd, struct epoll_event *ev);
int vf_epoll_wait(int ep, struct epoll_event *evs, int max, int timeout);
int vf_timerfd_create(int c, int fl);
int vf_timerfd_settime(int fd, int fl, const struct itimerspec *n, struct itimerspec *o);
int vf_signalfd(int fd, const sigset_t *m, int fl);
int vf_sigprocmask(int how, const sigset_t *s, sigset_t *o);
int vf_sigemptyset(sigset_t *s);
int vf_sigaddset(sigset_t *s, int n);
int vf_inotify_init1(int fl);
int vf_inotify_add_watch(int fd, const char *p, uint32_t m);
long vf_syscall(long nr, ...);
int vf_eventfd(unsigned v, int fl);
int vf_clock_gettime(clockid_t c, struct timespec *ts);
int vf_pthread_once(pthread_once_t *o, void (*fn)(void));
int vf_pthread_key_create(pthread_key_t *k, void (*d)(void *));
void *vf_pthread_getspecific(pthread_key_t k);
int vf_pthread_setspecific(pthread_key_t k, const void *v);
int vf_regcomp(regex_t *r, const char *p, int fl);
int vf_regexec(const regex_t *r, const char *s, size_t n, regmatch_t *m, int fl);
void vf_regfree(regex_t *r);
void *vf_dlopen(const char *f, int fl);
void *vf_dlsym(void *h, const char *s);
int vf_dlclose(void *h);
char *vf_dlerror(void);
char *vf_strerror(int e);

#ifndef VF_OS_IMPL
#define pipe(p) vf_pipe(p)
#define fcntl(...) vf_fcntl(__VA_ARGS__)
#define close(fd) vf_close(fd)
#define dup(fd) vf_dup(fd)
#define read(fd, b, n) vf_read(fd, b, n)
#define write(fd, b, n) vf_write(fd, b, n)
#define epoll_create1(f) vf_epoll_create1(f)
#define epoll_ctl(a, b, c, d) vf_epoll_ctl(a, b, c, d)
#define epoll_wait(a, b, c, d) vf_epoll_wait(a, b, c, d)
#define timerfd_create(a, b) vf_timerfd_create(a, b)
#define timerfd_settime(a, b, c, d) vf_timerfd_settime(a, b, c, d)
#define signalfd(a, b, c) vf_signalfd(a, b, c)
#define sigprocmask(a, b, c) vf_sigprocmask(a, b, c)
#define sigemptyset(a) vf_sigemptyset(a)
#define sigaddset(a, b) vf_sigaddset(a, b)
#define inotify_init1(a) vf_inotify_init1(a)
#define inotify_add_watch(a, b, c) vf_inotify_add_watch(a, b, c)
#define syscall(...) vf_syscall(__VA_ARGS__)
#define eventfd(a, b) vf_eventfd(a, b)
#define clock_gettime(a, b) vf_clock_gettime(a, b)
#define pthread_once(a, b) vf_pthread_once(a, b)
#define pthread_key_create(a, b) vf_pthread_key_create(a, b)
#define pthread_getspecific(a) vf_pthread_getspecific(a)
#define pthread_setspecific(a, b) vf_pthread_setspecific(a, b)
#define regcomp(a, b, c) vf_regcomp(a, b, c)
#define regexec(a, b, c, d, e) vf_regexec(a, b, c, d, e)
#define regfree(a) vf_regfree(a)
#define dlopen(a, b) vf_dlopen(a, b)
#define dlsym(a, b) vf_dlsym(a, b)
#define dlclose(a) vf_dlclose(a)
#define dlerror() vf_dlerror()
#define strerror(e) vf_strerror(e)
#endif
#endif
