/* OS model (DESIGN.md 3.3): the environment contract of every whole-core claim.  Deterministic except where a
 * nondet_* value is drawn (timer auto-fire, symbolic clock), so a counterexample replays natively. */
#define VF_OS_IMPL
#include "vf_os.h"
#include "vf.h"
#include <stdarg.h>

struct vf_fd vf_fds[VF_NFD];
int vf_pipe_cap = VF_PIPE_MAX;
int vf_bad_close;
int vf_user_close[VF_NFD];
int vf_cur_thread;
bool vf_timers_autofire;
bool vf_tasks_autorun;
bool vf_epoll_desc;
int vf_epoll_waits;
int vf_epoll_fail_errno;              /* next epoll_wait fails once with this errno (EINTR: interrupted by a signal) */

static int vf_alloc(enum vf_kind k, bool lib) {
    for (int i = 3; i < VF_NFD; i++) {
        if (vf_fds[i].kind == VF_FREE) {
            struct vf_fd *f = &vf_fds[i];
            f->kind = k; f->peer = -1; f->head = 0; f->cnt = 0; f->counter = 0; f->ready = false;
            f->ep_in = false; f->ep_disabled = false; f->lib_owned = lib; f->period_ns = 0;
            return i;
        }
    }
    errno = EMFILE;
    return -1;
}
bool vf_is_open(int fd) { return fd >= 0 && fd < VF_NFD && vf_fds[fd].kind != VF_FREE; }
int vf_user_fd(void) { return vf_alloc(VF_USER, false); }
int vf_find_kind(enum vf_kind k, int nth) {
    for (int i = 3; i < VF_NFD; i++) if (vf_fds[i].kind == k) { if (nth == 0) return i; nth--; }
    return -1;
}
int vf_lib_open(void) { int n = 0; for (int i = 3; i < VF_NFD; i++) if (vf_fds[i].kind != VF_FREE && vf_fds[i].lib_owned) n++; return n; }
void vf_fire_timers(void) { for (int i = 3; i < VF_NFD; i++) if (vf_fds[i].kind == VF_TIMER && vf_fds[i].period_ns) vf_fds[i].counter++; }

int vf_pipe(int p[2]) {
    int r = vf_alloc(VF_PIPE_R, true); if (r < 0) return -1;
    int w = vf_alloc(VF_PIPE_W, true); if (w < 0) { vf_fds[r].kind = VF_FREE; return -1; }
    vf_fds[r].peer = w; vf_fds[w].peer = r; p[0] = r; p[1] = w;
    return 0;
}
int vf_fcntl(int fd, int cmd, ...) { (void)fd; (void)cmd; return 0; }
int vf_close(int fd) {
    if (!vf_is_open(fd)) { vf_bad_close++; errno = EBADF; return -1; }
    struct vf_fd *f = &vf_fds[fd];
    if (!f->lib_owned) vf_user_close[fd]++;
    if (f->peer >= 0 && vf_is_open(f->peer)) vf_fds[f->peer].peer = -1;
    f->kind = VF_FREE; f->ep_in = false;
    return 0;
}
int vf_dup(int fd) {
    if (!vf_is_open(fd)) { errno = EBADF; return -1; }
    return vf_alloc(vf_fds[fd].kind, true);     /* the duplicate belongs to whoever asked for it: the library */
}
ssize_t vf_write(int fd, const void *b, size_t n) {
    if (!vf_is_open(fd)) { errno = EBADF; return -1; }
    struct vf_fd *f = &vf_fds[fd];
    if (f->kind == VF_PIPE_W) {
        if (f->peer < 0) { errno = EPIPE; return -1; }
        struct vf_fd *r = &vf_fds[f->peer];
        if (n != sizeof(void *)) { errno = EINVAL; return -1; }
        if (r->cnt >= vf_pipe_cap) { errno = EAGAIN; return -1; }
        int pos = r->head + r->cnt; if (pos >= VF_PIPE_MAX) pos -= VF_PIPE_MAX;
        r->buf[pos] = *(void *const *)b; r->cnt++;
        return (ssize_t)n;
    }
    if (f->kind == VF_EVENTFD) { if (n != 8) { errno = EINVAL; return -1; } f->counter += *(const uint64_t *)b; return 8; }
    errno = EINVAL; return -1;
}
ssize_t vf_read(int fd, void *b, size_t n) {
    if (!vf_is_open(fd)) { errno = EBADF; return -1; }
    struct vf_fd *f = &vf_fds[fd];
    switch (f->kind) {
    case VF_PIPE_R:
        if (f->cnt == 0) { if (f->peer < 0) return 0; errno = EAGAIN; return -1; }
        if (n != sizeof(void *)) { errno = EINVAL; return -1; }
        *(void **)b = f->buf[f->head]; f->head++; if (f->head >= VF_PIPE_MAX) f->head = 0; f->cnt--;
        return (ssize_t)n;
    case VF_EVENTFD: case VF_TIMER:
        if (f->counter == 0 || n < 8) { errno = EAGAIN; return -1; }
        *(uint64_t *)b = f->counter; f->counter = 0;
        return 8;
    case VF_SIGNAL:
        if (!f->ready || n < sizeof(struct signalfd_siginfo)) { errno = EAGAIN; return -1; }
        f->ready = false; memset(b, 0, sizeof(struct signalfd_siginfo));
        return sizeof(struct signalfd_siginfo);
    case VF_INOTIFY: {
        if (!f->ready || n < sizeof(struct inotify_event) + 16) { errno = EAGAIN; return -1; }
        f->ready = false;
        struct inotify_event *e = (struct inotify_event *)b;
        memset(e, 0, sizeof(*e)); e->wd = 1; e->mask = IN_MODIFY; e->len = 16;
        return sizeof(struct inotify_event) + 16; }
    default:
        errno = EAGAIN; return -1;
    }
}
int vf_epoll_create1(int fl) { (void)fl; return vf_alloc(VF_EPOLL, true); }
int vf_epoll_ctl(int ep, int op, int fd, struct epoll_event *ev) {
    if (!vf_is_open(ep) || !vf_is_open(fd)) { errno = EBADF; return -1; }
    struct vf_fd *f = &vf_fds[fd];
    if (op == EPOLL_CTL_ADD) {
        if (f->ep_in) { errno = EEXIST; return -1; }
        f->ep_in = true; f->ep_disabled = false; f->ev = *ev;
        return 0;
    }
    if (op == EPOLL_CTL_DEL) { if (!f->ep_in) { errno = ENOENT; return -1; } f->ep_in = false; return 0; }
    errno = EINVAL; return -1;
}
static bool vf_ready_now(struct vf_fd *f) {
    switch (f->kind) {
    case VF_PIPE_R: return f->cnt > 0;
    case VF_EVENTFD: return f->counter > 0;
    case VF_TIMER:
        if (vf_timers_autofire && f->period_ns && nondet_bool()) f->counter++;
        return f->counter > 0;
    case VF_USER: case VF_SIGNAL: case VF_INOTIFY: return f->ready;
    case VF_PIDFD: { bool r = f->ready; f->ready = false; return r; }   /* modelling choice: process exit reported once */
    default: return false;
    }
}
int vf_epoll_wait(int ep, struct epoll_event *evs, int max, int timeout) {
    (void)ep;
    vf_epoll_waits++;
    if (vf_epoll_fail_errno) { errno = vf_epoll_fail_errno; vf_epoll_fail_errno = 0; return -1; }
    if (vf_tasks_autorun) vf_run_tasks();
    int n = 0;
    for (int k = 3; k < VF_NFD; k++) {
        int i = vf_epoll_desc ? (VF_NFD + 2 - k) : k;
        struct vf_fd *f = &vf_fds[i];
        if (n >= max) break;
        if (f->kind == VF_FREE || !f->ep_in || f->ep_disabled) continue;
        if (vf_ready_now(f)) {
            evs[n] = f->ev; evs[n].events = EPOLLIN | (f->hup ? EPOLLHUP : 0); n++;
            if (f->ev.events & EPOLLONESHOT) f->ep_disabled = true;
        }
    }
    if (n == 0 && timeout < 0) {
        /* a loop blocked forever is not a behaviour of interest */
        VF_ASSUME(0);
    }
    return n;        /* errno untouched on success, as the kernel does */
}
int vf_timerfd_create(int c, int fl) { (void)c; (void)fl; return vf_alloc(VF_TIMER, true); }
int vf_timerfd_settime(int fd, int fl, const struct itimerspec *n, struct itimerspec *o) {
    (void)fl; (void)o;
    if (!vf_is_open(fd)) { errno = EBADF; return -1; }
    vf_fds[fd].period_ns = (uint64_t)n->it_value.tv_sec * 1000000000ull + (uint64_t)n->it_value.tv_nsec;
    return 0;
}
int vf_signalfd(int fd, const sigset_t *m, int fl) { (void)fd; (void)m; (void)fl; return vf_alloc(VF_SIGNAL, true); }
int vf_sigprocmask(int how, const sigset_t *s, sigset_t *o) { (void)how; (void)s; (void)o; return 0; }
int vf_sigemptyset(sigset_t *s) { (void)s; return 0; }
int vf_sigaddset(sigset_t *s, int n) { (void)s; (void)n; return 0; }
int vf_inotify_init1(int fl) { (void)fl; return vf_alloc(VF_INOTIFY, true); }
int vf_inotify_add_watch(int fd, const char *p, uint32_t m) { (void)fd; (void)p; (void)m; return 1; }
long vf_syscall(long nr, ...) { (void)nr; return vf_alloc(VF_PIDFD, true); }
int vf_eventfd(unsigned v, int fl) { (void)fl; int fd = vf_alloc(VF_EVENTFD, true); if (fd >= 0) vf_fds[fd].counter = v; return fd; }

/* clock: milliseconds per simulated thread; concrete +1 per reading unless VF_CLOCK_SYMBOLIC */
uint64_t vf_now_ms[VF_NTHREADS];
int vf_clock_gettime(clockid_t c, struct timespec *ts) {
    (void)c;
    int t = vf_cur_thread;
#ifdef VF_CLOCK_SYMBOLIC
    uint64_t d = nondet_u64(); VF_ASSUME(d <= VF_CLOCK_SYMBOLIC);
    vf_now_ms[t] += d;
#else
    vf_now_ms[t] += 1;
#endif
    ts->tv_sec = (time_t)(vf_now_ms[t] / 1000); ts->tv_nsec = (long)(vf_now_ms[t] % 1000) * 1000000L;
    return 0;
}
/* thread-local storage per simulated thread: one key (the library creates exactly one) */
/* Keys are distinct per pthread_key_create() call and storage is per (thread, key), so a library that created two
 * keys by mistake loses what was stored under the first.  pthread_key_create() is a scheduling point: the harness hook
 * vf_key_create_hook() may run another simulated thread there (pre-emption inside the library's first-use
 * initialisation).  pthread_once() serialises: a thread that would have to wait for an initialisation in progress cannot
 * proceed in this nested model, that schedule is infeasible (assume false). */
#define VF_NKEYS 3
static void *vf_tls[VF_NTHREADS][VF_NKEYS];
static int vf_once_state;            /* 0 not run, 1 in progress, 2 done */
int vf_nkeys;
bool vf_once_in_progress(void) { return vf_once_state == 1; }
int vf_pthread_once(pthread_once_t *o, void (*fn)(void)) {
    (void)o;
    if (vf_once_state == 1) { VF_ASSUME(0); }
    if (vf_once_state == 0) { vf_once_state = 1; fn(); vf_once_state = 2; }
    return 0;
}
int vf_pthread_key_create(pthread_key_t *k, void (*d)(void *)) {
    (void)d;
    vf_key_create_hook();
    VF_ASSUME(vf_nkeys < VF_NKEYS);
    *k = (pthread_key_t)vf_nkeys++;
    return 0;
}
void *vf_pthread_getspecific(pthread_key_t k) { return k < VF_NKEYS ? vf_tls[vf_cur_thread][k] : NULL; }
int vf_pthread_setspecific(pthread_key_t k, const void *v) { if (k >= VF_NKEYS) return EINVAL; vf_tls[vf_cur_thread][k] = (void *)v; return 0; }
/* regular expressions: every pattern compiles; matching is the relation the harness supplies */
int vf_regcomp(regex_t *r, const char *p, int fl) { (void)r; (void)p; (void)fl; return 0; }
int vf_regexec(const regex_t *r, const char *s, size_t n, regmatch_t *m, int fl) { (void)n; (void)m; (void)fl; return vf_match(r, s); }
void vf_regfree(regex_t *r) { (void)r; }
void *vf_dlopen(const char *f, int fl) { (void)f; (void)fl; return NULL; }
void *vf_dlsym(void *h, const char *s) { (void)h; (void)s; return NULL; }
int vf_dlclose(void *h) { (void)h; return 0; }
char *vf_dlerror(void) { return "dlopen not modelled"; }
char *vf_strerror(int e) { (void)e; return "error"; }

/* task sources: deferred-call model of the thread pool (DESIGN.md 3.3): a submitted task runs synchronously at a
 * later epoll_wait (vf_tasks_autorun) or when the pool is freed; parallel execution is outside the claim */
#include "public/module/thpool/thpool.h"
static struct { m_thpool_task fn; void *arg; bool pending; } vf_tasks[VF_NTASK];
static int vf_pool_token;
int vf_tasks_dropped;
m_thpool_t *m_thpool_new(uint8_t n, m_thpool_flags f) { (void)n; (void)f; return (m_thpool_t *)&vf_pool_token; }
int m_thpool_add(m_thpool_t *p, m_thpool_task t, void *a) {
    if (!p) return -EINVAL;
    for (int i = 0; i < VF_NTASK; i++) if (!vf_tasks[i].pending) { vf_tasks[i].fn = t; vf_tasks[i].arg = a; vf_tasks[i].pending = true; return 0; }
    return -ENOMEM;
}
void vf_run_tasks(void) {
    for (int i = 0; i < VF_NTASK; i++) if (vf_tasks[i].pending) { vf_tasks[i].pending = false; vf_tasks[i].fn(vf_tasks[i].arg); }
}
int m_thpool_free(m_thpool_t **p, bool wait_all) {
    if (!p || !*p) return -EINVAL;
    /* free without wait_all: tasks that had not started are discarded */
    for (int i = 0; i < VF_NTASK; i++) if (vf_tasks[i].pending) { vf_tasks[i].pending = false; if (wait_all) vf_tasks[i].fn(vf_tasks[i].arg); else vf_tasks_dropped++; }
    *p = NULL;
    return 0;
}
