/* PR1: stale ONESHOT message removes a fresh subscription to the same system topic */
#include <module/mod.h>
#include <module/ctx.h>
#include <stdio.h>
#include <string.h>
static m_mod_t *s, *a, *b, *d;
static int started_seen, phase;
static m_src_tmr_t tmr = { CLOCK_MONOTONIC, 100*1000*1000ULL };
static void noop(m_mod_t *self, const m_queue_t *const evts) {}
static void s_evt(m_mod_t *self, const m_queue_t *const evts) {
    m_itr_foreach(evts, {
        m_evt_t *msg = m_itr_get(m_itr);
        if (msg->type == M_SRC_TYPE_PS && msg->ps_evt->topic && !strcmp(msg->ps_evt->topic, M_PS_MOD_STARTED)) {
            started_seen++;
            printf("STARTED from %s\n", m_mod_name(msg->ps_evt->sender));
            if (started_seen == 1) {
                /* oneshot fired: subscribe again, persistent this time */
                int r = m_mod_ps_subscribe(self, M_PS_MOD_STARTED, 0, NULL);
                printf("resubscribe -> %d\n", r);
            }
        } else if (msg->type == M_SRC_TYPE_TMR) {
            if (phase++ == 0) {
                printf("m_mod_start(D) -> %d\n", m_mod_start(d));
            } else m_ctx_quit(0);
        }
    });
}
int main(void) {
    m_ctx_register("p1", M_CTX_PERSIST, NULL);
    m_mod_hook_t sh = { .on_evt = s_evt }, nh = { .on_evt = noop };
    m_mod_register("S", &s, &sh, 0, NULL);
    m_mod_start(s);
    m_mod_ps_subscribe(s, M_PS_MOD_STARTED, M_SRC_ONESHOT, NULL);
    m_mod_src_register_tmr(s, &tmr, 0, NULL);
    m_mod_register("A", &a, &nh, 0, NULL);
    m_mod_register("B", &b, &nh, 0, NULL);
    m_mod_register("D", &d, &nh, 0, NULL);
    m_mod_start(a); m_mod_start(b); /* two notifications queued before S reads any */
    /* D: must not be auto started: give it on_eval false? simply start/stop trick */
    m_mod_start(d); m_mod_stop(d);
    m_ctx_loop();
    printf("started_seen=%d (expected 4)\n", started_seen);
    return started_seen == 4 ? 0 : 1;
}
