/* C09 reproducer through the PUBLIC API: a registration that is refused with -EEXIST still runs the destructor of
 * the source it had built: with M_SRC_FD_AUTOCLOSE it closes the descriptor - the very descriptor the already
 * registered source keeps using (tests/test_mod.c does exactly this sequence and only checks the return value).
 * History: register_fd(fd, AUTOCLOSE) -> 0; register_fd(fd, AUTOCLOSE) -> -EEXIST; fd is now closed.
 * Exit 1 if the descriptor was closed.  Build: see C09_cmp_key.c (same command, this file instead). */
#include <module/mod.h>
#include <module/ctx.h>
#include <stdio.h>
#include <errno.h>
#include <fcntl.h>
#include <unistd.h>

static void no_evt(m_mod_t *mod, const m_queue_t *const evts) { (void)mod; (void)evts; }

int main(void) {
    m_mod_t *mod = NULL;
    if (m_ctx_register("c09", 0, NULL) != 0) { fprintf(stderr, "setup failed\n"); return 2; }
    m_mod_hook_t hook = { NULL, NULL, no_evt, NULL };
    m_mod_register("idle", &mod, &hook, 0, NULL);
    int p[2];
    if (pipe(p)) return 2;
    printf("first registration: %d\n", m_mod_src_register_fd(mod, p[0], M_SRC_FD_AUTOCLOSE, NULL));
    printf("second registration: %d (-EEXIST = %d)\n", m_mod_src_register_fd(mod, p[0], M_SRC_FD_AUTOCLOSE, NULL), -EEXIST);
    int open_ = fcntl(p[0], F_GETFD) != -1 || errno != EBADF;
    printf("descriptor of the registered source is %s\n", open_ ? "still open" : "CLOSED");
    return !open_;
}
