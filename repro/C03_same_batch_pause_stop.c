#include <module/mod.h>
#include <module/ctx.h>
#include <unistd.h>
#include <stdio.h>
#include <stdlib.h>
#include <string.h>

/* Two modules, each with a readable pipe; whoever is served first pauses (argv[1]=="stop": stops) the other one.
 * The other one's fd event sits in the same poll batch. */
static m_mod_t *M[2];
static int p[2][2];
static int bad, do_stop;

static void on_evt(m_mod_t *self, const m_queue_t *const evts) {
    int me = self == M[1];
    m_mod_t *other = M[!me];
    m_itr_foreach(evts, {
        m_evt_t *e = m_itr_get(m_itr);
        if (e->type == M_SRC_TYPE_FD) {
            char c; read(e->fd_evt->fd, &c, 1);
            printf("%s got fd evt in state %#x\n", m_mod_name(self), m_mod_state(self));
            if (!m_mod_is(self, M_MOD_RUNNING)) bad = 1;
            else if (m_mod_is(other, M_MOD_RUNNING)) { int r = do_stop ? m_mod_stop(other) : m_mod_pause(other); printf(" -> %s other: %d\n", do_stop ? "stop" : "pause", r); }
        } else if (e->type == M_SRC_TYPE_TMR) {
            m_ctx_quit(0);
        }
    });
}
int main(int argc, char **argv) {
    alarm(5);
    do_stop = argc > 1;
    pipe(p[0]); pipe(p[1]);
    m_ctx_register("c", 0, NULL);
    m_mod_hook_t h = { .on_evt = on_evt };
    m_mod_register("A", &M[0], &h, 0, NULL);
    m_mod_register("B", &M[1], &h, 0, NULL);
    m_src_tmr_t t = { CLOCK_MONOTONIC, 200000000ull };
    for (int i = 0; i < 2; i++) {
        m_mod_src_register_fd(M[i], p[i][0], 0, NULL);
        m_mod_src_register_tmr(M[i], &t, 0, NULL);
        write(p[i][1], "x", 1);
    }
    int r = m_ctx_loop();
    printf("loop ret %d bad %d\n", r, bad);
    return bad;
}
