/* C11 reproducer: m_bst_remove() / m_bst_itr_remove() of an element whose node has TWO children runs the element
 * destructor on the in-order successor's data (an element that STAYS in the set) and never on the removed element.
 * (bst.c remove_node(): the successor's userptr is copied over the node's, then the successor node - now holding the
 * data that stays - is handed to the destructor path.)
 *
 * Public API only.  Build and run (exit status 1 = defect present, 0 = absent):
 *   gcc -g -O0 -fsanitize=address,undefined -D_GNU_SOURCE -DLIBMODULE_LOG_CTX=OTHER \
 *       -I/repo/Lib/utils -I/repo/Lib/structs -I/repo/Lib/structs/public -I/repo/Lib/mem/public \
 *       /verif/repro/C11_remove_dtor.c /repo/Lib/structs/bst.c /repo/Lib/utils/mem.c -o /tmp/C11_remove_dtor && /tmp/C11_remove_dtor
 * (the logger table that Lib/utils/log.c would provide is defined here so that only bst.c + mem.c are needed) */
#include <stdio.h>
#include <stdlib.h>
#include <stdarg.h>
#include "log.h"
#include <module/structs/bst.h>

static void nolog(const char *caller, int lineno, const char *fmt, ...) { (void)caller; (void)lineno; (void)fmt; }
#define N5 { nolog, nolog, nolog, nolog, nolog }
m_logger libmodule_logger = { N5, N5, N5, N5, 0 };

typedef struct { int key; int destroyed; } el_t;
static int cmp(void *a, void *b) { return ((el_t *)a)->key - ((el_t *)b)->key; }
static void dtor(void *p) { ((el_t *)p)->destroyed++; }

static int scenario(int through_iterator) {
    el_t e20 = { 20, 0 }, e10 = { 10, 0 }, e30 = { 30, 0 };
    int bad = 0;
    m_bst_t *t = m_bst_new(cmp, dtor);
    m_bst_insert(t, &e20);              /* root            */
    m_bst_insert(t, &e10);              /* left child      */
    m_bst_insert(t, &e30);              /* right child: 20 now has two children, its successor is 30 */
    if (!through_iterator) {
        int r = m_bst_remove(t, &e20);
        printf("m_bst_remove(20) = %d\n", r);
    } else {
        m_bst_itr_t *it = m_bst_itr_new(t);     /* at 10 */
        m_bst_itr_next(&it);                    /* at 20 */
        int r = m_bst_itr_remove(it);
        printf("m_bst_itr_remove() at 20 = %d\n", r);
        while (it) m_bst_itr_next(&it);
    }
    printf("  destructor calls: removed element 20: %d (expected 1), element 30 that stays: %d (expected 0), 10: %d (expected 0)\n",
           e20.destroyed, e30.destroyed, e10.destroyed);
    printf("  30 still in the set: %s, len = %zd\n", m_bst_find(t, &e30) == &e30 ? "yes" : "no", m_bst_len(t));
    if (e20.destroyed != 1 || e30.destroyed != 0 || e10.destroyed != 0) bad = 1;
    m_bst_free(&t);
    printf("  after m_bst_free: 20: %d, 30: %d, 10: %d destructor calls (expected 1 each)\n", e20.destroyed, e30.destroyed, e10.destroyed);
    if (e20.destroyed != 1 || e30.destroyed != 1 || e10.destroyed != 1) bad = 1;
    return bad;
}

int main(void) {
    int bad = scenario(0);
    bad |= scenario(1);
    puts(bad ? "DEFECT PRESENT: destructor ran on an element that stays in the set / never on the removed one" : "ok");
    return bad;
}
