/* C01 reproducer (public API, real library): a start callback that stops its own module and then returns false makes
 * the stop callback run TWICE for a single stop (and MOD_STOPPED is announced twice).
 *
 * History: persistent context, module A; m_mod_start(A); on_start() calls m_mod_stop(A) (accepted: A is RUNNING while
 * its start callback executes; on_stop runs, A is STOPPED) and returns false.  mod.c:start() then handles the refusal
 * by calling stop(mod, true) unconditionally - on a module that is already STOPPED: reset_module() and on_stop() run a
 * second time.  Property C01: "the stop callback [runs] exactly once whenever a RUNNING or PAUSED module is stopped".
 * Found by C01.step.reentrant (CBMC) once the harness stopped assuming this combination away.
 *
 * build:  gcc -o C01_start_stopself_refuse C01_start_stopself_refuse.c -I/repo/Lib/core/public -I/repo/Lib/structs/public \
 *             -I/repo/Lib/mem/public -I/repo/Lib/thpool/public -L/repo/_build -lmodule_core -lmodule_structs -lmodule_mem -Wl,-rpath,/repo/_build
 * exit 1 = defect observed, 0 = behaves as specified, 2 = set-up failed. */
#include <module/mod.h>
#include <module/ctx.h>
#include <module/mem/mem.h>
#include <stdio.h>

static int starts, stops, inner_r = 1;
static void on_evt(m_mod_t *m, const m_queue_t *const evts) { (void)m; (void)evts; }
static bool on_start(m_mod_t *m) { starts++; inner_r = m_mod_stop(m); return false; }
static void on_stop(m_mod_t *m) { (void)m; stops++; }

int main(void) {
    m_mod_hook_t hook = { .on_evt = on_evt, .on_start = on_start, .on_stop = on_stop };
    m_mod_t *a = NULL;
    if (m_ctx_register("c01", M_CTX_PERSIST, NULL) != 0) return 2;
    if (m_mod_register("A", &a, &hook, 0, NULL) != 0) return 2;
    int r = m_mod_start(a);
    printf("m_mod_start() = %d, nested m_mod_stop() = %d, state %#x (STOPPED is %#x)\n", r, inner_r, m_mod_state(a), M_MOD_STOPPED);
    printf("start callback ran %d time(s) (expected 1), stop callback ran %d time(s) (expected 1)\n", starts, stops);
    int bad = inner_r != 0 || starts != 1 || stops != 1 || !m_mod_is(a, M_MOD_STOPPED);
    if (bad) printf("DEFECT: one stop, %d stop callbacks\n", stops);
    m_mod_deregister(&a);
    m_ctx_deregister();
    if (!bad) printf("ok\n");
    return bad;
}
