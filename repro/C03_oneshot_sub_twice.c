#include <module/mod.h>
#include <module/ctx.h>
#include <unistd.h>
#include <stdio.h>
#include <stdlib.h>
#include <string.h>

/* One-shot subscription; two messages published on the topic before the subscriber is served. */
static m_mod_t *S, *P;
static int got;

static void s_evt(m_mod_t *self, const m_queue_t *const evts) {
    m_itr_foreach(evts, {
        m_evt_t *e = m_itr_get(m_itr);
        if (e->type == M_SRC_TYPE_PS && !e->ps_evt->system) {
            got++;
            printf("S got '%s' on '%s' (userdata %p), still subscribed: %zd srcs\n", (char *)e->ps_evt->data, e->ps_evt->topic, e->userdata, m_mod_src_len(self, M_SRC_TYPE_PS));
        }
    });
}
static void p_evt(m_mod_t *self, const m_queue_t *const evts) {
    m_itr_foreach(evts, {
        m_evt_t *e = m_itr_get(m_itr);
        if (e->type == M_SRC_TYPE_PS && e->ps_evt->system && !strcmp(e->ps_evt->topic, M_PS_CTX_STARTED)) {
            m_mod_ps_publish(self, "news", "one", 0);
            m_mod_ps_publish(self, "news", "two", 0);
        } else if (e->type == M_SRC_TYPE_TMR) {
            m_ctx_quit(0);
        }
    });
}
int main(int argc, char **argv) {
    alarm(5);
    m_ctx_register("c", 0, NULL);
    m_mod_hook_t hs = { .on_evt = s_evt }, hp = { .on_evt = p_evt };
    m_mod_register("S", &S, &hs, 0, NULL);
    m_mod_register("P", &P, &hp, 0, NULL);
    m_mod_ps_subscribe(S, "news", M_SRC_ONESHOT, (void *)0x1234);
    m_mod_ps_subscribe(P, M_PS_CTX_STARTED, M_SRC_ONESHOT, NULL);
    m_src_tmr_t t = { CLOCK_MONOTONIC, 100000000ull };
    m_mod_src_register_tmr(P, &t, 0, NULL);
    int r = m_ctx_loop();
    printf("loop ret %d got %d\n", r, got);
    return got != 1;
}
