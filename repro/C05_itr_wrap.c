/* C05 reproducer: iterating with removal of the current entry visits an entry twice when a probe cluster wraps
 * around the end of the table (Lib/structs/map.c: m_map_itr_next/m_map_itr_remove and m_map_iterate).
 *
 *   gcc -g -O1 -fsanitize=address,undefined -D_GNU_SOURCE -DLIBMODULE_LOG_CTX=STRUCTS \
 *       -I/repo/Lib/utils -I/repo/Lib/structs -I/repo/Lib/structs/public \
 *       /verif/repro/C05_itr_wrap.c /repo/Lib/structs/map.c /repo/Lib/utils/mem.c -o /tmp/C05_itr_wrap && /tmp/C05_itr_wrap
 *
 * Public API only, real keys, real hash, shipped table size 256.  "k509" and "k582" both hash to the LAST slot (255):
 * the first one put sits in slot 255, the second wraps to slot 0.  A scan from slot 0 yields "k582" first and "k509"
 * last; removing "k509" (the current entry, and only that one) shifts "k582" back from slot 0 into slot 255 - under the cursor - and it
 * is yielded a second time.
 * Exit status: 0 = every entry visited exactly once by both iteration forms, 1 = some entry visited twice/never. */
#include <stdio.h>
#include <string.h>
#include <module/structs/map.h>

#include "log.h"
static void nolog(const char *c, int l, const char *f, ...) { (void)c; (void)l; (void)f; }
#define N5 { nolog, nolog, nolog, nolog, nolog }
m_logger libmodule_logger = { N5, N5, N5, N5, 0 };

static const char *K[3] = { "k509", "k582", "k47" };     /* homes 255, 255, 0 */
static int visits[3];
static int idx(const char *key) { for (int i = 0; i < 3; i++) if (!strcmp(key, K[i])) return i; return -1; }

static m_map_t *fill(void) {
    static int val = 1;
    m_map_t *m = m_map_new(0, NULL);
    for (int i = 0; m && i < 3; i++) if (m_map_put(m, K[i], &val) != 0) return NULL;
    memset(visits, 0, sizeof(visits));
    return m;
}

static int report(const char *how) {
    int bad = 0;
    for (int i = 0; i < 3; i++) {
        if (visits[i] != 1) { printf("%s: entry \"%s\" visited %d times\n", how, K[i], visits[i]); bad = 1; }
    }
    if (!bad) printf("%s: every entry visited exactly once\n", how);
    return bad;
}

static int cb(void *userptr, const char *key, void *value) {
    (void)value;
    int i = idx(key);
    if (i >= 0) visits[i]++;
    if (i == 0) m_map_remove((m_map_t *)userptr, key);      /* removing the CURRENT entry is explicitly supported */
    return 0;
}

int main(void) {
    int bad = 0;
    m_map_t *m = fill();
    if (!m) return 2;
    int guard = 0;
    for (m_map_itr_t *it = m_map_itr_new(m); it && guard < 10; m_map_itr_next(&it), guard++) {
        int i = idx(m_map_itr_get_key(it));
        if (i >= 0) visits[i]++;
        if (i == 0) m_map_itr_remove(it);       /* remove the entry sitting in the last slot while standing on it */
    }
    bad |= report("iterator + m_map_itr_remove");
    m_map_free(&m);

    m = fill();
    if (!m) return 2;
    m_map_iterate(m, cb, m);
    bad |= report("m_map_iterate + m_map_remove(current)");
    m_map_free(&m);
    return bad;
}
