/* C09 reproducer through the PUBLIC API: the comparators of src.c return a DIFFERENCE converted to int.
 *   1  timer periods 2^32 ns (about 4.29 s) apart compare equal: with a 1 s timer registered, deregistering the
 *      period 1 s + 2^32 ns (never registered) succeeds and removes the 1 s timer
 *   2  thresholds are compared by the SUM activity_freq + inactive_ms truncated to int: with the threshold
 *      "inactive for 5000 ms" registered, deregistering "more than 5000 events/s" (a different pair, never
 *      registered) removes it; so does "inactive for 5000 ms or more than 0.5 events/s"
 * (Lookups by key are affected on their own; registrations are additionally hit by C09_cmp_key.)
 * Exit 1 if a misbehaviour shows.  Build: see C09_cmp_key.c (same command, this file instead). */
#include <module/mod.h>
#include <module/ctx.h>
#include <stdio.h>
#include <errno.h>
#include <time.h>

static int bad;
#define EXPECT(cond, what) do { int ok_ = (cond); printf("%-4s %s\n", ok_ ? "ok" : "BAD", what); if (!ok_) bad = 1; } while (0)
static void no_evt(m_mod_t *mod, const m_queue_t *const evts) { (void)mod; (void)evts; }

int main(void) {
    m_mod_t *mod = NULL;
    if (m_ctx_register("c09", 0, NULL) != 0) { fprintf(stderr, "setup failed\n"); return 2; }
    m_mod_hook_t hook = { NULL, NULL, no_evt, NULL };
    m_mod_register("idle", &mod, &hook, 0, NULL);

    m_src_tmr_t t1 = { CLOCK_MONOTONIC, 1000000000ull }, far = { CLOCK_MONOTONIC, 1000000000ull + (1ull << 32) };
    EXPECT(m_mod_src_register_tmr(mod, &t1, 0, NULL) == 0, "timer 1 s registered");
    EXPECT(m_mod_src_deregister_tmr(mod, &far) != 0, "deregistering timer 1 s + 2^32 ns (absent) fails");
    EXPECT(m_mod_src_len(mod, M_SRC_TYPE_END) == 1, "the 1 s timer is still there");
    m_mod_src_deregister_tmr(mod, &t1);

    m_src_thresh_t idle = { 5000, 0.0 }, busy = { 0, 5000.0 }, both = { 5000, 0.5 };
    EXPECT(m_mod_src_register_thresh(mod, &idle, 0, NULL) == 0, "threshold (inactive 5000 ms) registered");
    EXPECT(m_mod_src_deregister_thresh(mod, &busy) != 0, "deregistering threshold (5000 events/s) (absent) fails");
    EXPECT(m_mod_src_len(mod, M_SRC_TYPE_END) == 1, "the inactivity threshold is still there");
    m_mod_src_deregister_thresh(mod, &idle);
    EXPECT(m_mod_src_register_thresh(mod, &idle, 0, NULL) == 0, "threshold (inactive 5000 ms) registered");
    EXPECT(m_mod_src_deregister_thresh(mod, &both) != 0, "deregistering threshold (5000 ms, 0.5 events/s) (absent) fails");
    EXPECT(m_mod_src_len(mod, M_SRC_TYPE_END) == 1, "the inactivity threshold is still there");
    return bad;
}
