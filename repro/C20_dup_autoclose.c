/* C20 reproducer (public API, real library, real kernel) for known finding C20_dup_autoclose:
 * m_mod_src_register_fd(mod, fd, M_SRC_DUP | M_SRC_FD_AUTOCLOSE, ...) - the library replaces the descriptor by its own
 * duplicate (src.c:create_src) and auto-closes that duplicate; the descriptor the user supplied and flagged for
 * auto-close is never closed by the library, neither when the source is deregistered nor when the module stops.
 * mod.h documents M_SRC_FD_AUTOCLOSE as "Automatically close fd upon deregistation" and M_SRC_DUP as "Duplicate ...
 * source fd"; nothing says which of the two descriptors the combination closes.  The property text (C20) has a
 * user-supplied descriptor registered with the auto-close flag closed exactly once.
 * Control: the same without DUP (closed), and DUP alone (original left open, duplicate closed).
 *
 * build:  gcc -o C20_dup_autoclose C20_dup_autoclose.c -I/repo/Lib/core/public -I/repo/Lib/structs/public \
 *             -I/repo/Lib/mem/public -I/repo/Lib/thpool/public -L/repo/_build -lmodule_core -lmodule_structs -Wl,-rpath,/repo/_build
 * exit 1 = finding present (original still open after DUP|AUTOCLOSE), 0 = original closed, 2 = set-up problem. */
#include <module/mod.h>
#include <module/ctx.h>
#include <dirent.h>
#include <fcntl.h>
#include <stdio.h>
#include <unistd.h>

static int count_fds(void) {
    int n = 0; DIR *d = opendir("/proc/self/fd"); struct dirent *e;
    if (!d) return -1;
    while ((e = readdir(d))) if (e->d_name[0] != '.') n++;
    closedir(d);
    return n - 1;
}
static void on_evt(m_mod_t *mod, const m_queue_t *const evts) { (void)mod; (void)evts; }

/* returns 1 if the user's descriptor is still open after the module stopped and everything was torn down */
static int run(m_src_flags fl, const char *what, int *leaked) {
    int p[2];
    if (pipe(p) != 0) return -1;
    int before = count_fds();                       /* includes both pipe ends */
    m_mod_hook_t hook = { .on_evt = on_evt };
    m_mod_t *mod = NULL;
    if (m_ctx_register("c20", 0, NULL) != 0 || m_mod_register("m", &mod, &hook, 0, NULL) != 0 || m_mod_start(mod) != 0) return -1;
    if (m_mod_src_register_fd(mod, p[0], fl, NULL) != 0) return -1;
    m_mod_stop(mod);
    m_mod_deregister(&mod);                         /* idle, non-persistent context goes with its last module */
    if (m_ctx_name() != NULL) return -1;
    int open_now = fcntl(p[0], F_GETFD) != -1;
    int after = count_fds();
    printf("%-28s user descriptor %s; open descriptors before %d, after %d\n", what, open_now ? "still open" : "closed", before, after);
    *leaked = after - (before - (open_now ? 0 : 1));    /* anything beyond the user's own descriptors */
    if (open_now) close(p[0]);
    close(p[1]);
    return open_now;
}

int main(void) {
    int l1, l2, l3;
    int ac = run(M_SRC_FD_AUTOCLOSE, "AUTOCLOSE:", &l1);
    int dup = run(M_SRC_DUP, "DUP:", &l2);
    int both = run(M_SRC_DUP | M_SRC_FD_AUTOCLOSE, "DUP|AUTOCLOSE:", &l3);
    if (ac < 0 || dup < 0 || both < 0) return 2;
    if (ac != 0 || dup != 1 || l1 || l2 || l3) { printf("UNEXPECTED: control cases misbehave (leaked %d %d %d)\n", l1, l2, l3); return 2; }
    if (both) { printf("FINDING: with DUP|AUTOCLOSE the descriptor registered with the auto-close flag is never closed by the library\n"); return 1; }
    printf("OK: with DUP|AUTOCLOSE the user's descriptor was closed\n");
    return 0;
}
