/* C20 reproducer (public API, real library, real kernel): the internal descriptor of a source (timerfd, signalfd,
 * inotify, pidfd, eventfd) is closed - and the source taken off the poll set - only by the source's destructor, and
 * only if the owning module is RUNNING at that moment (src.c:src_priv_dtor).  An event holds a reference on its source,
 * so whenever an event is still alive when the source leaves the registry, the destructor runs later, with the module
 * no longer RUNNING (or already freed): the descriptor is never closed and stays in the epoll set with a dangling
 * data pointer.
 *
 * Case 1  a timer's handler calls m_mod_stop() on its own module (the event being handled is alive).
 * Case 2  the same with a one-shot timer.
 * Case 3  a timer event is stashed (m_mod_stash), then the module is stopped from outside (the stash is cleared by
 *         stop() after the state changed).
 * Case 4  the handler keeps a one-shot timer's event with m_mem_ref() (docs/core/core.md), the module is stopped, the
 *         event is released afterwards.
 * Case 5  like 1 with a signal source (signalfd).
 * Each case: fresh context, count the open descriptors of the process before and after (module deregistered, context
 * gone, every reference dropped).
 *
 * build:  gcc -o C20_src_outlives_registry C20_src_outlives_registry.c -I/repo/Lib/core/public -I/repo/Lib/structs/public \
 *             -I/repo/Lib/mem/public -I/repo/Lib/thpool/public -L/repo/_build -lmodule_core -lmodule_structs -lmodule_mem \
 *             -Wl,-rpath,/repo/_build
 * exit 1 = defect observed (descriptors leaked), 0 = none leaked. */
#include <module/mod.h>
#include <module/ctx.h>
#include <module/structs/itr.h>
#include <module/mem/mem.h>
#include <dirent.h>
#include <signal.h>
#include <stdio.h>
#include <string.h>
#include <unistd.h>

static int count_fds(void) {
    int n = 0;
    DIR *d = opendir("/proc/self/fd");
    struct dirent *e;
    if (!d) return -1;
    while ((e = readdir(d))) if (e->d_name[0] != '.') n++;
    closedir(d);
    return n - 1;               /* the directory stream itself */
}

static int mode;
static m_evt_t *kept;
static int handled;

static void on_evt(m_mod_t *mod, const m_queue_t *const evts) {
    m_itr_foreach(evts, {
        m_evt_t *e = m_itr_get(m_itr);
        if (e->type != M_SRC_TYPE_TMR && e->type != M_SRC_TYPE_SGN) continue;
        if (handled++) continue;
        switch (mode) {
        case 1: case 2: case 5:
            m_mod_stop(mod);                    /* stop ourselves from inside the handler */
            break;
        case 3:
            m_mod_stash(mod, e);                /* keep it for later */
            break;
        case 4:
            kept = m_mem_ref(e);                /* keep it for later */
            break;
        }
    });
}

static int run_case(int m, const char *what) {
    mode = m; handled = 0; kept = NULL;
    int before = count_fds();
    m_mod_hook_t hook = { .on_evt = on_evt };
    m_mod_t *mod = NULL;
    if (m_ctx_register("c20", 0, NULL) != 0) return -1;
    if (m_mod_register("m", &mod, &hook, 0, NULL) != 0) return -1;
    if (m_mod_start(mod) != 0) return -1;
    if (m == 5) {
        m_src_sgn_t s = { SIGUSR1 };
        if (m_mod_src_register_sgn(mod, &s, 0, NULL) != 0) return -1;
        kill(getpid(), SIGUSR1);
    } else {
        m_src_tmr_t t = { CLOCK_MONOTONIC, 2000000 };   /* 2 ms */
        if (m_mod_src_register_tmr(mod, &t, (m == 2 || m == 4) ? M_SRC_ONESHOT : 0, NULL) != 0) return -1;
    }
    m_ctx_dispatch();                                   /* starts the loop */
    for (int i = 0; i < 100 && !handled; i++) { usleep(2000); m_ctx_dispatch(); }
    if (!handled) { printf("case %d: source never fired\n", m); return -1; }
    if (m == 3 || m == 4) m_mod_stop(mod);              /* cases 1, 2, 5 stopped themselves */
    if (kept) { m_mem_unref(kept); kept = NULL; }       /* case 4: the user's reference on the event goes away */
    m_mod_deregister(&mod);
    m_ctx_dispatch();                                   /* no module left: loop stops, context is released */
    if (m_ctx_name() != NULL) { printf("case %d: context still there\n", m); return -1; }
    int after = count_fds();
    printf("case %d (%s): open descriptors before %d, after %d%s\n", m, what, before, after,
           after > before ? "   <-- leaked" : "");
    return after - before;
}

int main(void) {
    static const char *what[] = { "", "timer handler stops its module", "one-shot timer handler stops its module",
                                  "timer event stashed, module stopped", "one-shot timer event kept with m_mem_ref, module stopped, event released",
                                  "signal handler stops its module" };
    int leaked = 0;
    for (int m = 1; m <= 5; m++) {
        int d = run_case(m, what[m]);
        if (d < 0) return 2;
        leaked += d;
    }
    if (leaked) { printf("DEFECT: %d descriptor(s) opened by the library were never closed\n", leaked); return 1; }
    printf("OK: every descriptor opened by the library was closed\n");
    return 0;
}
