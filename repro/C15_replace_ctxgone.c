/* C15 reproducer (public API, real library, real kernel): replacing the only module of a non-persistent, idle context
 * destroys the context in the middle of the registration.
 *
 * History: m_ctx_register(name, 0 flags); m_mod_register("a", &old, M_MOD_ALLOW_REPLACE); the loop is not running;
 * m_mod_register("a", &nw, ...) again.  mod.c:m_mod_register() deregisters the old module through mod_deregister(),
 * which finds the context idle, empty and not persistent and calls m_ctx_deregister(): the thread's context is
 * released while m_mod_register() goes on to put the new module into it.  Expected (property C15): the old module is
 * deregistered first, then the new one is registered and is a module of the context like any other.
 * Observed: m_mod_register returns 0, but the thread has no context any more: m_ctx_len() = -EPIPE, every call on the
 * new module fails with -EPERM (m_mod_start), the context cannot even be deregistered.  If the user had dropped the
 * handle of the old module (variant "noref" below) the context block is already freed when the new module is attached:
 * heap use after free in m_mod_register (run under valgrind / ASan: invalid read in m_mem_ref).
 *
 * build:  gcc -o C15_replace_ctxgone C15_replace_ctxgone.c -I/repo/Lib/core/public -I/repo/Lib/structs/public \
 *             -I/repo/Lib/mem/public -I/repo/Lib/thpool/public -L/repo/_build -lmodule_core -lmodule_structs \
 *             -lmodule_mem -Wl,-rpath,/repo/_build
 * usage:  ./C15_replace_ctxgone [noref]
 * exit 1 = defect observed, 0 = behaves as specified. */
#include <module/mod.h>
#include <module/ctx.h>
#include <module/mem/mem.h>
#include <stdio.h>
#include <string.h>

static void on_evt(m_mod_t *mod, const m_queue_t *const evts) { (void)mod; (void)evts; }

int main(int argc, char **argv) {
    int noref = argc > 1 && strcmp(argv[1], "noref") == 0;
    m_mod_hook_t hook = { .on_evt = on_evt };
    m_mod_t *old = NULL, *nw = NULL;
    if (m_ctx_register("c15", 0, NULL) != 0) return 2;
    if (m_mod_register("a", &old, &hook, M_MOD_ALLOW_REPLACE, NULL) != 0) return 2;
    printf("before: m_ctx_len() = %zd\n", m_ctx_len());
    if (noref) m_mem_unref(old);                               /* the user does not keep the handle */

    char same_name[] = "a";
    int r = m_mod_register(same_name, &nw, &hook, 0, NULL);    /* noref: use after free inside */
    ssize_t len = m_ctx_len();
    int rs = nw ? m_mod_start(nw) : -1;
    printf("m_mod_register(\"a\") over a replaceable one = %d (expected 0)\n", r);
    printf("after:  m_ctx_len() = %zd (expected 1)%s\n", len, len != 1 ? "   <-- the thread's context is gone" : "");
    printf("m_mod_start(new) = %d (expected 0)\n", rs);
    int bad = r != 0 || len != 1 || rs != 0 || !m_mod_is(nw, M_MOD_RUNNING);
    printf(bad ? "DEFECT: the context was released while the replacing module was being registered\n" : "ok\n");
    return bad ? 1 : 0;
}
