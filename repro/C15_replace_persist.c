/* C15 reproducer (public API, real library, real kernel): a module that allows replacement cannot be replaced while
 * its context loops if it is also persistent.
 *
 * History: context looping (dispatch mode); module "a" registered with M_MOD_ALLOW_REPLACE | M_MOD_PERSIST and RUNNING;
 * m_mod_register("a", ...) again.  Expected (property C15 / docs of the flags: ALLOW_REPLACE = "can be replaced by
 * another module with same name", PERSIST = "cannot be deregistered by direct call to m_mod_deregister (or by FS
 * delete) while its context is looping"): the old module is deregistered first and the new one registered.
 * Observed: mod.c:mod_deregister() applies the persist test to the library's own replacement too (it ignores
 * from_user): m_mod_register returns -EPERM, the old module keeps running.  With the loop idle the same call works.
 *
 * build:  gcc -o C15_replace_persist C15_replace_persist.c -I/repo/Lib/core/public -I/repo/Lib/structs/public \
 *             -I/repo/Lib/mem/public -I/repo/Lib/thpool/public -L/repo/_build -lmodule_core -lmodule_structs \
 *             -lmodule_mem -Wl,-rpath,/repo/_build
 * exit 1 = defect observed, 0 = behaves as specified. */
#include <module/mod.h>
#include <module/ctx.h>
#include <module/mem/mem.h>
#include <stdio.h>
#include <errno.h>

static int stops;
static void on_evt(m_mod_t *mod, const m_queue_t *const evts) { (void)mod; (void)evts; }
static void on_stop(m_mod_t *mod) { (void)mod; stops++; }

int main(void) {
    m_mod_hook_t hook = { .on_evt = on_evt, .on_stop = on_stop };
    m_mod_t *keep = NULL, *old = NULL, *nw = NULL;
    if (m_ctx_register("c15", M_CTX_PERSIST, NULL) != 0) return 2;
    if (m_mod_register("keepalive", &keep, &hook, 0, NULL) != 0) return 2;
    if (m_mod_register("a", &old, &hook, M_MOD_ALLOW_REPLACE | M_MOD_PERSIST, NULL) != 0) return 2;
    if (m_ctx_dispatch() != 0) return 2;                       /* loop starts, both modules RUNNING */
    if (!m_mod_is(old, M_MOD_RUNNING)) return 2;

    /* a direct deregistration is (rightly) refused while looping */
    m_mod_t *ref = old;
    int rd = m_mod_deregister(&ref);
    printf("m_mod_deregister(persistent, looping)      = %d (expected < 0)\n", rd);

    char same_name[] = "a";
    int r = m_mod_register(same_name, &nw, &hook, 0, NULL);
    printf("m_mod_register(\"a\") over a replaceable one  = %d (expected 0)%s\n", r, r != 0 ? "   <-- replacement refused" : "");
    printf("old module: %s, on_stop ran %d time(s); new module handle %p\n",
           m_mod_is(old, M_MOD_ZOMBIE) ? "ZOMBIE" : m_mod_is(old, M_MOD_RUNNING) ? "still RUNNING" : "other", stops, (void *)nw);
    int bad = rd >= 0 || r != 0 || !m_mod_is(old, M_MOD_ZOMBIE) || nw == NULL || m_mod_lookup(keep, "a") != nw;
    printf(bad ? "DEFECT: the replaceable module was not replaced\n" : "ok\n");
    return bad ? 1 : 0;
}
