/* C05 reproducer: back-shift deletion in clear_elem() (Lib/structs/map.c) loses live entries.
 *
 *   gcc -g -O1 -fsanitize=address,undefined -D_GNU_SOURCE -DLIBMODULE_LOG_CTX=STRUCTS \
 *       -I/repo/Lib/utils -I/repo/Lib/structs -I/repo/Lib/structs/public \
 *       /verif/repro/C05_backshift.c /repo/Lib/structs/map.c /repo/Lib/utils/mem.c -o /tmp/C05_backshift && /tmp/C05_backshift
 *
 * Public API only, real string keys, real hash, shipped table size (256, never grows here: <= 130 entries).
 * The keys were searched so that their real hash (mod 256) gives the home slots named below.
 * Exit status: 0 = every remaining key is still found after one m_map_remove, 1 = live entries were lost.
 *
 * Scenario 1 (shift predicate): 129 keys with the consecutive home slots 40..168, each sitting at its home.
 *   Removing the first one makes clear_elem() walk 128 slots; for the last entry (home 168 = removed slot + 128 =
 *   table_size/2) MAP_INDEX_LE() wraps and says "home <= removed slot", so the entry is moved 128 slots BEFORE its
 *   home, where no lookup ever finds it.
 * Scenario 2 (loop bound): slot 40: A (home 40), 41: B (home 41), 42: C (home 40), 43..169: 127 keys with home 42.
 *   Removing A shifts C and then the home-42 keys back by one, but the loop stops after table_size/2 = 128 slots:
 *   the key in slot 169 stays behind the freshly emptied slot 168 and can no longer be reached from its home. */
#include <stdio.h>
#include <module/structs/map.h>

/* no logger library linked: silent logger */
#include "log.h"
static void nolog(const char *c, int l, const char *f, ...) { (void)c; (void)l; (void)f; }
#define N5 { nolog, nolog, nolog, nolog, nolog }
m_logger libmodule_logger = { N5, N5, N5, N5, 0 };

static const char *S1[129] = {
    "k2","k322","k113","k473","k57","k339","k433","k137","k139","k763","k156","k284","k324","k54","k58","k609",
    "k35","k105","k922","k871","k508","k205","k1001","k125","k437","k399","k814","k9","k503","k150","k231","k242",
    "k382","k371","k101","k257","k64","k193","k452","k261","k710","k13","k96","k87","k143","k73","k52","k243",
    "k14","k151","k409","k10","k742","k55","k196","k117","k51","k199","k867","k547","k245","k436","k543","k103",
    "k59","k42","k178","k309","k366","k39","k46","k50","k72","k32","k153","k230","k20","k391","k28","k107","k336",
    "k75","k138","k240","k819","k411","k23","k78","k172","k155","k112","k223","k491","k229","k33","k49","k18",
    "k186","k252","k30","k22","k532","k3","k189","k260","k484","k25","k821","k82","k127","k557","k43","k220",
    "k66","k780","k291","k86","k211","k456","k141","k332","k507","k80","k813","k140","k501","k165","k61","k124"
};
static const char *S2[130] = {
    "k2","k322","k752","k113","k377","k1339","k2411","k2498","k2944","k3843","k3979","k4093","k4440","k4541",
    "k4671","k4724","k4897","k5702","k6139","k6280","k6439","k6755","k6835","k7256","k7822","k7843","k8000",
    "k8099","k8222","k8547","k8641","k8885","k8966","k9074","k9486","k9661","k9690","k9936","k10169","k10352",
    "k10695","k10968","k11066","k11133","k11636","k11727","k11820","k12015","k12276","k12663","k12754","k12760",
    "k12898","k13171","k13419","k13750","k13796","k14082","k14275","k14311","k14730","k14805","k14877","k15274",
    "k15397","k15410","k15422","k15999","k16382","k17188","k17844","k18626","k18780","k18885","k19456","k19647",
    "k19867","k20590","k21044","k21380","k21449","k21582","k21784","k22054","k22205","k22897","k22907","k23174",
    "k23612","k23981","k24046","k24235","k24296","k24926","k24959","k25399","k25457","k25672","k25934","k25964",
    "k26155","k26360","k26844","k26992","k27288","k27302","k27453","k27641","k27912","k28058","k28204","k28327",
    "k28388","k28524","k28950","k28961","k29020","k29485","k29853","k29980","k30184","k30358","k30562","k31751",
    "k32059","k32346","k32542","k32813","k32898","k33408"
};

static int scenario(const char *name, const char **keys, int n) {
    static int val = 1;
    m_map_t *m = m_map_new(0, NULL);
    if (!m) return 2;
    for (int i = 0; i < n; i++) if (m_map_put(m, keys[i], &val) != 0) { printf("%s: put %d failed\n", name, i); return 2; }
    for (int i = 0; i < n; i++) if (!m_map_contains(m, keys[i])) { printf("%s: key %s missing before the removal?\n", name, keys[i]); return 2; }
    if (m_map_remove(m, keys[0]) != 0) { printf("%s: remove failed\n", name); return 2; }
    int lost = 0;
    for (int i = 1; i < n; i++) if (!m_map_contains(m, keys[i])) { printf("%s: live key %d (\"%s\") is not found any more after removing \"%s\"\n", name, i, keys[i], keys[0]); lost++; }
    printf("%s: len=%zd (expected %d), lost=%d\n", name, m_map_len(m), n - 1, lost);
    m_map_free(&m);
    return lost ? 1 : 0;
}

int main(void) {
    int a = scenario("scenario 1 (entry at distance table_size/2)", S1, 129);
    int b = scenario("scenario 2 (chain longer than table_size/2 after the removed slot)", S2, 130);
    return (a || b) ? 1 : 0;
}
