/* C18 reproducer through the PUBLIC API, real kernel: the refill timer of the token bucket lives in the key space (the
 * period) of the module's own timers.  History: the module registers a 1 ms timer, then gets a bucket whose refill
 * period is also 1 ms (rate 1000/s), then the bucket is switched off (rate 0).
 *   unpatched registry : the switch-off removes the USER's timer (m_mod_src_len drops from 2 to 1, its events stop) and
 *                        leaves the internal refill timer behind;
 *   registry keyed as C09 states it : the configuration fails with EEXIST after it has already put the limit in force,
 *                        and no refill timer exists - the bucket never refills.
 * A second user timer (50 ms) keeps the loop alive and ends the run after 0.5 s.  Exit 1 if the user's 1 ms timer was
 * lost or the configuration was refused half-way.
 * Build: see C18_reconf.c (same command, this file instead). */
#include <module/mod.h>
#include <module/ctx.h>
#include <stdio.h>
#include <time.h>

static m_src_tmr_t fast = { CLOCK_MONOTONIC, 1000000 };      /* 1 ms, the period of rate 1000/s */
static m_src_tmr_t slow = { CLOCK_MONOTONIC, 50000000 };     /* 50 ms */
static int step, fast_after, slow_after, r_cfg, r_off;
static ssize_t len_before, len_after;

static bool on_start(m_mod_t *mod) {
    m_mod_src_register_tmr(mod, &fast, 0, "fast");
    m_mod_src_register_tmr(mod, &slow, 0, "slow");
    return true;
}

static void on_evt(m_mod_t *mod, const m_queue_t *const evts) {
    if (step == 0) {
        step = 1;
        len_before = m_mod_src_len(mod, M_SRC_TYPE_TMR);
        r_cfg = m_mod_set_tokenbucket(mod, 1000, 5);
        r_off = m_mod_set_tokenbucket(mod, 0, 0);
        len_after = m_mod_src_len(mod, M_SRC_TYPE_TMR);
        return;
    }
    m_itr_foreach(evts, {
        m_evt_t *e = m_itr_get(m_itr);
        if (e->type == M_SRC_TYPE_TMR) {
            if (e->tmr_evt->ns == fast.ns) fast_after++;
            else if (e->tmr_evt->ns == slow.ns) slow_after++;
        }
    });
    if (slow_after >= 10) m_ctx_quit(0);
}

int main(void) {
    m_mod_t *mod = NULL;
    m_mod_hook_t hook = { .on_start = on_start, .on_evt = on_evt };
    if (m_ctx_register("c18", 0, NULL) != 0 || m_mod_register("m", &mod, &hook, 0, NULL) != 0) return 2;
    m_ctx_loop();
    printf("set_tokenbucket(1000, 5) = %d, set_tokenbucket(0, 0) = %d\n", r_cfg, r_off);
    printf("user sources before: %zd, after: %zd; events of the user's 1 ms timer in the following 0.5 s: %d\n",
           len_before, len_after, fast_after);
    if (r_cfg != 0 || len_after != len_before || fast_after == 0) {
        printf("VIOLATION: configuring / switching off the token bucket %s\n",
               r_cfg != 0 ? "was refused half-way (limit in force, no refill timer)" : "removed the user's own timer");
        return 1;
    }
    printf("user timer untouched\n");
    return 0;
}
