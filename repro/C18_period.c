/* C18 reproducer: the refill period of the token bucket is rounded DOWN (10^9 / rate), so the bucket refills more than
 * `rate` times per second whenever rate does not divide 10^9.  The excess cannot be watched in wall-clock time (one
 * extra token per 10^9/3 s for rate 3; rate 7*10^8 gives a 1 ns timer that no loop can follow), so this program
 * configures the bucket through the public API and then reads the period the library registered from the module
 * (private header mod.h) - the kernel timer gets exactly that period (poll/cmn_linux.c:create_timerfd).
 * Exit 1 if period_ns * rate < 10^9 for one of the rates.
 * Build: as C18_reconf.c, plus -DLIBMODULE_LOG_CTX=OTHER and this file instead. */
#include "mod.h"                  /* Lib/core/mod.h: struct _mod */
#include <module/ctx.h>
#include <stdio.h>

int main(void) {
    static const uint32_t rates[] = { 1, 2, 3, 7, 1000, 999999937, 700000000, 1000000000 };
    m_mod_t *mod = NULL;
    int bad = 0;
    m_mod_hook_t hook = { .on_evt = (m_evt_cb)main /* never called: the loop is not run */ };
    if (m_ctx_register("c18", 0, NULL) != 0 || m_mod_register("m", &mod, &hook, 0, NULL) != 0) return 2;
    for (unsigned i = 0; i < sizeof(rates) / sizeof(*rates); i++) {
        int r = m_mod_set_tokenbucket(mod, rates[i], 10);
        uint64_t ns = mod->tb.timer.ns;
        double per_s = 1e9 / (double)ns;
        int over = ns * (uint64_t)rates[i] < 1000000000ull;
        printf("rate %10u/s: ret %d, refill period %10lu ns = %.9g refills/s%s\n", rates[i], r, (unsigned long)ns, per_s,
               over ? "   <-- more than the configured rate" : "");
        bad |= over;
    }
    if (bad) { printf("VIOLATION: refill timer faster than the configured rate\n"); return 1; }
    printf("every period keeps the refill rate at or below the configured one\n");
    return 0;
}
