/* C05 reproducer: with M_MAP_KEY_DUP, m_map_put() on a key that is already present leaks the freshly duplicated key
 * (Lib/structs/map.c: m_map_put duplicates first, hashmap_put neither stores nor releases the copy) - both when the
 * value is updated (M_MAP_VAL_ALLOW_UPDATE) and when the put is refused.
 *
 *   gcc -g -O1 -fsanitize=address,undefined -D_GNU_SOURCE -DLIBMODULE_LOG_CTX=STRUCTS \
 *       -I/repo/Lib/utils -I/repo/Lib/structs -I/repo/Lib/structs/public \
 *       /verif/repro/C05_dupkey_leak.c /repo/Lib/structs/map.c /repo/Lib/utils/mem.c -o /tmp/C05_dupkey_leak && /tmp/C05_dupkey_leak
 *
 * Public API only.  The leak is observed with LeakSanitizer (linked in by -fsanitize=address) through
 * __lsan_do_recoverable_leak_check() after the maps have been freed.
 * Exit status: 0 = nothing leaked after m_map_free, 1 = duplicated keys leaked. */
#include <stdio.h>
#include <sanitizer/lsan_interface.h>
#include <module/structs/map.h>

#include "log.h"
static void nolog(const char *c, int l, const char *f, ...) { (void)c; (void)l; (void)f; }
#define N5 { nolog, nolog, nolog, nolog, nolog }
m_logger libmodule_logger = { N5, N5, N5, N5, 0 };

static int run(m_map_flags flags, const char *what) {
    static int v1 = 1, v2 = 2;
    m_map_t *m = m_map_new(flags, NULL);
    if (!m) return 2;
    int r1 = m_map_put(m, "key", &v1);
    int r2 = m_map_put(m, "key", &v2);          /* existing key: update or refusal */
    printf("%s: first put %d, second put %d, len %zd\n", what, r1, r2, m_map_len(m));
    m_map_free(&m);
    return 0;
}

int main(void) {
    run(M_MAP_KEY_DUP | M_MAP_VAL_ALLOW_UPDATE, "update allowed");
    run(M_MAP_KEY_DUP, "update refused");
    if (__lsan_do_recoverable_leak_check()) {
        printf("LEAK: key duplicated by m_map_put for an existing key was never released\n");
        return 1;
    }
    printf("no leak\n");
    return 0;
}
