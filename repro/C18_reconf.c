/* C18 reproducer through the PUBLIC API, real kernel (timerfd/epoll): a re-configured token bucket refills at the sum of
 * the old and the new rate because the old refill timer survives.
 *
 *   mode "control" : m_mod_set_tokenbucket(mod, 1, 1)                                          -> bound holds
 *   mode "eagain"  : m_mod_set_tokenbucket(mod, 400, 1); m_mod_set_tokenbucket(mod, 1, 1)
 *                    (the first call's own timer registration took the only token, so the second call's
 *                     m_mod_src_deregister_tmr() of the old timer fails with EAGAIN; its result is ignored)
 *
 * A 1 ms timerfd of the program (registered as descriptor source before the bucket exists) drives the handler; on every event the handler tries one
 * rate-limited call (m_mod_set_batch_size).  With rate 1/s and burst 1 at most 1 + 1*t calls may succeed in t seconds.
 * The program runs 2 s and exits 1 if more than 1 + 2 + 1 (slack) calls succeeded.
 *
 * Build (from the directory of this file, against the sources in /repo):
 *   R=/repo; INC=""; for d in core core/public core/fs core/poll utils structs structs/public mem mem/public thpool thpool/public; do INC="$INC -I$R/Lib/$d"; done
 *   gcc -D_GNU_SOURCE -DNDEBUG -DLIBMODULE_LOG_CTX=OTHER $INC C18_reconf.c $R/Lib/core/*.c $R/Lib/core/fs/fs_noop.c \
 *       $R/Lib/core/poll/epoll.c $R/Lib/core/poll/cmn_linux.c $R/Lib/structs/*.c $R/Lib/mem/mem.c $R/Lib/utils/*.c \
 *       $R/Lib/thpool/thpool.c -lpthread -ldl -o C18_reconf
 *   (or link against the built libmodule_core)                       ./C18_reconf eagain ; ./C18_reconf control */
#include <module/mod.h>
#include <module/ctx.h>
#include <stdio.h>
#include <string.h>
#include <time.h>
#include <errno.h>
#include <unistd.h>
#include <stdint.h>
#include <sys/timerfd.h>

static const char *mode = "eagain";
static int ok_calls, refused, attempts, configured;
static struct timespec t0;

static double since(void) {
    struct timespec t;
    clock_gettime(CLOCK_MONOTONIC, &t);
    return (t.tv_sec - t0.tv_sec) + (t.tv_nsec - t0.tv_nsec) / 1e9;
}

static int drive_fd = -1;

/* the handler is driven by a 1 ms timerfd of the program's own, registered as a plain descriptor source: the module's
 * timer registry then holds nothing but the refill timer(s) (the registry has defects of its own as soon as two timers
 * are in it - property C09 - which would blur what is shown here) */
static bool on_start(m_mod_t *mod) {
    if (drive_fd == -1) {
        struct itimerspec its = { { 0, 1000000 }, { 0, 1000000 } };
        drive_fd = timerfd_create(CLOCK_MONOTONIC, TFD_NONBLOCK);
        timerfd_settime(drive_fd, 0, &its, NULL);
    }
    m_mod_src_register_fd(mod, drive_fd, 0, NULL);
    return true;
}

static void configure(m_mod_t *mod) {
    int r;
    if (!strcmp(mode, "control")) {
        r = m_mod_set_tokenbucket(mod, 1, 1);
        printf("set_tokenbucket(1, 1) = %d\n", r);
    } else {
        r = m_mod_set_tokenbucket(mod, 400, 1);
        printf("set_tokenbucket(400, 1) = %d\n", r);
        r = m_mod_set_tokenbucket(mod, 1, 1);
        printf("set_tokenbucket(1, 1) = %d\n", r);
    }
    clock_gettime(CLOCK_MONOTONIC, &t0);
}

static void on_evt(m_mod_t *mod, const m_queue_t *const evts) {
    uint64_t expirations;
    if (read(drive_fd, &expirations, sizeof(expirations)) < 0 && errno != EAGAIN) perror("read");
    if (!configured) {
        configured = 1;
        configure(mod);
        return;
    }
    attempts++;
    int r = m_mod_set_batch_size(mod, 0);
    if (r == 0) ok_calls++;
    else if (r == -EAGAIN) refused++;
    if (since() >= 2.0) m_ctx_quit(0);
}

int main(int argc, char *argv[]) {
    if (argc > 1) mode = argv[1];
    m_mod_t *mod = NULL;
    m_mod_hook_t hook = { .on_start = on_start, .on_evt = on_evt };
    if (m_ctx_register("c18", 0, NULL) != 0 || m_mod_register("limited", &mod, &hook, 0, NULL) != 0) {
        fprintf(stderr, "setup failed\n");
        return 2;
    }
    m_ctx_loop();
    double t = since();
    int bound = 1 + (int)(1 * t) + 1;
    printf("mode=%s: %d attempts in %.2f s, %d succeeded, %d refused with EAGAIN; allowed by burst 1 + rate 1/s: %d\n",
           mode, attempts, t, ok_calls, refused, bound);
    if (ok_calls > bound) {
        printf("VIOLATION: the module made %d rate-limited calls where the bucket allows %d\n", ok_calls, bound);
        return 1;
    }
    printf("bound holds\n");
    return 0;
}
