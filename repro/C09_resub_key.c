/* C09 reproducer through the PUBLIC API: a repeated subscription with OTHER flags replaces the stored subscription,
 * but the subscriptions map keeps the key pointer of the old one - the old subscription's topic, which is freed with
 * it when it was made with M_SRC_DUP.  Every later lookup compares against freed memory.
 * History: subscribe("news", M_SRC_DUP); subscribe("news", M_SRC_DUP | M_SRC_PRIO_HIGH); unsubscribe("news").
 * Build with -fsanitize=address (command of C09_cmp_key.c plus that flag): AddressSanitizer reports
 * heap-use-after-free in hashmap_entry_find()/strcmp.  Without a sanitizer the outcome is whatever the freed bytes hold. */
#include <module/mod.h>
#include <module/ctx.h>
#include <stdio.h>
#include <string.h>

static void no_evt(m_mod_t *mod, const m_queue_t *const evts) { (void)mod; (void)evts; }

int main(void) {
    m_mod_t *mod = NULL;
    if (m_ctx_register("c09", 0, NULL) != 0) { fprintf(stderr, "setup failed\n"); return 2; }
    m_mod_hook_t hook = { NULL, NULL, no_evt, NULL };
    m_mod_register("idle", &mod, &hook, 0, NULL);
    char topic[16];
    strcpy(topic, "news");
    printf("subscribe DUP: %d\n", m_mod_ps_subscribe(mod, topic, M_SRC_DUP, NULL));
    printf("subscribe DUP|HIGH: %d\n", m_mod_ps_subscribe(mod, topic, M_SRC_DUP | M_SRC_PRIO_HIGH, NULL));
    printf("subscriptions: %zd (expected 1)\n", m_mod_src_len(mod, M_SRC_TYPE_END));
    int r = m_mod_ps_unsubscribe(mod, topic);
    printf("unsubscribe: %d (expected 0)\n", r);
    return r != 0;
}
