/* C07 reproducer (public API, real library, real kernel): context calls made before the first m_ctx_register() of the
 * process read thread-specific data through a key that was never created.
 *
 * ctx.c keeps `static pthread_key_t key` and creates it (pthread_once) only inside m_ctx_register(); m_ctx() - used by
 * every context call and by every module operation - calls pthread_getspecific(key) unconditionally.  Until some
 * thread has registered a context, `key` is the zero-initialised value 0: undefined by POSIX, and with glibc it is
 * simply "key 0", i.e. whatever component of the process created the first key.  Here the application itself owns
 * key 0 and stores a pointer to its own (zero-filled) data there; the thread has no context, so every context call
 * must fail with -EPIPE and touch nothing.  Observed: the application's block is taken for a context:
 * m_ctx_finalize() returns 0 and sets a byte inside the application's data, m_ctx_len() answers -EINVAL.
 *
 * build:  gcc -o C07_nokey C07_nokey.c -I/repo/Lib/core/public -I/repo/Lib/structs/public -I/repo/Lib/mem/public \
 *             -I/repo/Lib/thpool/public -L/repo/_build -lmodule_core -lmodule_structs -Wl,-rpath,/repo/_build -lpthread
 * exit 1 = defect observed, 0 = behaves as specified, 2 = the application did not get key 0 (nothing to show). */
#include <module/mod.h>
#include <module/ctx.h>
#include <pthread.h>
#include <stdio.h>
#include <errno.h>

int main(void) {
    static char appdata[4096];
    pthread_key_t k;
    if (pthread_key_create(&k, NULL) != 0) return 2;
    printf("the application's own key = %u\n", (unsigned)k);
    if (k != 0) { printf("another component already owns key 0: not reproducible this way\n"); return 2; }
    pthread_setspecific(k, appdata);

    ssize_t len = m_ctx_len();
    int fin = m_ctx_finalize();
    int dirty = 0; for (unsigned i = 0; i < sizeof(appdata); i++) if (appdata[i]) dirty++;
    printf("m_ctx_len()      = %zd (expected %d: the thread has no context)\n", len, -EPIPE);
    printf("m_ctx_finalize() = %d (expected %d)\n", fin, -EPIPE);
    printf("bytes of the application's thread-specific data modified by the library: %d (expected 0)\n", dirty);
    if (len != -EPIPE || fin >= 0 || dirty) {
        printf("DEFECT: a context call on a thread without context used foreign thread-specific data as a context\n");
        return 1;
    }
    printf("ok\n");
    return 0;
}
