/* C07 reproducer (public API, real library, real kernel): m_ctx_deregister() on an idle context that still contains
 * modules returns 0 but deregisters none of them.
 *
 * History: m_ctx_register("c07", M_CTX_PERSIST); two modules, A started (RUNNING), B left IDLE; the user keeps the
 * references m_mod_register() handed out; m_ctx_deregister().
 * ctx.c:m_ctx_deregister() clears the thread-specific context pointer BEFORE it walks the modules; every
 * mod_deregister() then fails its "module belongs to the calling thread's context" test (M_MOD_ASSERT: mod->ctx ==
 * m_ctx(), and m_ctx() is NULL by now) with -EPERM, which also aborts the walk.  Result: the call returns 0, the
 * thread has no context any more, but A is still RUNNING and B still IDLE, no stop callback ran, both are still
 * entries of the context's module map and hold references on it - context and modules are unreachable and never
 * released, and the modules can no longer be deregistered by anybody (-EPERM / -EPIPE from now on).
 * Expected (docs/core/ctx.md: "all of the modules in the context will be deregistered when their context gets
 * deregistered"): A stopped through on_stop, both ZOMBIE.
 *
 * build:  gcc -o C07_teardown C07_teardown.c -I/repo/Lib/core/public -I/repo/Lib/structs/public -I/repo/Lib/mem/public \
 *             -I/repo/Lib/thpool/public -L/repo/_build -lmodule_core -lmodule_structs -lmodule_mem -Wl,-rpath,/repo/_build
 * exit 1 = defect observed, 0 = behaves as specified, 2 = set-up failed. */
#include <module/mod.h>
#include <module/ctx.h>
#include <module/mem/mem.h>
#include <stdio.h>
#include <errno.h>

static int stops[2];
static m_mod_t *mods[2];
static void on_evt(m_mod_t *m, const m_queue_t *const evts) { (void)m; (void)evts; }
static void on_stop(m_mod_t *m) { stops[m == mods[1]]++; }

int main(void) {
    m_mod_hook_t hook = { .on_evt = on_evt, .on_stop = on_stop };
    if (m_ctx_register("c07", M_CTX_PERSIST, NULL) != 0) return 2;
    if (m_mod_register("A", &mods[0], &hook, 0, NULL) != 0) return 2;
    if (m_mod_register("B", &mods[1], &hook, 0, NULL) != 0) return 2;
    if (m_mod_start(mods[0]) != 0 || !m_mod_is(mods[0], M_MOD_RUNNING)) return 2;

    int r = m_ctx_deregister();
    printf("m_ctx_deregister() = %d (expected 0)\n", r);
    printf("A: state %#x (expected ZOMBIE %#x), stop callback ran %d time(s) (expected 1)\n", m_mod_state(mods[0]), M_MOD_ZOMBIE, stops[0]);
    printf("B: state %#x (expected ZOMBIE %#x)\n", m_mod_state(mods[1]), M_MOD_ZOMBIE);
    printf("m_ctx_len() = %zd (expected %d: the context is gone)\n", m_ctx_len(), -EPIPE);
    int bad = r != 0 || !m_mod_is(mods[0], M_MOD_ZOMBIE) || !m_mod_is(mods[1], M_MOD_ZOMBIE) || stops[0] != 1 || m_ctx_len() != -EPIPE;
    if (bad) {
        m_mod_t *ref = mods[0];
        int dr = m_mod_deregister(&ref);
        printf("m_mod_deregister(A) afterwards = %d%s\n", dr, dr < 0 ? "   <-- the module cannot be deregistered any more: leaked together with its context" : "");
        printf("DEFECT: the context was \"deregistered\" but its modules were left registered, running and unreachable\n");
        return 1;
    }
    m_mem_unref(mods[0]); m_mem_unref(mods[1]);
    printf("ok\n");
    return 0;
}
