/* C11 reproducer: the default comparator of the ordered set (m_bst_new(NULL, ...)) returns the 64-bit pointer
 * difference truncated to int.  Two distinct pointers a multiple of 2^32 bytes apart compare EQUAL (the second is
 * rejected as a duplicate / one finds the other), and for differences in [2^31, 2^32) the sign is inverted (in-order
 * traversal is not ascending by address).
 *
 * Public API only; the pointers are taken inside one 6 GiB PROT_NONE mapping (reserved, never touched), they are
 * only compared.  Build and run (exit status 1 = defect present, 0 = absent):
 *   gcc -g -O0 -fsanitize=address,undefined -D_GNU_SOURCE -DLIBMODULE_LOG_CTX=OTHER \
 *       -I/repo/Lib/utils -I/repo/Lib/structs -I/repo/Lib/structs/public -I/repo/Lib/mem/public \
 *       /verif/repro/C11_ptrcmp.c /repo/Lib/structs/bst.c /repo/Lib/utils/mem.c -o /tmp/C11_ptrcmp && /tmp/C11_ptrcmp */
#include <stdio.h>
#include <stdlib.h>
#include <stdint.h>
#include <stdarg.h>
#include <sys/mman.h>
#include "log.h"
#include <module/structs/bst.h>

static void nolog(const char *caller, int lineno, const char *fmt, ...) { (void)caller; (void)lineno; (void)fmt; }
#define N5 { nolog, nolog, nolog, nolog, nolog }
m_logger libmodule_logger = { N5, N5, N5, N5, 0 };

static void *seen[4];
static int nseen;
static int collect(void *up, void *data) { (void)up; if (nseen < 4) seen[nseen] = data; nseen++; return 0; }

int main(void) {
    int bad = 0;
    char *base = mmap(NULL, 6ull << 30, PROT_NONE, MAP_PRIVATE | MAP_ANONYMOUS | MAP_NORESERVE, -1, 0);
    if (base == MAP_FAILED) { perror("mmap"); return 2; }
    void *a = base, *b = base + (1ull << 32), *c = base + (3ull << 30);     /* b - a = 2^32, c - a = 3 * 2^30 in [2^31, 2^32) */

    m_bst_t *t = m_bst_new(NULL, NULL);
    int r1 = m_bst_insert(t, a), r2 = m_bst_insert(t, b);
    printf("a = %p, b = a + 2^32 = %p\n", a, b);
    printf("insert(a) = %d, insert(b) = %d (expected 0, 0), len = %zd (expected 2)\n", r1, r2, m_bst_len(t));
    printf("find(b) = %p (expected %p)\n", m_bst_find(t, b), b);
    if (r1 != 0 || r2 != 0 || m_bst_len(t) != 2 || m_bst_find(t, b) != b) bad = 1;
    m_bst_free(&t);

    t = m_bst_new(NULL, NULL);
    m_bst_insert(t, a); m_bst_insert(t, c);
    nseen = 0; m_bst_traverse(t, M_BST_IN, collect, NULL);
    printf("a = %p, c = a + 3*2^30 = %p: in-order traversal = %p, %p (expected a then c)\n", a, c, seen[0], nseen > 1 ? seen[1] : NULL);
    if (nseen != 2 || seen[0] != a || seen[1] != c) bad = 1;
    m_bst_free(&t);

    puts(bad ? "DEFECT PRESENT: default comparator truncates the pointer difference to int" : "ok");
    return bad;
}
