/* C09 reproducer through the PUBLIC API, real kernel: the per-kind comparators of src.c read their first argument as
 * the bare key struct, but m_bst_insert() (registration) and the one-shot removal in recv_events() hand them the
 * ev_src_t itself, whose first bytes are the private descriptor (-1 until polled).  Consequences shown here on an
 * IDLE module (nothing is polled, no event needed):
 *   1  the same timer registered twice: second call returns 0 instead of -EEXIST, m_mod_src_len() says 2
 *   2  two timers 1 s and 2 s registered in that order: deregistering the 2 s one fails (-ENOENT) although present
 *   3  same for signals: SIGUSR1 registered twice -> 0; SIGINT then SIGTERM registered, deregistering SIGTERM fails
 *   4  a second path source in one module makes pathcmp() call strcmp() on (char *)0x00000000ffffffff: SIGSEGV
 *      (run with argument "path"; not run by default)
 * and on a RUNNING module inside a loop:
 *   5  a task source (implicitly one-shot) that has fired stays in the registry: m_mod_src_len() is still 1 afterwards
 *      (run with argument "task")
 * Exit status 1 if any of the misbehaviours shows, 0 on a repaired tree.
 * Build (from the directory of this file, against the sources in /repo):
 *   R=/repo; INC=""; for d in core core/public core/fs core/poll utils structs structs/public mem mem/public thpool thpool/public; do INC="$INC -I$R/Lib/$d"; done
 *   gcc -D_GNU_SOURCE -DNDEBUG -DLIBMODULE_LOG_CTX=OTHER $INC C09_cmp_key.c $R/Lib/core/*.c $R/Lib/core/fs/fs_noop.c \
 *       $R/Lib/core/poll/epoll.c $R/Lib/core/poll/cmn_linux.c $R/Lib/structs/*.c $R/Lib/mem/mem.c $R/Lib/utils/*.c \
 *       $R/Lib/thpool/thpool.c -lpthread -ldl -o C09_cmp_key
 *   ./C09_cmp_key ; ./C09_cmp_key task ; ./C09_cmp_key path */
#include <module/mod.h>
#include <module/ctx.h>
#include <stdio.h>
#include <string.h>
#include <signal.h>
#include <errno.h>
#include <time.h>

static int bad;
#define EXPECT(cond, what) do { int ok_ = (cond); printf("%-4s %s\n", ok_ ? "ok" : "BAD", what); if (!ok_) bad = 1; } while (0)

static ssize_t len_after_task = -1;
static int task_fn(void *p) { (void)p; return 7; }
static bool task_start(m_mod_t *mod) {
    static m_src_task_t t = { 5, task_fn };
    static m_src_tmr_t tick = { CLOCK_MONOTONIC, 200000000 };       /* 0.2 s: ends the run */
    m_mod_src_register_task(mod, &t, 0, NULL);
    m_mod_src_register_tmr(mod, &tick, 0, NULL);
    return true;
}
static void task_evt(m_mod_t *mod, const m_queue_t *const evts) {
    m_itr_foreach(evts, {
        m_evt_t *e = m_itr_get(m_itr);
        if (e->type == M_SRC_TYPE_TMR) {
            /* the task fired long ago (it returns at once): only the timer should still be registered */
            len_after_task = m_mod_src_len(mod, M_SRC_TYPE_END);
            m_ctx_quit(0);
        }
    });
}
static void no_evt(m_mod_t *mod, const m_queue_t *const evts) { (void)mod; (void)evts; }

int main(int argc, char *argv[]) {
    m_mod_t *mod = NULL;
    if (m_ctx_register("c09", 0, NULL) != 0) { fprintf(stderr, "setup failed\n"); return 2; }
    if (argc > 1 && !strcmp(argv[1], "task")) {
        m_mod_hook_t hook = { task_start, NULL, task_evt, NULL };
        m_mod_register("tasker", &mod, &hook, 0, NULL);
        m_ctx_loop();
        printf("sources registered after the task has fired and the 0.2 s timer ticked: %zd (timer only = 1)\n", len_after_task);
        EXPECT(len_after_task == 1, "a fired task source left the registry");
        return bad;
    }
    m_mod_hook_t hook = { NULL, NULL, no_evt, NULL };
    m_mod_register("idle", &mod, &hook, 0, NULL);
    if (argc > 1 && !strcmp(argv[1], "path")) {
        m_src_path_t a = { "/tmp", 1 }, b = { "/var", 1 };
        printf("registering /tmp: %d\n", m_mod_src_register_path(mod, &a, 0, NULL));
        printf("registering /var (crashes on the unrepaired tree) ...\n"); fflush(stdout);
        printf("registering /var: %d\n", m_mod_src_register_path(mod, &b, 0, NULL));
        EXPECT(m_mod_src_register_path(mod, &b, 0, NULL) == -EEXIST, "same path again is refused");
        return bad;
    }
    m_src_tmr_t t1 = { CLOCK_MONOTONIC, 1000000000ull }, t2 = { CLOCK_MONOTONIC, 2000000000ull };
    EXPECT(m_mod_src_register_tmr(mod, &t1, 0, NULL) == 0, "timer 1 s registered");
    EXPECT(m_mod_src_register_tmr(mod, &t1, 0, NULL) == -EEXIST, "timer 1 s registered again -> -EEXIST");
    EXPECT(m_mod_src_len(mod, M_SRC_TYPE_END) == 1, "one source reported");
    while (m_mod_src_deregister_tmr(mod, &t1) == 0) ;              /* clean up whatever is there */
    EXPECT(m_mod_src_register_tmr(mod, &t1, 0, NULL) == 0, "timer 1 s");
    EXPECT(m_mod_src_register_tmr(mod, &t2, 0, NULL) == 0, "timer 2 s");
    EXPECT(m_mod_src_deregister_tmr(mod, &t2) == 0, "timer 2 s (present) deregistered");
    EXPECT(m_mod_src_deregister_tmr(mod, &t1) == 0, "timer 1 s (present) deregistered");

    m_src_sgn_t u1 = { SIGUSR1 }, si = { SIGINT }, st = { SIGTERM };
    EXPECT(m_mod_src_register_sgn(mod, &u1, 0, NULL) == 0, "SIGUSR1 registered");
    EXPECT(m_mod_src_register_sgn(mod, &u1, 0, NULL) == -EEXIST, "SIGUSR1 registered again -> -EEXIST");
    EXPECT(m_mod_src_register_sgn(mod, &si, 0, NULL) == 0, "SIGINT registered");
    EXPECT(m_mod_src_register_sgn(mod, &st, 0, NULL) == 0, "SIGTERM registered");
    EXPECT(m_mod_src_deregister_sgn(mod, &st) == 0, "SIGTERM (present) deregistered");
    return bad;
}
