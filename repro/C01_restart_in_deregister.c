/* C01 reproducer (public API, real library): a stop callback that restarts its own module while the module is being
 * deregistered leaves the context counting a ZOMBIE as running, and the start callback it triggered is never paired
 * with a stop callback.
 *
 * History: persistent context, modules A and B, both started, B with a 1 ms timer; m_mod_deregister(&A); m_ctx_loop()
 * (B's handler reads m_ctx_stats() - only available while looping - and quits).  mod_deregister() removes A from
 * the context, calls stop() (A: STOPPED, on_stop runs); on_stop() calls m_mod_start(A) - accepted, STOPPED -> RUNNING is
 * a legal edge and nothing marks A as being deregistered: running_modules++, sources re-armed, on_start runs.  Back in
 * mod_deregister() the state is overwritten with ZOMBIE.  m_ctx_stats().running_modules reports 2 with B the only RUNNING
 * module (C01: "the number of running modules reported by the context always equals the number of modules in
 * RUNNING state"; C03: a loop on this context would never end on its own).
 * Found by C01.step.restartinstop (CBMC); recorded as known finding C01_restart_in_deregister.
 *
 * build:  gcc -o C01_restart_in_deregister C01_restart_in_deregister.c -I/repo/Lib/core/public -I/repo/Lib/structs/public \
 *             -I/repo/Lib/mem/public -I/repo/Lib/thpool/public -L/repo/_build -lmodule_core -lmodule_structs -lmodule_mem -Wl,-rpath,/repo/_build
 * exit 1 = defect observed, 0 = behaves as specified, 2 = set-up failed. */
#include <module/mod.h>
#include <module/ctx.h>
#include <module/mem/mem.h>
#include <stdio.h>
#include <time.h>

static int starts, stops, restart_r = 1;
static m_ctx_stats_t st; static int have_st;
static void on_evt(m_mod_t *m, const m_queue_t *const evts) { (void)m; (void)evts; }
static void on_evt_b(m_mod_t *m, const m_queue_t *const evts) { (void)m; (void)evts; if (m_ctx_stats(&st) == 0) have_st = 1; m_ctx_quit(0); }
static bool on_start(m_mod_t *m) { (void)m; starts++; return true; }
static void on_stop(m_mod_t *m) { if (++stops == 1) restart_r = m_mod_start(m); }

int main(void) {
    m_mod_hook_t hook = { .on_evt = on_evt, .on_start = on_start, .on_stop = on_stop };
    m_mod_hook_t plain = { .on_evt = on_evt_b };
    m_mod_t *a = NULL, *b = NULL;
    if (m_ctx_register("c01", M_CTX_PERSIST, NULL) != 0) return 2;
    if (m_mod_register("A", &a, &hook, 0, NULL) != 0 || m_mod_register("B", &b, &plain, 0, NULL) != 0) return 2;
    if (m_mod_start(a) != 0 || m_mod_start(b) != 0) return 2;
    m_src_tmr_t tm = { .clock_id = CLOCK_MONOTONIC, .ns = 1000000 };
    if (m_mod_src_register_tmr(b, &tm, 0, NULL) != 0) return 2;
    m_mod_t *keep = m_mem_ref(a);
    int r = m_mod_deregister(&a);
    m_ctx_loop();
    if (!have_st) return 2;
    printf("m_mod_deregister() = %d, restart from on_stop = %d, state %#x (ZOMBIE is %#x)\n", r, restart_r, m_mod_state(keep), M_MOD_ZOMBIE);
    printf("start callbacks %d, stop callbacks %d (expected: every start followed by a stop, i.e. stops == starts)\n", starts, stops);
    printf("running modules reported: %zu (expected 1: A is a zombie, B is running)\n", (size_t)st.running_modules);
    int bad = r != 0 || !m_mod_is(keep, M_MOD_ZOMBIE) || st.running_modules != 1 || stops != starts;
    if (bad) printf("DEFECT: a zombie is counted as running / start callback without stop callback\n");
    m_mem_unref(keep);
    m_mod_deregister(&b);
    m_ctx_deregister();
    if (!bad) printf("ok\n");
    return bad;
}
