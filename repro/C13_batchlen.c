/* C13 reproducer (public API, real library, real kernel): mod->batch.len is both the configured batch size and the
 * "only timed batching" marker (SIZE_MAX) written by m_mod_set_batch_timeout(), so the effective behaviour depends on
 * the ORDER of the setter calls instead of on the configured settings:
 *
 *  A: m_mod_set_batch_timeout(T) then m_mod_set_batch_timeout(0): neither a size nor a timeout is configured any
 *     more, but batch.len stays SIZE_MAX: normal-priority events are never delivered again (expected: at once).
 *  B: m_mod_set_batch_timeout(T) then m_mod_set_batch_size(0) ("no size batching"): batch.len = 0, every normal event
 *     is delivered at once although a timeout is configured, whereas the same settings made in the other order
 *     (module C: size(0) then timeout(T)) wait for the timer, as evts.c intends ("only timed batching will be effective").
 *
 * build:  gcc -o C13_batchlen C13_batchlen.c -I/repo/Lib/core/public -I/repo/Lib/structs/public -I/repo/Lib/mem/public \
 *             -I/repo/Lib/thpool/public -L/repo/_build -lmodule_core -lmodule_structs -Wl,-rpath,/repo/_build
 * exit 1 = defect observed, 0 = behaves as specified. */
#include <module/mod.h>
#include <module/ctx.h>
#include <module/structs/itr.h>
#include <stdio.h>
#include <string.h>
#include <unistd.h>

#define T_NS 400000000ULL   /* 400 ms */
static int calls[3];
static void on_evt(m_mod_t *mod, const m_queue_t *const evts) { calls[*(const int *)m_mod_userdata(mod)]++; }
static void spin(int ms) { for (int i = 0; i < ms / 10; i++) { usleep(10000); m_ctx_dispatch(); } }

int main(void) {
    static const int id[3] = { 0, 1, 2 };
    static const char *names[3] = { "A", "B", "C" };
    m_mod_hook_t hook = { .on_evt = on_evt };
    m_mod_t *m[3] = { NULL, NULL, NULL };
    if (m_ctx_register("c13", M_CTX_PERSIST, NULL) != 0) return 2;
    for (int i = 0; i < 3; i++) if (m_mod_register(names[i], &m[i], &hook, 0, &id[i]) != 0) return 2;
    m_ctx_dispatch();                                   /* starts the loop and the modules */
    for (int i = 0; i < 3; i++) {
        if (!m_mod_is(m[i], M_MOD_RUNNING)) return 2;
        if (m_mod_ps_subscribe(m[i], "topic", 0 /* normal priority */, NULL) != 0) return 2;
    }
    int r = 0;
    r |= m_mod_set_batch_timeout(m[0], T_NS); r |= m_mod_set_batch_timeout(m[0], 0);      /* A: nothing configured */
    r |= m_mod_set_batch_timeout(m[1], T_NS); r |= m_mod_set_batch_size(m[1], 0);         /* B: timeout only */
    r |= m_mod_set_batch_size(m[2], 0);       r |= m_mod_set_batch_timeout(m[2], T_NS);   /* C: timeout only */
    if (r != 0) return 2;

    m_mod_ps_publish(m[0], "topic", "x", 0);            /* one normal-priority event for each module */
    spin(100);                                          /* well before the 400 ms timeout */
    printf("100 ms after the arrival (timeout 400 ms):\n");
    printf("  A timeout(T);timeout(0)   calls = %d (expected 1: nothing configured -> delivered at once)\n", calls[0]);
    printf("  B timeout(T);size(0)      calls = %d (expected 0: only the timeout is configured)\n", calls[1]);
    printf("  C size(0);timeout(T)      calls = %d (expected 0: only the timeout is configured)\n", calls[2]);
    int a0 = calls[0], b0 = calls[1], c0 = calls[2];
    spin(600);                                          /* the batch timeout expires */
    printf("after the timeout expired:\n  A calls = %d (expected 1)\n  B calls = %d (expected 1)\n  C calls = %d (expected 1)\n",
           calls[0], calls[1], calls[2]);
    int bad = 0;
    if (a0 != 1) { printf("DEFECT A: timeout disabled again, yet the normal event is %s\n", calls[0] ? "late" : "never delivered"); bad = 1; }
    if (b0 != c0) { printf("DEFECT B: same configured settings, different behaviour depending on the call order\n"); bad = 1; }
    if (b0 != 0 || c0 != 0) { printf("DEFECT B: delivered before the configured timeout without a batch size\n"); bad = 1; }
    if (calls[1] != 1 || calls[2] != 1) { printf("UNEXPECTED: timed batching did not deliver exactly once\n"); bad = 1; }
    for (int i = 0; i < 3; i++) m_mod_deregister(&m[i]);
    m_ctx_deregister();
    if (!bad) printf("OK\n");
    return bad;
}
