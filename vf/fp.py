"""Function-pointer restriction rules shared by the core (L1/L2) specs.  A rule is (regex on the text of the called
expression as goto-instrument prints it, [allowed targets]).  CBMC keeps an assertion 'pointer must be one of the
targets' at every restricted site, so a wrong rule fails the check instead of hiding behaviour."""
from vf.runner import fl

# destructors the library itself passes to m_mem_new()
EVT_DTOR = fl("evt_dtor", "evts.c")
MODULE_DTOR = fl("module_dtor", "mod.c")
CTX_DTOR = fl("ctx_dtor", "ctx.c")
PS_MSG_DTOR = fl("ps_msg_dtor", "ps.c")
SUB_DTOR = fl("subscribtions_dtor", "ps.c")
SRC_DTOR = fl("src_priv_dtor", "src.c")
PS_DATA_DTOR = fl("ps_data_dtor", "ps.c")
ALL_MEM_DTORS = [EVT_DTOR, MODULE_DTOR, CTX_DTOR, PS_MSG_DTOR, SUB_DTOR, SRC_DTOR, PS_DATA_DTOR]
SRC_CMPS = [fl(n, "src.c") for n in ("fdcmp", "tmrcmp", "sgncmp", "pathcmp", "pidcmp", "taskcmp", "threshcmp")]
SRC_PROCS = [fl(n, "src.c") for n in ("process_ps", "process_fd", "process_tmr", "process_sgn", "process_path",
                                      "process_pid", "process_task", "process_thresh")]


def core_fp(mem_dtors=(), on_evt=(), on_start=(), on_stop=(), on_eval=(), container_dtors=("mem_dtor",),
            comps=(), iter_cbs=(), process=(), extra=(), map_iter=()):
    rules = list(extra)
    if mem_dtors:
        rules.append((r"header\.dtor$", list(mem_dtors)))
    if container_dtors:
        # the modules' source registries (bst) have their own element destructor since the C20 fix
        rules.append((r"remove_node::l(\$link\d+)?\.dtor$", list(container_dtors) + [fl("mod_src_dtor", "src.c")]))
        rules.append((r"(::q|::s|::l|::m|\$link\d+|\.q\)|\.s\)|\.l\))\.dtor$", list(container_dtors)))
    if on_evt:
        rules.append((r"^call_pubsub_cb::.*cb$", list(on_evt)))
    if on_start:
        rules.append((r"hook\.on_start$", list(on_start)))
    if on_stop:
        rules.append((r"hook\.on_stop$", list(on_stop)))
    if on_eval:
        rules.append((r"hook\.on_eval$", list(on_eval)))
    if comps:
        rules.append((r"\.comp$", list(comps)))
    if map_iter:
        rules.append((r"^m_map_iterate::fn$", list(map_iter)))
    if iter_cbs:
        rules.append((r"_iterate::fn$", list(iter_cbs)))
    if process:
        rules.append((r"\.process$", list(process)))
    return rules
