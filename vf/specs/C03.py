"""C03 event loop."""
from vf.l2 import l2_job, L2_STUBS

META = {
    "functions": ["ctx.c: recv_events, push_evt, loop_start, loop_stop, m_ctx_dispatch, m_ctx_loop, m_ctx_quit",
                  "src.c: process_*, register_mod_src, src_priv_dtor", "poll/epoll.c, poll/cmn_linux.c: all",
                  "mod.c, ps.c, evts.c, structs, mem: everything reached"],
    "stubs": L2_STUBS,
    "bounds": "1-2 modules, <= 3 sources ready in one poll batch, <= 5 dispatch calls",
    "outside": "real blocking, more sources per batch than the bound, parallel task threads",
    "assumptions": [],
}


def jobs(tier):
    js = []
    nf = 2 if tier == "quick" else 3
    for mask in range(1, 1 << nf):
        for oneshot in (0, 1):
            for desc in ((0,) if tier == "quick" and mask != 3 else (0, 1)):
                js.append(l2_job("C03.errno.NF%d.m%d.o%d.d%d" % (nf, mask, oneshot, desc), "l2/c03_errno.c",
                                 defines={"NF": nf, "READY_MASK": mask, "ONESHOT": oneshot, "DESC": desc},
                                 symbolic=["errno left by the handler (int, full range)", "quit code (uint8)"],
                                 bounds="NF=%d descriptors, ready mask %d, one-shot %d, order %s" % (nf, mask, oneshot, "desc" if desc else "asc"),
                                 unwind=13))
    kinds = {"fd": "M_SRC_TYPE_FD", "tmr": "M_SRC_TYPE_TMR", "sgn": "M_SRC_TYPE_SGN", "path": "M_SRC_TYPE_PATH",
             "pid": "M_SRC_TYPE_PID", "task": "M_SRC_TYPE_TASK"}
    for k, kv in kinds.items():
        # (mode, pause, end, oneshot)
        variants = [(0, 0, 0, 0), (1, 0, 0, 1)] if tier == "quick" else \
                   [(0, 0, 0, 0), (0, 0, 0, 1), (0, 1, 0, 0), (1, 0, 0, 0), (1, 0, 0, 1), (1, 0, 1, 0)]
        if tier == "quick" and k in ("fd", "tmr"):
            variants = [(0, 0, 0, 0), (0, 0, 0, 1), (0, 1, 0, 0), (1, 0, 0, 0), (1, 0, 1, 0)]
        for mode, pause, end, one in variants:
            js.append(l2_job("C03.kind.%s.mode%d.p%d.e%d.o%d" % (k, mode, pause, end, one), "l2/c03_kinds.c",
                             defines={"KIND": kv, "MODE": mode, "PAUSE": pause, "END": end, "ONESHOT": one},
                             symbolic=["quit code (uint8)", "errno left by callbacks (int)"],
                             bounds="kind=%s %s%s%s%s" % (k, "blocking loop" if mode else "dispatch", ", owner paused" if pause else "",
                                                        ", ended by stop" if end else "", ", one-shot" if one else ""),
                             unwind=13, task_fns=["my_task"]))
    for scen in (0, 1):
        for desc in ((0, 1) if scen == 0 else (0,)):
            js.append(l2_job("C03.pill.s%d.d%d" % (scen, desc), "l2/c03_pill.c", defines={"SCEN": scen, "DESC": desc},
                             symbolic=["errno left by callbacks incl. the stop callback (int)", "quit code (uint8)"],
                             bounds="pill + descriptor event in one batch" if scen == 0 else "message pending for a paused module at quit",
                             unwind=13))
    for e in (2,):
        js.append(l2_job("C03.pill.s0.d0.fixed%d" % e, "l2/c03_pill.c", defines={"SCEN": 0, "DESC": 0, "ERRNO_FIXED": e},
                         symbolic=["quit code (uint8)"], bounds="errno=%d concrete (regression companion)" % e, unwind=13))
    full = (1 << nf) - 1
    for e in (9, 4, 11):        # EBADF, EINTR, EAGAIN
        js.append(l2_job("C03.errno.NF%d.m%d.fixed%d" % (nf, full, e), "l2/c03_errno.c",
                         defines={"NF": nf, "READY_MASK": full, "ONESHOT": 0, "DESC": 0, "ERRNO_FIXED": e},
                         symbolic=["quit code (uint8)"], bounds="errno=%d concrete (regression companion)" % e, unwind=13))
    for mask in ((full,) if tier == "quick" else (1, full)):
        js.append(l2_job("C03.errno.NF%d.m%d.hup" % (nf, mask), "l2/c03_errno.c",
                         defines={"NF": nf, "READY_MASK": mask, "ONESHOT": 0, "DESC": 0, "VF_HUP": 1},
                         symbolic=["quit code (uint8)", "errno left by callbacks (int)"],
                         bounds="ready descriptors reported as EPOLLIN|EPOLLHUP (peer wrote and hung up)", unwind=13))
    for err, nm in ((4, "eintr"), (11, "eagain"), (9, "ebadf")):
        js.append(l2_job("C03.pollfail.%s" % nm, "l2/c03_pollfail.c", defines={"PERR": err},
                         symbolic=["quit code (uint8)", "errno left by callbacks (int)"],
                         bounds="the poll call fails once with errno %d" % err, unwind=13))
    for act in (1, 2, 3, 4):
        for desc in ((0, 1) if (tier != "quick" or act in (1, 2)) else (0,)):
            js.append(l2_job("C03.samebatch.act%d.d%d" % (act, desc), "l2/c03_samebatch.c", defines={"ACT": act, "DESC": desc},
                             symbolic=["quit code (uint8)", "errno left by callbacks (int)"],
                             bounds="two modules' descriptor events in one batch, first handler %s the other" %
                                    ("pauses", "stops", "deregisters", "deregisters the source of")[act - 1], unwind=13))
    for resub in (0, 1):
        for nq in ((2,) if tier == "quick" else (2, 3)):
            js.append(l2_job("C03.oneshot.queued%d.resub%d" % (nq, resub), "l2/c03_oneshot_queue.c", defines={"RESUB": resub, "NQ": nq},
                             symbolic=["errno left by callbacks (int)"],
                             bounds="%d matching messages queued before the one-shot subscriber is served%s" % (nq, ", handler subscribes again" if resub else ""), unwind=13))
    for route in (0, 1, 2):
        js.append(l2_job("C03.count.route%d" % route, "l2/c03_count.c", defines={"ROUTE": route},
                         symbolic=["quit code (uint8)", "errno left by callbacks (int)"],
                         bounds="a module leaves while PAUSED (route %d), another keeps RUNNING" % route, unwind=13))
    js.append(l2_job("C03.oneshot.regex", "l2/c03_oneshot_rx.c", symbolic=["errno left by callbacks (int)"],
                     bounds="one-shot subscription on a regular expression, two matching publishes", unwind=13))
    return js


MANIFEST = {
    "text": "Bounded model checking of the whole core on the OS model: (a) for every errno value a handler may leave "
            "behind and every ready-set of a poll batch (one job per set) no event is dropped, user data matches, "
            "one-shot sources fire once, quit returns the exact code; (b) one job per source kind (descriptor, timer, "
            "signal, path, pid, task) x driving mode (dispatch / blocking loop ended by quit or by stopping all) x "
            "owner paused x one-shot: the event reaches exactly the registering module while RUNNING; two modules' events in one poll batch where the first handler pauses / stops / deregisters the other or its source; several messages queued for a one-shot subscription (also re-subscribed from the handler); a module leaving while PAUSED next to a RUNNING one; descriptors reported with EPOLLHUP",
    "note": "ready-sets, kinds and modes are per-job constants; errno and quit code are free; kernel = OS model (epoll "
            "level-triggered + EPOLLONESHOT, timerfd/signalfd/inotify/pidfd/eventfd as slots); task = deferred call",
}
