"""C01 module lifecycle state machine (L1 units; whole-core scenarios are added by the L2 layer)."""
from vf.runner import Job, fl
from vf.fp import core_fp
from vf.l2 import l2_job, L2_STUBS

SRC = ["Lib/core/mod.c", "Lib/core/ctx.c", "Lib/core/evts.c", "Lib/core/main.c",
       "Lib/structs/queue.c", "Lib/structs/stack.c", "Lib/structs/map.c", "Lib/structs/list.c", "Lib/structs/bst.c",
       "Lib/mem/mem.c", "Lib/utils/mem.c"]
META = {
    "functions": ["mod.c: m_mod_start, m_mod_pause, m_mod_resume, m_mod_stop, m_mod_deregister, mod_deregister, start, "
                  "stop, optional_hook, reset_module, evaluate_module, m_mod_is, M_MOD_ASSERT*/M_MOD_CONSUME_TOKEN",
                  "map.c: put/remove/len/iterate", "list.c, stack.c, queue.c: clear/iterators", "mem.c", "main.c: mem_dtor"],
    "stubs": ["mod.c:manage_srcs -> 0, mod.c:init_pubsub_fd -> 0 (polling layer and message pipe; exercised for real in "
              "the whole-core checks C02/C03/C20)", "pthread_getspecific returns the harness' context (ctx.c:m_ctx() with its deny-ctx test is real)", "fetch_ms = arbitrary clock",
              "tell_system_pubsub_msg = recorder", "m_ctx_deregister = recorder", "fs_cleanup = 0 (fs_noop)",
              "poll_notify_userevent = 0", "libmodule_logger = empty variadic"],
    "bounds": "(a) one public lifecycle call from ANY state/flags/tokens/ctx state, with and without a re-entrant "
              "pause/stop/deregister from inside on_start; (b) one evaluation pass over NM modules (3 quick, 4 thorough) "
              "in arbitrary states with arbitrary eval/start results",
    "whole_core": "C01.evalbatch.* jobs run the complete core on the OS model (stubs: " + "; ".join(L2_STUBS) + ")",
    "outside": "bound modules (m_mod_bind), polling failures, more than NM modules in a pass; sequences of calls are "
               "covered inductively only as far as the stubbed layers are state-independent",
    "assumptions": ["representation invariant of the pre-state: running_modules == #RUNNING, a non-zombie module is in "
                    "the context's map, a zombie is not"],
}
REMOVE = ["m_ctx_deregister", fl("manage_srcs", "mod.c"), fl("init_pubsub_fd", "mod.c")]
DEFS = {"VF_MANAGE_SRCS": fl("manage_srcs", "mod.c"), "VF_INIT_PUBSUB_FD": fl("init_pubsub_fd", "mod.c")}
FP = core_fp(mem_dtors=[], on_evt=["on_evt"], on_start=["on_start"], on_stop=["on_stop"], on_eval=["on_eval"],
             map_iter=["evaluate_module"])


def jobs(tier):
    js = []
    common = dict(sources=SRC, extra_harness=["common/vf_defs.c"], remove=REMOVE, fsa=1024, layer="l1",
                  backend="cadical", fp=FP, unwindset={"hashmap_hash_string.0": 4, "strcmp.0": 24})
    js.append(Job("C01.step.plain", "l1/c01_step.c", defines=dict(DEFS), unwind=6,
                  symbolic=["state (5)", "flags", "tokens (u64)", "ctx looping/idle, persist", "other running modules",
                            "op (start/pause/resume/stop/deregister)", "on_start result"],
                  bounds="one step", timeout=900, **common))
    js.append(Job("C01.step.reentrant", "l1/c01_step.c", defines=dict(DEFS, VF_INNER=None), unwind=6,
                  symbolic=["state (5)", "flags", "tokens (u64)", "ctx state/flags", "op", "on_start result",
                            "re-entrant action inside on_start (none/pause/stop/deregister self)"],
                  bounds="one step + one nested call", timeout=900, **common))
    js.append(Job("C01.step.restartinstop", "l1/c01_step.c", defines=dict(DEFS, VF_INNER_STOP=None), unwind=6,
                  symbolic=["state (5)", "flags", "tokens (u64)", "ctx state/flags", "other running modules", "op (stop/deregister)"],
                  bounds="one stop/deregister whose stop callback restarts its own module once (accepting start callback)",
                  kf=["C01_restart_in_deregister"], timeout=900, **common))
    for nm in ([3] if tier == "quick" else [3, 4]):
        js.append(Job("C01.evalpass.NM%d" % nm, "l1/c01_eval.c", defines=dict(DEFS, NM=nm), unwind=8,
                      symbolic=["state of each module", "on_eval present/result per module", "on_start result per module"],
                      bounds="NM=%d modules, table of 256 slots walked by m_map_iterate" % nm, timeout=1500,
                      **dict(common, unwindset={"hashmap_hash_string.0": 4, "strcmp.0": 24, "m_map_iterate.0": 258})))
    # whole-core wiring of the evaluation pass: after every kind of processed batch and at loop start
    batches = [0, 1, 2, 4] if tier == "quick" else [0, 1, 2, 3, 4]
    for b in batches:
        js.append(l2_job("C01.evalbatch.b%d" % b, "l2/c01_evalbatch.c", defines={"BATCH": b, "LOOPSTART": 0},
                         symbolic=["errno left by callbacks (int)", "on_start result of the module being started"],
                         bounds="batch kind %d" % b, unwind=13))
    js.append(l2_job("C01.evalbatch.loopstart", "l2/c01_evalbatch.c", defines={"BATCH": 0, "LOOPSTART": 1},
                     symbolic=["errno left by callbacks (int)", "on_start result"], bounds="loop start", unwind=13))
    for act, ret in ((1, 1), (1, 0), (2, 1), (3, 1), (3, 0)):
        js.append(l2_job("C01.evalself.act%d.ret%d" % (act, ret), "l2/c01_evalself.c", defines={"ACT": act, "RET": ret},
                         symbolic=["errno left by callbacks (int)", "quit code (uint8)"],
                         bounds="on_eval of an IDLE module %s its own module and returns %d" % (("deregisters", "stops", "starts")[act - 1], ret), unwind=13))
    js.append(l2_job("C01.nohandler.pausedflush", "l2/c03_pill.c", defines={"SCEN": 1, "DESC": 0},
                     symbolic=["errno left by callbacks (int)", "quit code (uint8)"],
                     bounds="message pending for a PAUSED module when the loop stops: no handler may run", unwind=13))
    return js


MANIFEST = {
    "text": "Bounded model checking of the real lifecycle code of mod.c: one call from every state x flags x tokens x "
            "context state (the transition relation is decided completely for one step, incl. a nested call from "
            "on_start), and one evaluation pass over NM modules with every combination of states and callback results; "
            "callback counts, running-module counter and MOD_STARTED/MOD_STOPPED emission are asserted; on_eval re-entering the lifecycle of its own module (deregister / stop / start); on_stop restarting its own module during stop / deregister (known finding C01_restart_in_deregister)",
    "note": "polling layer (manage_srcs, init_pubsub_fd) stubbed to success in the unit; multi-call histories rely on the "
            "one-step relation plus the whole-core scenarios; bound modules outside the claim",
}
