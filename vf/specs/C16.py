"""C16 stash / unstash."""
from vf.runner import Job, fl
from vf.fp import core_fp, EVT_DTOR

SRC = ["Lib/core/evts.c", "Lib/core/ps.c", "Lib/core/mod.c", "Lib/core/main.c", "Lib/core/fs/fs_noop.c",
       "Lib/structs/queue.c", "Lib/structs/stack.c", "Lib/structs/map.c", "Lib/structs/list.c", "Lib/structs/bst.c",
       "Lib/mem/mem.c", "Lib/utils/mem.c"]

META = {
    "functions": ["evts.c: m_mod_stash, m_mod_unstash, m_mod_become, new_evt, evt_dtor", "ps.c: call_pubsub_cb",
                  "mod.c: reset_module, m_mod_is", "queue.c, stack.c: all reached", "mem.c: m_mem_new/ref/unref",
                  "main.c: mem_dtor"],
    "stubs": ["m_ctx() returns the harness' context block (thread has a context)", "fetch_ms = arbitrary clock value",
              "libmodule_logger = empty variadic", "fs_* = fs_noop.c (as in the default build)"],
    "bounds": "0..NS events stashed (NS=3 quick, 4 thorough; the count is a per-job constant, plus one job with the "
              "count symbolic <= 2), n over the full size_t range, handler stack depth <= 1, two consecutive unstash "
              "calls; guards: one step from any module state / priority / token count",
    "outside": "more than NS stashed events, interleaving with new loop deliveries (C13/C08 cover push_evt), "
               "allocation failure; in the count harness the stashed events are tell-like (no source block), events "
               "with sources are covered by the guard harness only",
    "assumptions": [],
}

RECUR = {"m_mem_unref": 3, EVT_DTOR: 2}
UNSTASH_FP = core_fp(mem_dtors=[EVT_DTOR], on_evt=["on_evt", "on_evt2"])
GUARD_FP = core_fp(mem_dtors=[EVT_DTOR], on_evt=["on_evt"])
NATIVE_U = {"sources": [s for s in SRC if s not in ("Lib/core/evts.c",)]}
NATIVE_G = {"sources": [s for s in SRC if s not in ("Lib/core/mod.c",)]}


def jobs(tier):
    js = []
    ns = 3 if tier == "quick" else 4
    common = dict(sources=SRC, extra_harness=["common/vf_defs.c"], remove=["m_ctx"], fsa=1024, layer="l1",
                  backend="cadical")
    for k in range(0, ns + 1):
        for feat in (["VF_BECOME"], ["VF_SECOND"]):
            d = {"NS": max(k, 1), "NS_FIXED": k, "VF_EVT_DTOR": EVT_DTOR}
            d.update({f: None for f in feat})
            js.append(Job("C16.unstash.ns%d.%s" % (k, feat[0][3:].lower()), "l1/c16_unstash.c", defines=d,
                          unwind=k + 3, unwindset=RECUR, fp=UNSTASH_FP, native=NATIVE_U,
                          symbolic=["n (size_t, full width)", "become() installed or not" if feat[0] == "VF_BECOME"
                                    else "n of first unstash decides what the second returns", "clock values"],
                          bounds="stashed=%d" % k, timeout=900, **common))
    for k in range(1, ns + 1):
        d = {"NS": k, "NS_FIXED": k, "VF_EVT_DTOR": EVT_DTOR, "VF_SECOND": None, "VF_RESTASH": None}
        js.append(Job("C16.unstash.ns%d.restash" % k, "l1/c16_unstash.c", defines=d, unwind=k + 4, unwindset=RECUR,
                      fp=UNSTASH_FP, native=NATIVE_U,
                      symbolic=["n (size_t, full width)", "clock values"],
                      bounds="stashed=%d, handler stashes the oldest event again during the unstash" % k, timeout=900, **common))
    for k in (3, 4):
        d = {"NS": k, "NS_FIXED": k, "VF_EVT_DTOR": EVT_DTOR, "VF_NESTED": None}
        js.append(Job("C16.unstash.ns%d.nested" % k, "l1/c16_unstash.c", defines=d, unwind=2 * k + 4, unwindset=RECUR,
                      fp=UNSTASH_FP, native=NATIVE_U, symbolic=["clock values", "priorities"],
                      bounds="stashed=%d, outer unstash(2) whose handler calls unstash(1)" % k, timeout=900, **common))
    d = {"NS": 2, "VF_EVT_DTOR": EVT_DTOR, "VF_BECOME": None}
    js.append(Job("C16.unstash.sym2", "l1/c16_unstash.c", defines=d, unwind=6, unwindset=RECUR, fp=UNSTASH_FP,
                  native=NATIVE_U, symbolic=["number stashed (0..2)", "n (size_t, full width)", "become() installed"],
                  bounds="stashed<=2 symbolic", timeout=1500, **common))
    for op, nm in ((0, "stash"), (1, "unstash"), (2, "stop")):
        js.append(Job("C16.guard.%s" % nm, "l1/c16_guard.c",
                      defines={"VF_RESET_MODULE": fl("reset_module", "mod.c"), "VF_OP": op},
                      unwind=6, unwindset=RECUR, fp=GUARD_FP, native=NATIVE_G,
                      symbolic=["module state (5)", "priority and other flags of the event source", "token count (u64)", "n"],
                      bounds="one step from any state, op=%s" % nm, timeout=900, **common))
    return js


MANIFEST = {
    "text": "Bounded model checking of the real m_mod_stash/m_mod_unstash (evts.c) with the real queue, stack, "
            "ref-counted blocks and call_pubsub_cb: for every n in size_t and 0..NS stashed events the handler gets "
            "exactly the min(n, stashed) oldest in order in one invocation and the count is returned; remainder intact "
            "and redelivered once; guards decided from any state/priority/token value; stop discards the stash; re-entrant m_mod_unstash from the handler delivers nothing twice",
    "note": "m_ctx() and the clock are stubs (listed in evidence); number of stashed events bounded by NS; "
            "interleaving with loop deliveries is covered by C13/C08",
}
