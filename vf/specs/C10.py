"""C10 ref-counted blocks."""
from vf.runner import Job

META = {
    "functions": ["mem.c: m_mem_new, m_mem_ref, m_mem_unref, m_mem_unrefp, m_mem_size, get_header"],
    "stubs": ["allocator = harness hook over fixed 16-aligned arenas (memhook set statically)",
              "libmodule_logger = empty variadic"],
    "bounds": "size <= MAXSZ (100 quick / 1024 + 4096-window thorough), extra refs <= MAXREF (3 / 6), one nested block",
    "outside": "sizes above the bound, more than two live blocks, allocation failure, concurrent ref/unref",
    "assumptions": ["the allocator returns memory aligned to alignof(max_align_t) (malloc contract)"],
}

FP = [(r"memhook\._free$", ["vf_free"]), (r"memhook\._calloc$", ["vf_calloc"]), (r"memhook\._malloc$", ["vf_malloc"]),
      (r"libmodule_logger\.", ["vf_log_noop"]), (r"dtor", ["vf_dt_outer", "vf_dt_inner"])]


def jobs(tier):
    js = []
    if tier == "quick":
        cfgs = [(100, 3)]
    else:
        cfgs = [(100, 6), (600, 3)]
    for mx, mr in cfgs:
        js.append(Job("C10.block.S%d.R%d" % (mx, mr), "l0/mem_block.c", sources=[],
                      extra_harness=["common/vf_defs.c"], defines={"MAXSZ": mx, "MAXREF": mr},
                      unwind=max(mr + 2, 4), unwindset={"memset.0": mx + 70},
                      fp=FP, common_fp=False, kf=["align-size-mod-16"],
                      symbolic=["size", "extra refs", "dtor installed", "nested", "inner size", "unref/unrefp"],
                      bounds="size<=%d refs<=%d" % (mx, mr), native={"sources": []}, timeout=1500))
    # second job so the alignment question is also asked alone at every size class up to 4096 (pure arithmetic)
    js.append(Job("C10.align.S4096", "l0/mem_align.c", sources=[], extra_harness=["common/vf_defs.c"],
                  defines={"MAXSZ": 4096}, unwind=3, fp=FP[:4] , common_fp=False, kf=["align-size-mod-16"],
                  symbolic=["size"], bounds="size<=4096", native={"sources": []}, timeout=600))
    return js


MANIFEST = {
    "text": 'Bounded model checking of all of Lib/mem/mem.c: for every size up to the bound, every number of extra refs up to the bound, with/without destructor, one nested block — alignment, size, liveness, destructor-exactly-once-on-valid-block, allocator hand-back; the solver decides each query over all values in the bound',
    "note": 'allocator hook over fixed aligned arenas stands for malloc; sizes/ref counts above the bound, >2 blocks, allocation failure and concurrency are outside the claim',
}
