"""C12 queue / stack / list: order discipline under all ops and iterators."""
from vf.runner import Job

L0_SRC = ["Lib/utils/mem.c"]
NATIVE = {"sources": L0_SRC}

META = {
    "functions": ["queue.c: all", "stack.c: all", "list.c: all"],
    "stubs": ["libmodule_logger = empty variadic", "memhook = {malloc, calloc, free}"],
    "bounds": "step harnesses: arbitrary well-formed container of <= N elements (N=3 quick, 4 thorough), one "
              "operation (incl. iterator walked to any position + remove/set/insert) + drain; script harnesses: "
              "every operation sequence of length <= L from empty (L=5 quick, 7 thorough)",
    "outside": "containers longer than N in the pre-state of a step (covered only as far as the step is "
               "length-independent), scripts longer than L, allocation failure",
    "assumptions": ["pre-state of step harnesses = representation invariant (linked chain, head/tail/len "
                    "consistent); the script harnesses show the invariant holds after construction via the API"],
}


def jobs(tier):
    n = 3 if tier == "quick" else 4
    L = 5 if tier == "quick" else 7
    js = []
    for c in ("queue", "stack", "list"):
        js.append(Job("C12.%s.step.N%d" % (c, n), "l0/%s_step.c" % c, sources=L0_SRC,
                      extra_harness=["common/vf_defs.c"], defines={"N": n}, unwind=n + 4,
                      symbolic=["n (pre-state length)", "op", "iterator position", "iterator edit", "dtor installed",
                                "callback stop position/return"],
                      bounds="N=%d" % n, native=NATIVE, timeout=900 if tier == "quick" else 3000))
        js.append(Job("C12.%s.script.L%d" % (c, L), "l0/%s_script.c" % c, sources=L0_SRC,
                      extra_harness=["common/vf_defs.c"], defines={"L": L}, unwind=L + 3,
                      symbolic=["op[0..L)", "dtor installed"], bounds="L=%d" % L, native=NATIVE,
                      timeout=900 if tier == "quick" else 3000))
    return js


MANIFEST = {
    "text": 'Bounded model checking of queue.c/stack.c/list.c: inductive step from an arbitrary well-formed chain (length <= N) with one operation or iterator edit at a symbolic position followed by an observation suffix, plus all operation scripts of length <= L from empty, against an array model',
    "note": 'pre-state = representation invariant (shown to be established by the API in the script harnesses); lengths above N and scripts above L are outside the claim',
}
