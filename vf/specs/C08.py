"""C08 ordering of messages to one module; poison pill ordered too."""
from vf.l2 import l2_job, L2_STUBS

META = {
    "functions": ["ps.c: send path, flush_pubsub_msgs, call_pubsub_cb, m_mod_ps_poisonpill", "ctx.c: recv_events (pill "
                  "branch), push_evt, loop_stop", "src.c: process_ps", "OS model pipe = FIFO"],
    "stubs": L2_STUBS,
    "bounds": "1 recipient, 2 senders, scripts of <= 5 steps (listed per job), batch size 0/2, dispatch / quit+flush / "
              "blocking loop",
    "outside": "longer scripts, more senders, stashing (C16)",
    "assumptions": [],
}

QUICK = [
    ("1,2,3", 0, 0), ("1,2,3", 1, 0), ("1,2,3", 2, 0), ("3,4,1", 0, 0), ("1,7,2", 0, 0), ("1,7,2", 1, 0),
    ("1,5,2", 0, 0), ("1,2,6,1", 0, 0), ("1,6,2,3", 2, 0), ("1,8,2,9,3", 0, 0), ("1,10,2,3", 0, 0),
    ("1,2,3", 0, 2), ("1,2,3,4", 0, 2), ("1,2,3", 1, 2),
    ("1,2,6", 0, 3), ("1,10,2,6,1", 0, 3), ("1,2,6", 1, 3), ("1,2,6,1", 2, 3),   # pill while earlier messages are still being batched
    ("12,10,1", 0, 0), ("12,10,1", 1, 0), ("12,1,2", 2, 0), ("1,12,10,2", 1, 0),     # a low-priority event held back without batching
    ("1,10,2,10,3", 1, 3), ("1,2,6,1", 1, 0), ("3,3,11,11", 0, 4), ("3,11,3", 0, 3), ("1,11,2", 1, 3),
]
THOROUGH = QUICK + [
    ("2,1,4,3", 0, 0), ("2,1,4,3", 1, 0), ("2,1,4,3", 2, 0), ("5,1,5", 0, 0), ("7,1,2", 0, 0), ("1,2,7", 1, 0),
    ("1,2,3,6", 0, 0), ("6,1,2", 0, 0), ("1,6,2", 1, 0), ("1,2,6,3", 2, 0), ("1,8,2,3,9", 0, 0), ("8,1,2,9", 0, 0),
    ("1,2,10,3,4", 0, 0), ("1,10,6,2", 0, 0), ("1,2,3,4", 1, 2), ("1,2,3,4", 2, 0), ("3,3,3", 0, 0), ("1,1,1,1", 0, 0),
    ("1,2,6", 0, 2), ("1,2,3,4,1", 0, 2),
]


SELFPILL = [("1,2,1", 0, 0), ("1,2,3", 0, 2), ("3,1,2,4", 0, 0)]
EXTRA = [  # (script, mode, batch, tb, cap)
    ("1,2,6,1", 0, 0, 2, 6), ("1,2,6,1", 1, 0, 2, 6), ("1,6,2", 0, 0, 1, 6),      # pill for a recipient without tokens
    ("1,2,3", 0, 0, 0, 2), ("1,2,3,4", 0, 0, 0, 2), ("3,1,2", 0, 2, 0, 1),        # more messages than the mailbox holds
]


def jobs(tier):
    js = []
    for sc, mode, batch, tb, cap in EXTRA:
        name = "C08.s%s.m%d.b%d.tb%d.cap%d" % (sc.replace(",", "_"), mode, batch, tb, cap)
        js.append(l2_job(name, "l2/c08_order.c", defines={"SCRIPT": "{%s}" % sc, "MODE": mode, "BATCH": batch, "TB": tb, "CAP": cap,
                                                            "VF_LOGN": 8, "VF_PIPE_MAX": 6},
                         symbolic=["errno left by handlers (int)", "quit code (uint8)"],
                         bounds="script %s, mode %d, batch %d, bucket %d, pipe capacity %d" % (sc, mode, batch, tb, cap), unwind=14))
    for sc, mode, batch in SELFPILL:
        name = "C08.selfpill.s%s.m%d.b%d" % (sc.replace(",", "_"), mode, batch)
        js.append(l2_job(name, "l2/c08_order.c", defines={"SCRIPT": "{%s}" % sc, "MODE": mode, "BATCH": batch, "VF_LOGN": 8, "VF_PIPE_MAX": 6, "SELFPILL": None},
                         symbolic=["errno left by handlers (int)", "quit code (uint8)"],
                         bounds="script %s, batch %d, the recipient pills itself while handling its first message" % (sc, batch), unwind=14))
    for sc, mode, batch in (QUICK if tier == "quick" else THOROUGH):
        name = "C08.s%s.m%d.b%d" % (sc.replace(",", "_"), mode, batch)
        js.append(l2_job(name, "l2/c08_order.c", defines={"SCRIPT": "{%s}" % sc, "MODE": mode, "BATCH": batch, "VF_LOGN": 8, "VF_PIPE_MAX": 6},
                         symbolic=["errno left by handlers (int)", "quit code (uint8)"],
                         bounds="script %s, mode %d, batch %d" % (sc, mode, batch), unwind=14, kf=[]))
    return js


MANIFEST = {
    "text": "Bounded model checking of the whole core on the OS model: per job one send/transition script to a single "
            "recipient from two senders (tell, publish, broadcast, system notification, poison pill, pause/resume, "
            "interleaved dispatch) in dispatch, quit+flush and blocking-loop mode, with and without batching; the "
            "recipient's recorded log must equal the send order, nothing after the pill, everything before it; a low-priority event held back without batching, a pill sent to oneself, a pill arriving while earlier messages are still batched",
    "note": "scripts are per-job constants (symbolic call order does not finish); errno/quit code free; OS-model pipes "
            "are FIFOs like kernel pipes",
}
