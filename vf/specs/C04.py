"""C04 memory and lifetime safety under re-entrant API use (scenario catalogue on the whole core)."""
from vf.l2 import l2_job, L2_STUBS

META = {
    "functions": ["whole core: Lib/core/{ctx,mod,ps,src,evts,main}.c, poll/{epoll,cmn_linux}.c, fs_noop.c, Lib/structs/*.c, "
                  "Lib/mem/mem.c, Lib/utils/{mem,utils}.c"],
    "stubs": L2_STUBS,
    "bounds": "scenario catalogue (15 families x variants, listed per job), <= 3 modules, <= 3 messages; the claim is 'no "
              "memory-safety violation and no leak in these scenario families for all values of the free variables'",
    "outside": "programs outside the catalogue, parallel task threads, allocation failure",
    "assumptions": ["handles passed to the API are live references owned by the caller"],
}
SCENS = {1: ("selfdereg", [0]), 2: ("selfstop", [0]), 3: ("unsub-inflight", [0, 1]), 4: ("retain-evt", [0, 1, 2]),
         5: ("zombie", [0]), 6: ("sender-gone", [0]), 7: ("stash-stop", [0, 1]), 8: ("replace", [0]), 9: ("burst", [0]),
         10: ("ctx-autorelease-in-cb", [0]), 11: ("task-after-stop", [0, 1]), 12: ("unstash-selfdereg", [0]), 13: ("paused-mailbox", [0, 1, 2]), 14: ("resub-dup", [0, 1]), 15: ("sysmsg-sender-gone", [0])}
KF = {(11, 0): ["task-outlives-source"], (11, 1): ["task-outlives-source"]}


def jobs(tier):
    js = []
    for sc, (nm, vs) in SCENS.items():
        for v in vs:
            js.append(l2_job("C04.%s.v%d" % (nm, v), "l2/c04_lifetime.c", defines={"SCEN": sc, "V": v},
                             symbolic=["auto-free bit", "errno left by callbacks (int)", "quit code", "payload contents"],
                             bounds="scenario %s variant %d" % (nm, v), unwind=13, leak=True, kf=KF.get((sc, v), [])))
    for act, order in (((2, 1),) if tier == "quick" else ((2, 0), (2, 1), (2, 2))):   # ACT 1 (nested m_ctx_deregister): no verdict in 900 s, not registered
        js.append(l2_job("C04.nestedteardown.act%d.o%d.n2" % (act, order), "l2/c04_nestedteardown.c", defines={"ACT": act, "ORDER": order, "NM": 2},
                         symbolic=["errno left by callbacks (int)"], bounds="2 modules: the first stop callback deregisters the LAST module of the non-persistent context (nested context release)", unwind=13, leak=True))
        js.append(l2_job("C04.nestedteardown.act%d.o%d" % (act, order), "l2/c04_nestedteardown.c", defines={"ACT": act, "ORDER": order},
                         symbolic=["errno left by callbacks (int)"],
                         bounds="3 modules with user references; a stop callback re-enters the teardown (%s); release order %d" %
                                ("m_ctx_deregister" if act == 1 else "m_mod_deregister of another module", order), unwind=13, leak=True))
    return js


MANIFEST = {
    "text": "Bounded model checking of the whole core on the OS model with CBMC's pointer, free and memory-leak "
            "instrumentation: a catalogue of re-entrant / retained-reference scenario families, each ending with the "
            "context released and every user reference dropped; a stop callback re-entering the teardown (nested module deregistration releasing the context)",
    "note": "catalogue, not all programs; call order per job; parallel tasks outside the claim (deferred-call model)",
}
