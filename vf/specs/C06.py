"""C06 thread pool (sequentialised real thpool.c)."""
from vf.runner import Job

SRC = ["Lib/structs/queue.c", "Lib/structs/list.c", "Lib/utils/mem.c"]
META = {
    "functions": ["thpool.c: all (thpool_thread, wait_pool, add_threads, m_thpool_new/add/free)", "queue.c, list.c: reached"],
    "stubs": ["pthread mutex / condition variable / create / join / attr = scheduler model in harness/l0/thpool_seq.c "
              "(see its header comment): scheduling points at every worker lock, cond_wait and task body; cond_wait "
              "returns on signal/broadcast or spuriously; join runs or awaits the worker", "libmodule_logger = empty variadic"],
    "bounds": "1 worker x 2 tasks and 1 worker x 3 tasks (quick), 2 workers x 2 tasks (thorough); eager, lazy and detached "
              "pools; wait_all symbolic; 1 spurious wake-up; context switches stack-shaped (complete for 1 worker + 1 "
              "submitter at critical-section granularity, a subset for 2 workers)",
    "outside": "more than one submitting thread, interleavings inside a critical section (all shared accesses are under the "
               "mutex; running_tasks is atomic), non-stack-shaped switches with >= 2 workers, real pthread semantics "
               "beyond the model (priority, cancellation)",
    "assumptions": ["the pool's shared state is only accessed under its mutex (true by inspection of thpool.c: the one "
                    "exception, running_tasks, is an atomic)"],
}


def jobs(tier):
    js = []
    cfgs = [(1, 1, 0), (1, 2, 0), (1, 2, 1), (1, 3, 0)] if tier == "quick" else [(1, 2, 0), (1, 2, 1), (1, 3, 0), (1, 3, 1), (2, 2, 0), (2, 2, 1)]
    for nt, ntask, flags in cfgs:
        js.append(Job("C06.seq.T%d.K%d.F%d" % (nt, ntask, flags), "l0/thpool_seq.c", sources=SRC,
                      extra_harness=["common/vf_defs.c"], defines=dict({"NT": nt, "NTASK": ntask, "FLAGS": flags}, **({"NESTED_WORKERS": None} if nt > 1 else {})),
                      unwind=ntask + 3, backend="cadical", export_local=False, object_bits=12,
                      unwindset={"thpool_thread.0": ntask + 3, "thpool_thread.1": ntask + 3, "vf_cond_wait.0": ntask + 3,
                                 "vf_mutex_lock": 4, "m_queue_clear.0": ntask + 2, "m_list_clear.0": nt + 2,
                                 "wait_pool.0": nt + 2, "add_threads.0": nt + 1},
                      fp=[(r"thr\[.*\]\.fn$", ["thpool_thread"]), (r"task->fn$|\.fn$", ["vf_task"]),
                          (r"\.dtor$", ["free"])],
                      symbolic=["every scheduling choice", "spurious wake-up", "wait_all", "which waiter a signal wakes"],
                      bounds="threads=%d tasks=%d flags=%d" % (nt, ntask, flags), timeout=9000, mem_gb=24))
    return js


MANIFEST = {
    "text": "Bounded model checking of the real thpool.c under a sequentialisation of its threads at critical-section "
            "granularity: the solver chooses the schedule (which pending critical section of another thread runs at "
            "every lock / cond_wait / task body), spurious wake-ups and wait_all; asserted: at-most-once execution "
            "with the right argument, wait-all completeness, no run after free, bounded parallelism, no deadlock, no "
            "access to the pool after it was freed (CBMC pointer checks)",
    "note": "pthread primitives are a scheduler model, not the kernel; context switches are stack-shaped (complete for "
            "1 worker + 1 submitter, partial for 2 workers); one submitting thread; see META.outside",
    "technique": "CBMC 6.11 bounded symbolic execution of the real thpool.c with a sequentialising scheduler model of "
                 "the pthread primitives (schedule = nondeterministic choices decided by the SAT solver)",
}
