"""C02 pub/sub delivery and auto-free."""
from vf.l2 import l2_job, L2_STUBS

META = {
    "functions": ["ps.c: all (send_msg, tell_pubsub_msg, tell_if, tell_subscribers, fetch_sub, alloc_ps_msg, ps_msg_dtor, "
                  "flush_pubsub_msgs, call_pubsub_cb, public tell/publish/subscribe)", "ctx.c: recv_events, push_evt, "
                  "loop_start/stop, dispatch, quit", "src.c: process_ps", "mod.c, evts.c, poll, structs, mem: reached"],
    "stubs": L2_STUBS,
    "bounds": "3 modules (sender + 2), <= 2 subscriptions, 1-3 messages, pipe capacity 1..3 (the real 64 KiB pipe is the "
              "instance cap = 8192; delivery is asserted for the first 'cap' pending messages only, as the property words it)",
    "outside": "more modules/messages than the bound, glibc's regex engine (replaced by an arbitrary relation), delivery "
               "under batching / low priority (C13)",
    "assumptions": [],
}
SENDS = {0: "tell", 1: "publit", 2: "pubrx", 3: "bcast"}
POSTS = {0: "dispatch", 1: "stopB", 2: "loopend", 3: "quitflush", 4: "deregB", 5: "unsub", 6: "selfend"}


def _job(send, nsend, subb, subc, pauseb, post, cap, match=None, prefill=None):
    name = "C02.%s.n%d.b%dc%d.p%d.%s.cap%d" % (SENDS[send], nsend, subb, subc, pauseb, POSTS[post], cap)
    sym = ["auto-free bit", "errno left by handlers (int)", "quit code (uint8)"]
    d = {"SEND": send, "NSEND": nsend, "SUBB": subb, "SUBC": subc, "PAUSEB": pauseb, "POST": post, "CAP": cap}
    if send == 2:
        name += ".match%d" % match
        d["MATCH"] = match
    if prefill:
        name += ".full%s" % ("B" if prefill == 1 else "C")
        d["PREFILL"] = prefill
    return l2_job(name, "l2/c02_deliver.c", defines=d,
                  symbolic=sym, bounds=name, unwind=13,
                  fp_extra=[(r"memhook\._free$", ["vf_free"])])


def jobs(tier):
    js = []
    if tier == "quick":
        cfgs = [(0, 1, 1, 1, 0, 0, 3), (0, 2, 1, 1, 0, 3, 3), (0, 2, 1, 1, 0, 0, 1), (0, 1, 1, 1, 1, 2, 3),
                (1, 1, 1, 1, 0, 0, 3), (1, 1, 1, 0, 0, 0, 3), (1, 1, 0, 0, 0, 0, 3), (1, 1, 1, 1, 0, 1, 3),
                (1, 1, 1, 1, 0, 4, 3), (1, 1, 1, 1, 1, 0, 3), (1, 1, 1, 1, 0, 3, 3),
                (2, 1, 1, 1, 0, 0, 3), (3, 1, 1, 1, 0, 0, 3), (3, 1, 1, 1, 1, 2, 3), (1, 1, 1, 1, 0, 5, 3), (1, 2, 1, 1, 0, 5, 3), (0, 1, 1, 1, 1, 6, 3), (1, 1, 1, 1, 0, 6, 3)]
    else:
        cfgs = []
        for send in (0, 1, 2, 3):
            for post in (0, 1, 2, 3, 4, 5, 6):
                for pauseb in (0, 1):
                    cfgs.append((send, 1, 1, 1, pauseb, post, 3))
            cfgs += [(send, 2, 1, 1, 0, 0, 3), (send, 2, 1, 1, 0, 3, 3), (send, 2, 1, 1, 0, 0, 1), (send, 3, 1, 1, 0, 0, 2),
                     (send, 1, 1, 0, 0, 0, 3), (send, 1, 0, 0, 0, 0, 3)]
    # one recipient's mailbox already full: the others must still get a broadcast / publish
    for send in ((3, 1) if tier == "quick" else (3, 1)):
        for pf in (1, 2):
            js.append(_job(send, 1, 1, 1, 0, 0, 1, prefill=pf))
    seen = set()
    for c in cfgs:
        if c not in seen:
            seen.add(c)
            if c[0] == 2:
                for match in range(4):
                    js.append(_job(*c, match=match))
            else:
                js.append(_job(*c))
    return js


MANIFEST = {
    "text": "Bounded model checking of the whole core on the OS model: scenario families tell / publish (literal and "
            "regular-expression subscriptions, every matching relation) / broadcast x recipient states x what happens "
            "before the loop reads (deliver, stop, stay paused until loop end, quit+flush, deregister) x pipe capacity; "
            "per job the auto-free bit, errno and quit code are free; oracle: recording handlers vs the eligible set "
            "computed at send time, allocator-hook count of payload releases, CBMC's own use-after-free / double-free checks; the loop ending on its own with every recipient PAUSED (nothing turns up in the next run)",
    "note": "call order and recipient set are per-job constants (a symbolic heap shape does not finish, DESIGN.md 2); OS "
            "model and regex relation replace kernel and glibc; bounds 3 modules, <= 3 messages, pipe capacity <= 3",
}
