"""C18 per-module token bucket."""
from vf.runner import Job, fl
from vf.fp import core_fp, EVT_DTOR, SRC_DTOR

BASE = ["Lib/core/main.c", "Lib/structs/queue.c", "Lib/structs/stack.c", "Lib/mem/mem.c", "Lib/utils/mem.c"]
PERIOD_SRC = ["Lib/core/mod.c"] + BASE

META = {}


def jobs(tier):
    js = []
    js.append(Job("C18.period", "l1/c18_period.c", sources=PERIOD_SRC, extra_harness=["common/vf_defs.c"],
                  remove=["m_ctx"], fsa=1024, layer="l1", backend="cvc5-int", unwind=4,
                  fp=core_fp(mem_dtors=[], container_dtors=()),
                  native={"sources": PERIOD_SRC},
                  symbolic=["rate (uint32_t, full width)", "burst (uint64_t, full width)",
                            "earlier configuration present or not, its period / burst / tokens",
                            "module state (IDLE/RUNNING/PAUSED/STOPPED)", "result of the timer registration"],
                  bounds="one call from any earlier bucket configuration", timeout=300, mem_gb=8))
    return js


MANIFEST = {"text": "", "note": ""}
