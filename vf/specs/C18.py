"""C18 per-module token bucket."""
from vf.runner import Job, fl
from vf.l2 import l2_job
from vf.fp import core_fp, EVT_DTOR, SRC_DTOR

BASE = ["Lib/core/main.c", "Lib/structs/queue.c", "Lib/structs/stack.c", "Lib/mem/mem.c", "Lib/utils/mem.c"]
PERIOD_SRC = ["Lib/core/mod.c"] + BASE

ACC_SRC = ["Lib/core/ctx.c", "Lib/core/evts.c", "Lib/core/ps.c", "Lib/core/mod.c", "Lib/core/src.c", "Lib/core/main.c",
           "Lib/core/fs/fs_noop.c", "Lib/structs/queue.c", "Lib/structs/stack.c", "Lib/structs/map.c",
           "Lib/structs/list.c", "Lib/mem/mem.c", "Lib/utils/mem.c"]
RECUR = {"m_mem_unref": 3, EVT_DTOR: 2}
ENTRY = {0: "batchsize", 1: "become", 2: "regtmr", 3: "deregtmr", 4: "pauseresume", 5: "batchtimeout"}
ACC_FP = core_fp(mem_dtors=[EVT_DTOR, SRC_DTOR], on_evt=["on_evt", "h1"])

# (entry point, pattern): C = rate-limited call, T = refill tick, B = tick of another internal timer
S = "?"
ACCOUNT = {
    "quick": [(0, S * 6), (1, S * 6), (4, S * 6), (2, S * 4), (3, S * 4), (5, S * 4)],
    "thorough": [(0, S * 10), (1, S * 10), (4, S * 10), (2, S * 6), (3, S * 6), (5, S * 6),
                 (0, "CCTCC"), (0, "TCBCC"), (1, "CTCC"), (2, "CCTC"), (3, "CTCC"), (4, "CTCC")],
}
E2E = {"quick": [(3, 0, "CCTC")],
       "thorough": [(r, e, "CCTCTC") for r in (1, 3, 7, 1000000000) for e in (0, 1)]}

RECONF_SRC = ["Lib/core/mod.c", "Lib/core/src.c"] + BASE + ["Lib/structs/map.c", "Lib/structs/list.c"]
RECONF_FP = core_fp(mem_dtors=[SRC_DTOR])
PRE = {0: "fresh", 1: "configured", 2: "restarted", 3: "twocalls"}
RECONF = {
    "quick": [(0, {}), (1, {}), (2, {}), (3, {"VF_R1": 3, "VF_B1": 2}),
              # the new period must belong to the NEW rate: concrete second rates (the product test folds), incl. a pair
              # of rates congruent modulo 2^16 (mod_tb_t.rate is a uint16_t)
              (3, {"VF_R1": 65541, "VF_B1": 4, "VF_R2": 5}), (3, {"VF_R1": 7, "VF_B1": 4, "VF_R2": 7}),
              (3, {"VF_R1": 5, "VF_B1": 4, "VF_R2": 131077})],
    "thorough": [(0, {}), (1, {}), (2, {})] + [(3, {"VF_R1": r, "VF_B1": b}) for r in (1, 3, 7, 1000000000)
                                               for b in (1, 2)],
}

META = {
    "functions": ["mod.c: m_mod_set_tokenbucket, reset_module, m_mod_pause, m_mod_resume, stop, start, m_mod_is",
                  "mod.h: M_MOD_CONSUME_TOKEN (through every entry point below)",
                  "ctx.c: push_evt (refill branch, internal-timer branches)",
                  "evts.c: m_mod_set_batch_size, m_mod_become, m_mod_set_batch_timeout, new_evt, evt_dtor",
                  "src.c: m_mod_src_register_tmr, m_mod_src_deregister_tmr, register_mod_src, deregister_mod_src, "
                  "create_src, src_priv_dtor", "mem.c: m_mem_new/ref/unref", "stack.c, queue.c: as reached"],
    "stubs": ["m_ctx() returns the harness' context", "fetch_ms = arbitrary clock value",
              "libmodule_logger = empty variadic",
              "period jobs: m_mod_src_register_tmr / m_mod_src_deregister_tmr = recording stubs (src.c not linked)",
              "account / reconf jobs: m_bst_insert / m_bst_remove on the timer tree = ideal set keyed by the period "
              "(the tree is C11's subject, its keying C09's); poll_set_new_evt = counts calls, returns 0",
              "account.pauseresume: manage_srcs and tell_system_pubsub_msg = count calls, return 0",
              "reconf.restarted: the source-dropping half of stop() (manage_srcs(RM, stop)) = emptying the registry "
              "model; the bucket half is the real reset_module()",
              "a refill tick = new_evt(refill source) + push_evt, as recv_events does for a timer event; the kernel "
              "timer itself (timerfd with it_interval = it_value = period) is outside"],
    "bounds": "period: one call, every rate in uint32_t, every burst, any earlier configuration; accounting: from any "
              "bucket state (burst any uint64_t, tokens <= burst) every sequence of K steps over {rate-limited call, "
              "refill tick, tick of another internal timer} chosen by the solver, K = 6 quick / 10 thorough (4 / 6 for "
              "the entry points that allocate or free a source), one entry point per job; end-to-end: constants "
              "rate in {1,3,7,10^9}, burst 3, fixed pattern; reconfiguration: one call (rate 0..10^9, burst any) from "
              "{never configured, any earlier configuration with any tokens left incl. 0, stopped and restarted, a "
              "real first call with constants}, one user timer with any period",
    "outside": "wall-clock behaviour of timerfd; entry points other than the six exercised (all use the same "
               "M_MOD_CONSUME_TOKEN macro before their first effect - by reading); more than one user timer; the "
               "real timer tree and its comparator (C09, C11); allocation failure; the uint16_t copy mod->tb.rate "
               "(written, never read: the truncation of rates above 65535 has no effect; --conversion-check is off "
               "for the jobs that execute that assignment)",
    "assumptions": ["burst >= 1 in the constructed 'configured' pre-state (a configuration with burst 0 cannot "
                    "register its refill timer: the registration itself is refused)"],
}


def account_job(ent, pat, rate):
    d = {"VF_ENTRY": ent, "VF_PAT": '"%s"' % pat, "VF_PUSH_EVT": fl("push_evt", "ctx.c")}
    rm = ["m_ctx"]
    if ent == 4:
        d["VF_MANAGE_SRCS"] = fl("manage_srcs", "mod.c")
        rm += [fl("manage_srcs", "mod.c"), "tell_system_pubsub_msg"]
    pname = "sym%d" % len(pat) if set(pat) == {"?"} else pat
    name = "C18.account.%s.%s" % (ENTRY[ent], pname)
    sym = ["burst (uint64_t, full width)", "tokens at the start (any value <= burst)", "clock values"]
    if rate is not None:
        d["VF_RATE"] = rate
        d["VF_BURST"] = 3
        name = "C18.e2e.rate%d.%s.%s" % (rate, ENTRY[ent], pname)
        sym = ["burst (uint64_t, >= 1)", "tokens used since the configuration"]
    if ent == 0:
        sym.append("requested batch size (size_t)")
    return Job(name, "l1/c18_account.c", sources=ACC_SRC, extra_harness=["common/vf_defs.c"], remove=rm, defines=d,
               fsa=1024, layer="l1", backend="cadical", unwind=max(len(pat), 8) + 2, unwindset=RECUR, fp=ACC_FP,
               noflags=["--conversion-check"] if rate is not None else [],   # (uint16_t)rate into the unused tb.rate
               native={"sources": [s for s in ACC_SRC if s != "Lib/core/ctx.c"]}, symbolic=sym,
               bounds="pattern %s from any bucket state" % pat, timeout=600, mem_gb=12)


def jobs(tier):
    js = []
    for e in ((1, 2, 3, 5, 7, 9) if tier == 'quick' else range(15)):
        js.append(l2_job('C18.throttle.entry%d' % e, 'l2/c18_throttle.c', defines={'ENTRY': e}, symbolic=['errno left by callbacks (int)'],
                         bounds='whole core, bucket of 12 drained through the API, one call of entry point %d' % e, unwind=15, extra_evt=['h2']))
    pcommon = dict(sources=PERIOD_SRC, extra_harness=["common/vf_defs.c"], remove=["m_ctx"], fsa=1024, layer="l1",
                   unwind=4, fp=core_fp(mem_dtors=[], container_dtors=()), native={"sources": PERIOD_SRC},
                   noflags=["--conversion-check"], mem_gb=8)
    js.append(Job("C18.period.arith", "l1/c18_period.c", defines={"VF_ARITH": None}, backend="cvc5-int",
                  symbolic=["rate (uint32_t, full width)", "burst (uint64_t, full width)",
                            "earlier configuration present or not, its period / burst / tokens", "module state"],
                  bounds="one call, every rate", timeout=300, **pcommon))
    js.append(Job("C18.period.struct", "l1/c18_period.c", backend="cadical",
                  symbolic=["rate (uint32_t, full width)", "burst (uint64_t, full width)",
                            "earlier configuration present or not, its period / burst / tokens",
                            "module state (IDLE/RUNNING/PAUSED/STOPPED)", "result of the timer registration"],
                  bounds="one call from any earlier bucket configuration", timeout=300, **pcommon))
    for ent, pat in ACCOUNT[tier]:
        js.append(account_job(ent, pat, None))
    for rate, ent, pat in E2E[tier]:
        js.append(account_job(ent, pat, rate))
    for pre, extra in RECONF[tier]:
        d = {"VF_PRE": pre, "VF_RESET_MODULE": fl("reset_module", "mod.c")}
        d.update(extra)
        nm = "C18.reconf.%s" % PRE[pre] + ("." if extra else "") + "".join("%s%s" % (k[3:].lower(), v) for k, v in sorted(extra.items(), reverse=True))
        sym = ["rate (uint32_t, 0..10^9)", "burst (uint64_t, full width)", "period of the user's timer (uint64_t)"]
        if pre in (1, 2):
            sym += ["earlier configuration: period (1..10^9), burst, tokens <= burst (0 included)"]
        if pre == 3:
            sym += ["tokens left of the first configuration"]
        js.append(Job(nm, "l1/c18_reconf.c", sources=RECONF_SRC, extra_harness=["common/vf_defs.c"], remove=["m_ctx"],
                      defines=d, fsa=1024, layer="l1", backend="cadical", unwind=7, unwindset={"m_mem_unref": 3},
                      fp=RECONF_FP, noflags=["--conversion-check"], kf=["C18_tmrkey_shared"],
                      native={"sources": [s for s in RECONF_SRC if s != "Lib/core/mod.c"]}, symbolic=sym,
                      bounds="one reconfiguration from pre-state '%s'" % PRE[pre], timeout=600, mem_gb=12))
    return js


MANIFEST = {
    "text": "Bounded model checking of the real token-bucket code in three units: (a) m_mod_set_tokenbucket for every "
            "rate in uint32_t and every burst: period_ns * rate >= 10^9 (decided by cvc5 on the integer encoding), "
            "timer identity, rate 0, rejection above 10^9; (b) M_MOD_CONSUME_TOKEN through six entry points and the "
            "refill branch of push_evt from ANY bucket state (tokens <= burst assumed and re-established, so histories "
            "of any length are covered) over every K-step sequence of calls and ticks: successes <= burst + ticks, "
            "refused calls return -EAGAIN without effect, one token per refill tick up to burst, a throttled module "
            "acts again after a tick; (c) every reconfiguration (incl. with no tokens left, after a restart, with a "
            "user timer of any period registered) leaves exactly one refill timer keyed as the bucket remembers it, "
            "rate 0 leaves none, the user's timer is untouched; (d) whole core: bucket drained through the API, each token-consuming entry point refused with -EAGAIN without effect, exactly one call after one refill tick",
    "note": "rate * t is linked to ticks through (a) and (c): one refill timer whose period keeps it at or below "
            "`rate` ticks per second; the kernel timer, the real timer tree (ideal keyed set instead) and the source-"
            "dropping half of stop() are stubs listed in the evidence; sequences longer than K are covered by the "
            "inductive formulation only as far as the listed entry points go",
}
