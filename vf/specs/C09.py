"""C09 per-module event-source registry (src.c, ps.c subscriptions)."""
from vf.runner import Job, fl
from vf.fp import core_fp, SRC_DTOR, SUB_DTOR

KINDS = {1: ("fd", "fdcmp"), 2: ("tmr", "tmrcmp"), 3: ("sgn", "sgncmp"), 4: ("path", "pathcmp"),
         5: ("pid", "pidcmp"), 6: ("task", "taskcmp"), 7: ("thresh", "threshcmp")}

CMP_SRC = ["Lib/core/src.c", "Lib/core/mod.c", "Lib/core/main.c", "Lib/utils/utils.c", "Lib/utils/mem.c",
           "Lib/mem/mem.c", "Lib/structs/stack.c", "Lib/structs/queue.c"]


def cmp_jobs(tier):
    js = []
    for kind, (nm, cmpf) in KINDS.items():
        variants = [None]
        if nm == "thresh":
            variants = [0, 1, 2] if tier == "quick" else [0, 1, 2, 3]
        for v in variants:
            d = {"KIND": kind}
            name = "C09.cmp.%s" % nm
            if v is not None:
                d["VF_THR"] = v
                name += ".%s" % ("ms", "freq", "mixed", "full")[v]
            js.append(Job(name, "l1/c09_cmp.c", sources=CMP_SRC, extra_harness=["common/vf_defs.c"],
                          remove=["m_ctx", "fetch_ms"], fsa=1024, layer="l1", backend="cadical", defines=d,
                          unwind=5, fp=core_fp(mem_dtors=[SRC_DTOR], comps=[fl(cmpf, "src.c")]),
                          native={"sources": ["Lib/core/src.c", "Lib/core/mod.c", "Lib/core/main.c", "Lib/utils/mem.c",
                                              "Lib/mem/mem.c", "Lib/structs/stack.c", "Lib/structs/queue.c"]},
                          symbolic=["three keys of the kind at full width (within the documented parameter "
                                    "preconditions)", "secondary key fields (clock id, event masks, task function)",
                                    "priority / one-shot flags", "private descriptor numbers of polled sources"],
                          bounds="3 keys; comparator called in the insert, remove-by-key and one-shot-removal forms",
                          timeout=600, mem_gb=12))
    return js


META = {
    "functions": [],
    "stubs": [],
    "bounds": "",
    "outside": "",
    "assumptions": [],
}


def jobs(tier):
    return cmp_jobs(tier)


MANIFEST = {
    "text": "",
    "note": "",
}
