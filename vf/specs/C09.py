"""C09 per-module event-source registry (src.c, ps.c subscriptions)."""
import os
from vf.runner import Job, fl
from vf.fp import core_fp, SRC_DTOR, SUB_DTOR

KINDS = {1: ("fd", "fdcmp"), 2: ("tmr", "tmrcmp"), 3: ("sgn", "sgncmp"), 4: ("path", "pathcmp"),
         5: ("pid", "pidcmp"), 6: ("task", "taskcmp"), 7: ("thresh", "threshcmp")}

CMP_SRC = ["Lib/core/src.c", "Lib/core/mod.c", "Lib/core/main.c", "Lib/utils/utils.c", "Lib/utils/mem.c",
           "Lib/mem/mem.c", "Lib/structs/stack.c", "Lib/structs/queue.c"]


def cmp_jobs(tier):
    js = []
    for kind, (nm, cmpf) in KINDS.items():
        variants = [None]
        if nm == "thresh":
            variants = [0, 1, 2] if tier == "quick" else [0, 1, 2, 3]
        for v in variants:
            d = {"KIND": kind}
            if nm == "path" and tier == "quick":
                d["NK"] = 2         # three path keys: 120 s (measured), two: 15 s; the thorough tier runs three
            name = "C09.cmp.%s" % nm
            if v is not None:
                d["VF_THR"] = v
                name += ".%s" % ("ms", "freq", "mixed", "full")[v]
            js.append(Job(name, "l1/c09_cmp.c", sources=CMP_SRC, extra_harness=["common/vf_defs.c"],
                          remove=["m_ctx", "fetch_ms"], fsa=1024, layer="l1", backend="cadical", defines=d,
                          unwind=5, fp=core_fp(mem_dtors=[SRC_DTOR], comps=[fl(cmpf, "src.c")]),
                          native={"sources": ["Lib/core/src.c", "Lib/core/mod.c", "Lib/core/main.c", "Lib/utils/mem.c",
                                              "Lib/mem/mem.c", "Lib/structs/stack.c", "Lib/structs/queue.c"]},
                          symbolic=["three keys of the kind at full width (within the documented parameter "
                                    "preconditions)", "secondary key fields (clock id, event masks, task function)",
                                    "priority / one-shot flags", "private descriptor numbers of polled sources"],
                          bounds="3 keys; comparator called in the insert, remove-by-key and one-shot-removal forms",
                          timeout=600, mem_gb=12))
    return js


REG_SRC = ["Lib/core/src.c", "Lib/core/mod.c", "Lib/core/main.c", "Lib/utils/utils.c", "Lib/utils/mem.c",
           "Lib/mem/mem.c", "Lib/structs/stack.c", "Lib/structs/queue.c", "Lib/structs/map.c"]
# (bst.c is #included by the harness: it lays out pre-states directly)
MEMHOOK_FP = [(r"memhook\._free$", ["vf_free"]), (r"memhook\._calloc$", ["calloc"]), (r"memhook\._malloc$", ["malloc"]),
              (r"libmodule_logger\.", ["vf_log_noop"])]
H = "c09_reg.c"
# at most 3 sources per tree: tree loops are bounded lower than the loops over the 8 kinds; every bound is checked by
# an unwinding assertion
REG_UNWIND = {"m_mem_unref": 3, fl("find_min_subtree", "bst.c") + ".0": 4, fl("bst_find", "bst.c") + ".0": 4,
              fl("bst_next", "bst.c") + ".0": 4, "m_bst_clear.0": 4, fl("remove_node", "bst.c"): 2, fl("walk", H): 5,
              "m_mod_src_len.1": 4, fl("manage_srcs", "mod.c") + ".0": 4}
OPS = {0: "reg", 1: "dereg", 2: "stop", 3: "pause", 4: "resume", 5: "oneshot", 6: "count"}
SHAPES = {(0, 0): "empty", (1, 0): "one", (2, 0): "two-right", (2, 1): "two-left"}

# identifying values per kind: (k0, k1 greater, k1 smaller, {class: operation key}); "far" = the difference to k0
# does not fit an int, "inv" = violates the documented precondition.  Paths: first char * 256 + second char.
P = lambda a, b=None: ord(a) * 256 + (ord(b) if b else 0)
KEYS = {
    "fd": dict(k0=5, hi=9, lo=3, ops={"below": 1, "mid-r": 7, "mid-l": 4, "above": 20, "inv": "(-1)", "max": 2147483647}),
    "tmr": dict(k0=1000000000, hi=2000000000, lo=500, ops={"below": 1, "mid-r": 1500000000, "mid-l": 70000, "above": "60000000000ull",
                "inv": 0, "far32": "(1000000000ull+(1ull<<32))", "far31": "(1000000000ull+(1ull<<31))", "max": "18446744073709551615ull"}),
    "sgn": dict(k0=10, hi=15, lo=2, ops={"below": 1, "mid-r": 12, "mid-l": 9, "above": 64, "inv": 0, "far31": "(10u+(1u<<31))",
                "max": "4294967295u"}),
    "path": dict(k0=P("m", "m"), hi=P("t"), lo=P("a", "z"), ops={"below": P("A"), "mid-r": P("m", "n"), "mid-l": P("b"), "above": P("z", "z"),
                 "inv": 0, "prefix": P("m"), "hibit": "(200*256+201)"}),
    "pid": dict(k0=100, hi=4000, lo=7, ops={"below": 1, "mid-r": 101, "mid-l": 99, "above": 4194304, "inv": 0, "neg": "(-5)", "max": 2147483647}),
    "task": dict(k0=0, hi=7, lo="(-7)", ops={"below": "(-100)", "mid-r": 3, "mid-l": "(-1)", "above": 100, "far31": "2147483647",
                 "min": "(-2147483647-1)"}),
    "thresh": dict(k0=5000, hi=60000, lo=10, ops={"below": 1, "mid-r": 5001, "mid-l": 4999, "above": "(1ull<<39)", "inv": 0,
                   "far32": "(5000ull+(1ull<<32))"}),
}


def reg_job(kind, npre, shape, op, cls=None, k2=None, extra=None, w=None, timeout=int(os.environ.get('C09_TIMEOUT', 600))):
    nm, cmpf = KINDS[kind]
    ks = KEYS[nm]
    d = {"KIND": kind, "NPRE": npre, "SHAPE": shape, "OP": op, "VF_MANAGE_SRCS": fl("manage_srcs", "mod.c"),
         "VF_CREATE_SRC": fl("create_src", "src.c"), "K0": ks["k0"], "K1": ks["hi"] if shape == 0 else ks["lo"]}
    name = "C09.reg.%s.%s.%s" % (nm, SHAPES[(npre, shape)], OPS[op])
    if cls is not None:
        d["K2"] = k2
        name += "." + cls
    if w is not None:
        d["W"] = w
        name += ".w%d" % w
    d.update(extra or {})
    return Job(name, "l1/c09_reg.c", sources=REG_SRC, extra_harness=["common/vf_defs.c"],
               remove=["m_ctx", "fetch_ms"], fsa=1024, layer="l1", backend="cadical", defines=d,
               unwind=10, unwindset=REG_UNWIND, common_fp=False,
               fp=core_fp(mem_dtors=[SRC_DTOR], comps=[fl(cmpf, "src.c")], extra=MEMHOOK_FP),
               kf=["C09_eexist_owner"] if (kind == 1 and op == 0 and npre > 0) else [],
               native={"sources": ["Lib/core/main.c", "Lib/utils/mem.c", "Lib/mem/mem.c", "Lib/structs/stack.c",
                                   "Lib/structs/queue.c", "Lib/structs/map.c"]},
               symbolic=["module state (IDLE/RUNNING/PAUSED/STOPPED)", "flag words of every stored source and of the "
                         "call (any priority combination, AUTOFREE, ONESHOT, FD_AUTOCLOSE, TMR_ABSOLUTE)", "token count",
                         "secondary key fields (clock id, event "
                         "masks, task function)", "private descriptor numbers", "which sources are library-internal"],
               bounds="pre-state %s (%d sources), one %s, key class %s (identifying values are per-job constants)"
                      % (SHAPES[(npre, shape)], npre, OPS[op], cls),
               timeout=timeout, mem_gb=12)  # REGJOB


def op_keys(nm, npre, shape):
    """(class, K2, extra defines) for register / deregister against the given pre-state"""
    ks = KEYS[nm]
    out = []
    if npre >= 1:
        out.append(("eq0", ks["k0"], None))
    if npre == 2:
        out.append(("eq1", ks["hi"] if shape == 0 else ks["lo"], None))
    for c, v in ks["ops"].items():
        if (c == "mid-r" and (npre, shape) == (2, 1)) or (c == "mid-l" and (npre, shape) != (2, 1)):
            continue
        out.append((c, v, None))
    if nm != "fd":
        out.append(("null", ks["ops"]["below"], {"BAD": 1}))
    if nm == "path":
        out.append(("nullpath", ks["ops"]["below"], {"BAD": 2}))
        out.append(("noevents", ks["ops"]["below"], {"BAD": 3}))
    if nm == "task":
        out.append(("nullfn", ks["ops"]["below"], {"BAD": 2}))
    if nm == "thresh":      # the pair identifies: fractions, and same sum but different pair
        out.append(("frac", ks["k0"], {"F2": 1}))
        out.append(("freq-only", 0, {"F2": 5}))
        out.append(("same-sum", 0, {"F2": 2 * ks["k0"]}))
    return out


NOSEARCH_CLS = ("inv", "null", "nullpath", "noevents", "nullfn")
PATH_NOTE = ("path kind: operations that search a non-empty tree are not run in the registry unit - the path pointer "
             "round-trips through the bytes of the ref-counted block (memcpy in create_src), CBMC does not recover "
             "the pointer, strcmp answers stay symbolic and the node found becomes a symbolic pointer (measured: no "
             "verdict in 600 s).  The path comparator and create_src's path case are quantified in C09.cmp.path in "
             "all three call forms; register_mod_src / deregister_mod_src / the tree are kind-independent code that "
             "the other six kinds exercise")
QUICK_WIDE = ("tmr", "task")      # kinds that get the left-leaning shape and the one-source pre-state in the quick tier
QUICK_CLS = ("eq0", "eq1", "mid-r", "mid-l", "far32", "far31", "frac", "same-sum", "prefix")


def reg_jobs(tier):
    js = []
    for kind, (nm, _) in KINDS.items():
        for (npre, shape) in SHAPES:
            two = npre == 2
            for op in OPS:
                if op in (0, 1):
                    for cls, k2, extra in op_keys(nm, npre, shape):
                        if nm == "path" and npre > 0 and cls not in NOSEARCH_CLS:
                            continue        # see PATH_NOTE
                        if tier == "quick":
                            if npre == 2 and cls not in QUICK_CLS:
                                continue
                            if npre == 2 and ((op == 0 and cls == "eq0") or (op == 1 and cls.startswith("far"))
                                              or (nm == "tmr" and cls == "far31")):
                                continue
                            if npre == 1 and cls not in ("inv", "null", "nullpath", "nullfn") \
                                    and not (cls == "above" and nm in QUICK_WIDE):
                                continue
                            if npre == 0 and not (op == 0 and cls == "below"):
                                continue
                            if (npre, shape) == (2, 1) and not (nm in QUICK_WIDE and (op, cls) in ((0, "mid-l"), (1, "eq1"))):
                                continue
                        js.append(reg_job(kind, npre, shape, op, cls, k2, extra))
                elif op == 5:
                    if npre == 0:
                        continue
                    for w in range(npre):
                        if nm == "path":
                            continue        # see PATH_NOTE
                        if tier == "quick" and not (two and (shape == 0 or (w == 1 and nm in QUICK_WIDE))):
                            continue
                        js.append(reg_job(kind, npre, shape, op, w=w))
                else:
                    if npre == 0 and op != 6:
                        continue
                    if tier == "quick" and (npre, shape) != (2, 0):
                        continue
                    js.append(reg_job(kind, npre, shape, op))
    return js


SUB_SRC = REG_SRC + ["Lib/core/ps.c", "Lib/structs/list.c"]
TOPICS = {0: "same0", 1: "same1", 2: "new", 3: "null"}


def sub_job(npre, op, topic=None, dup=False, timeout=600):
    d = {"KIND": 0, "NPRE": npre, "OP": op, "VF_MANAGE_SRCS": fl("manage_srcs", "mod.c"),
         "VF_CREATE_SRC": fl("create_src", "src.c"), "VF_RESET_MODULE": fl("reset_module", "mod.c")}
    name = "C09.sub.n%d.%s" % (npre, {0: "subscribe", 1: "unsubscribe", 2: "stop", 6: "count"}[op])
    if topic is not None:
        d["TOPIC"] = topic
        name += "." + TOPICS[topic]
    if dup:
        d["VF_DUP"] = None
        name += ".dup"
    return Job(name, "l1/c09_reg.c", sources=SUB_SRC, extra_harness=["common/vf_defs.c"],
               remove=["m_ctx", "fetch_ms"], fsa=1024, layer="l1", backend="cadical", defines=d,
               src_defines={"FEDEDP_LIBMODULE_VERIF_MAP_SIZE": 4},
               unwind=12, unwindset={k: v for k, v in REG_UNWIND.items() if not k.endswith("_walk")}, common_fp=False,
               fp=core_fp(mem_dtors=[SRC_DTOR, SUB_DTOR], comps=[fl("fdcmp", "src.c")], extra=MEMHOOK_FP),
               native={"sources": ["Lib/core/main.c", "Lib/utils/mem.c", "Lib/mem/mem.c", "Lib/structs/stack.c",
                                   "Lib/structs/queue.c", "Lib/structs/map.c", "Lib/structs/list.c", "Lib/core/ps.c"]},
               symbolic=["module state (4)", "flag word of the call (any priority combination, AUTOFREE, ONESHOT)",
                         "AUTOFREE bit of every stored subscription", "token count"],
               bounds="pre-state: %d subscriptions (topics are per-job constants, the call spells its topic in "
                      "another buffer), one operation; subscription table of 4 slots (hook)" % npre,
               timeout=timeout, mem_gb=12)


def sub_jobs(tier):
    js = []
    for npre in (0, 1, 2):
        for op in (0, 1):
            for topic in TOPICS:
                if topic in (0, 1) and topic >= npre:
                    continue
                if tier == "quick" and ((npre == 0 and topic == 3) or (npre == 1 and topic != 0)):
                    continue
                js.append(sub_job(npre, op, topic))
                if op == 0 and topic in (0, 1) and (tier != "quick" or npre == 2):
                    js.append(sub_job(npre, op, topic, dup=True))
                if op == 1 and topic in (0, 1) and tier != "quick":
                    js.append(sub_job(npre, op, topic, dup=True))
        if npre:
            js.append(sub_job(npre, 2))
        js.append(sub_job(npre, 6))
    return js


META = {
    "functions": ["src.c: m_mod_src_register_{fd,tmr,sgn,path,pid,task,thresh}, m_mod_src_deregister_*, register_mod_src, "
                  "deregister_mod_src, create_src (+ fill_src), init_src, fdcmp/tmrcmp/sgncmp/pathcmp/pidcmp/taskcmp/"
                  "threshcmp, src_priv_dtor, start_task, m_mod_src_len",
                  "ps.c: m_mod_ps_subscribe, m_mod_ps_unsubscribe, subscribtions_dtor",
                  "mod.c: manage_srcs (pause/resume/stop), reset_module (subscriptions at stop), m_mod_is",
                  "bst.c: m_bst_new/insert/remove/len, iterator, remove_node (registry unit)", "map.c (subscriptions)",
                  "mem.c: m_mem_new/ref/unref", "main.c: mem_dtor", "utils: str_not_empty, mem_strdup"],
    "stubs": ["poll_set_new_evt = returns 0, counts ADD/RM per source, stores / resets the private descriptor like epoll.c",
              "m_thpool_new / m_thpool_add (below the real start_task) = count", "close() = count per descriptor number",
              "dup() = unreachable (asserted)", "regcomp/regfree = accept everything", "m_ctx() = the harness context",
              "fetch_ms = arbitrary clock", "memhook._free = counting wrapper around free()",
              "c09_cmp.c only: the search tree is a mock that calls the comparator exactly as bst.c:bst_find does "
              "(comp(data, node->userptr)) against every stored source and records the signs"],
    "bounds": "comparator contract: 3 keys per kind at full width (paths: strings of 1..2 arbitrary chars; 2 keys in the "
              "quick tier), thresholds: inactive_ms < 2^40 with activity_freq 0 / integer activity_freq <= 2^20 with "
              "inactive_ms 0 / both classes mixed / (thorough) any inactive_ms with any finite activity_freq >= 0. "
              "Registry unit: pre-states of 0..2 sources of one kind (all tree shapes), one operation per job, the "
              "identifying values are per-job constants, one job per order class (equal to either stored key, below, "
              "between, above, difference >= 2^31 / 2^32, fraction apart, invalid, NULL); subscriptions: 0..2 stored, "
              "table of 4 slots",
    "outside": "trees of more than 3 sources and removal of a node with two children (C11); symbolic identifying values "
               "through the real tree (measured: no verdict, see c09_reg.c) - the link is: contract for all values "
               "(c09_cmp.c) + tree correctness for any comparator satisfying it (C11); M_SRC_DUP for descriptors "
               "(the stored key is the duplicate, unknown to the caller) and for paths; NaN / negative activity_freq; "
               "failure of the poll layer (register_mod_src returns -errno but keeps the source); regular-expression "
               "matching of topics; loop restart (whole-core scenarios); allocation failure. " + PATH_NOTE,
    "assumptions": ["bst.c calls the comparator only as comp(data, node->userptr) in bst_find (read off the source; C11 "
                    "verifies bst.c itself)",
                    "a polled non-descriptor source holds an arbitrary private descriptor >= 0 in fd_src.fd"],
}


def jobs(tier):
    from vf.l2 import l2_job
    js = []
    for route in ((0, 1, 3) if tier == "quick" else (0, 1, 2, 3, 4)):
        js.append(l2_job("C09.stopdrop.r%d" % route, "l2/c09_stopdrop.c", defines={"ROUTE": route},
                         symbolic=["errno left by callbacks (int)", "quit code (uint8)"],
                         bounds="whole core: fd + timer + signal source + subscription, route %d into STOPPED" % route, unwind=13))
    for kind in (0, 1):
        for rounds in ((2,) if tier == "quick" else (1, 2, 3)):
            js.append(l2_job("C09.rearm.%s.r%d" % (("tmr", "sub")[kind], rounds), "l2/c09_rearm.c", defines={"KIND": kind, "ROUNDS": rounds},
                             symbolic=["errno left by callbacks (int)"],
                             bounds="whole core: a one-shot %s re-armed from its own callback %d times" % (("timer", "subscription")[kind], rounds), unwind=13))
    return cmp_jobs(tier) + reg_jobs(tier) + sub_jobs(tier) + js


MANIFEST = {
    "text": "Bounded model checking of the real source registry (src.c, ps.c subscriptions, manage_srcs/reset_module of "
            "mod.c) with the real search tree, map and ref-counted blocks: (a) per kind, the real comparator reached "
            "through the real register/deregister wrappers and create_src answers as ONE strict weak order whose "
            "equivalence is key equality in all three forms the core calls it (insertion of a new source, lookup by "
            "key, one-shot removal by the source itself) for three symbolic keys at full width; (b) from every registry "
            "state of 0..2 sources one public operation with symbolic flags / module state / token count behaves as a "
            "set operation: new key inserted and polled iff RUNNING, present key -EEXIST without touching the present "
            "source, bad parameters rejected without trace, present key removed with exactly its destructor effects "
            "(AUTOFREE once, FD_AUTOCLOSE once, poll removal iff RUNNING), absent key fails without effect, tasks "
            "cannot be deregistered, pause/resume keep the set, stop empties it, m_mod_src_len equals the set sizes "
            "with library-internal sources excluded; (c) the same for topic subscriptions incl. in-place update; whole core: a one-shot source is already out of the set inside its own callback (count, key free, re-arm survives), unsubscribing an absent topic with one subscription present removes nothing",
    "note": "poll layer, thread pool, close(), regcomp and m_ctx() are stubs (listed in evidence); identifying values in "
            "the registry unit are per-job constants per order class (arbitrary values are quantified in the contract "
            "unit and composed with C11); path sources: contract unit and non-searching operations only",
}
