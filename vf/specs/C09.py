"""C09 per-module event-source registry (src.c, ps.c subscriptions)."""
from vf.runner import Job, fl
from vf.fp import core_fp, SRC_DTOR, SUB_DTOR

KINDS = {1: ("fd", "fdcmp"), 2: ("tmr", "tmrcmp"), 3: ("sgn", "sgncmp"), 4: ("path", "pathcmp"),
         5: ("pid", "pidcmp"), 6: ("task", "taskcmp"), 7: ("thresh", "threshcmp")}

CMP_SRC = ["Lib/core/src.c", "Lib/core/mod.c", "Lib/core/main.c", "Lib/utils/utils.c", "Lib/utils/mem.c",
           "Lib/mem/mem.c", "Lib/structs/stack.c", "Lib/structs/queue.c"]


def cmp_jobs(tier):
    js = []
    for kind, (nm, cmpf) in KINDS.items():
        variants = [None]
        if nm == "thresh":
            variants = [0, 1, 2] if tier == "quick" else [0, 1, 2, 3]
        for v in variants:
            d = {"KIND": kind}
            name = "C09.cmp.%s" % nm
            if v is not None:
                d["VF_THR"] = v
                name += ".%s" % ("ms", "freq", "mixed", "full")[v]
            js.append(Job(name, "l1/c09_cmp.c", sources=CMP_SRC, extra_harness=["common/vf_defs.c"],
                          remove=["m_ctx", "fetch_ms"], fsa=1024, layer="l1", backend="cadical", defines=d,
                          unwind=5, fp=core_fp(mem_dtors=[SRC_DTOR], comps=[fl(cmpf, "src.c")]),
                          native={"sources": ["Lib/core/src.c", "Lib/core/mod.c", "Lib/core/main.c", "Lib/utils/mem.c",
                                              "Lib/mem/mem.c", "Lib/structs/stack.c", "Lib/structs/queue.c"]},
                          symbolic=["three keys of the kind at full width (within the documented parameter "
                                    "preconditions)", "secondary key fields (clock id, event masks, task function)",
                                    "priority / one-shot flags", "private descriptor numbers of polled sources"],
                          bounds="3 keys; comparator called in the insert, remove-by-key and one-shot-removal forms",
                          timeout=600, mem_gb=12))
    return js


REG_SRC = ["Lib/core/src.c", "Lib/core/mod.c", "Lib/core/main.c", "Lib/utils/utils.c", "Lib/utils/mem.c",
           "Lib/mem/mem.c", "Lib/structs/stack.c", "Lib/structs/queue.c", "Lib/structs/map.c"]
# (bst.c is #included by the harness: it lays out pre-states directly)
MEMHOOK_FP = [(r"memhook\._free$", ["vf_free"]), (r"memhook\._calloc$", ["calloc"]), (r"memhook\._malloc$", ["malloc"]),
              (r"libmodule_logger\.", ["vf_log_noop"])]
H = "c09_reg.c"
# at most 3 sources per tree: tree loops are bounded lower than the loops over the 8 kinds; every bound is checked by
# an unwinding assertion
REG_UNWIND = {"m_mem_unref": 3, fl("find_min_subtree", "bst.c") + ".0": 4, fl("bst_find", "bst.c") + ".0": 4,
              fl("bst_next", "bst.c") + ".0": 4, "m_bst_clear.0": 4, fl("remove_node", "bst.c"): 2, fl("walk", H): 5,
              "m_mod_src_len.1": 4, fl("manage_srcs", "mod.c") + ".0": 4}
OPS = {0: "reg", 1: "dereg", 2: "stop", 3: "pause", 4: "resume", 5: "oneshot", 6: "count"}
SHAPES = {(0, 0): "empty", (1, 0): "one", (2, 0): "two-right", (2, 1): "two-left"}


def reg_job(kind, npre, shape, op, thr=None, timeout=600):
    nm, cmpf = KINDS[kind]
    d = {"KIND": kind, "NPRE": npre, "SHAPE": shape, "OP": op, "VF_MANAGE_SRCS": fl("manage_srcs", "mod.c"),
         "VF_CREATE_SRC": fl("create_src", "src.c")}
    name = "C09.reg.%s.%s.%s" % (nm, SHAPES[(npre, shape)], OPS[op])
    if thr is not None:
        d["VF_THR"] = thr
        name += ".%s" % ("ms", "freq")[thr]
    return Job(name, "l1/c09_reg.c", sources=REG_SRC, extra_harness=["common/vf_defs.c"],
               remove=["m_ctx", "fetch_ms"], fsa=1024, layer="l1", backend="cadical", defines=d,
               unwind=10, unwindset=REG_UNWIND, common_fp=False,
               fp=core_fp(mem_dtors=[SRC_DTOR], comps=[fl(cmpf, "src.c")], extra=MEMHOOK_FP),
               kf=["C09_eexist_owner"] if (kind == 1 and op == 0 and npre > 0) else [],
               native={"sources": ["Lib/core/main.c", "Lib/utils/mem.c", "Lib/mem/mem.c", "Lib/structs/stack.c",
                                   "Lib/structs/queue.c", "Lib/structs/map.c"]},
               symbolic=["pre-state keys (inside the order the tree shape needs) and the operation's key at full "
                         "width incl. invalid values / NULL", "module state (4)", "flag words of every source and of "
                         "the call", "token count", "private descriptor numbers", "which source fires / is internal"],
               bounds="pre-state: %s (%d sources of the kind), one operation: %s" % (SHAPES[(npre, shape)], npre, OPS[op]),
               timeout=timeout, mem_gb=12)


def reg_jobs(tier):
    js = []
    for kind, (nm, _) in KINDS.items():
        thrs = [0, 1] if nm == "thresh" else [None]
        for thr in thrs:
            for (npre, shape) in SHAPES:
                for op in OPS:
                    if npre == 0 and op not in (0, 1, 6):
                        continue
                    if tier == "quick":
                        # quick: the two-source shapes for every operation, smaller pre-states for register / deregister
                        if npre == 1 and op not in (0, 1):
                            continue
                        if npre == 0 and op != 0:
                            continue
                        if (npre, shape) == (2, 1) and op in (2, 3, 4, 6):
                            continue
                    js.append(reg_job(kind, npre, shape, op, thr))
    return js


META = {
    "functions": [],
    "stubs": [],
    "bounds": "",
    "outside": "",
    "assumptions": [],
}


def jobs(tier):
    return cmp_jobs(tier) + reg_jobs(tier)


MANIFEST = {
    "text": "",
    "note": "",
}
