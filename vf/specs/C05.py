"""C05 string-keyed open-addressing map (Lib/structs/map.c): dictionary semantics for every key set and history."""
from vf.runner import Job, fl

SRC = ["Lib/structs/map.c", "Lib/utils/mem.c"]
HASH = fl("hashmap_hash_string", "map.c")
REHASH = fl("hashmap_rehash", "map.c")
# memhook is set by the harnesses to their logging allocator (key-buffer log, typed arenas for tables)
FP = [(r"memhook\._free$", ["vf_free"]), (r"memhook\._calloc$", ["vf_calloc"]), (r"memhook\._malloc$", ["vf_malloc"]),
      (r"libmodule_logger\.", ["vf_log_noop"]), (r"dtor$", ["vf_dtor"])]
FP_CB = FP + [(r"::fn$", ["vf_cb"])]
STR = {"strcmp.0": 3, "strlen.0": 3}          # keys are 1-character strings; the bound is checked (unwinding assertions)

SYM_STATE = ["table contents (which key in which slot, which slots empty)", "hash home of every key (full size_t)",
             "key ownership mode (none / M_MAP_KEY_AUTOFREE / M_MAP_KEY_DUP)", "M_MAP_VAL_ALLOW_UPDATE",
             "destructor installed"]

META = {
    "functions": ["map.c: m_map_new, m_map_put, hashmap_put, hashmap_rehash, hashmap_entry_find, hashmap_calc_index, "
                  "hashmap_table_min_size_calc, m_map_get, m_map_contains, m_map_len, m_map_remove, clear_elem, "
                  "m_map_itr_new, m_map_itr_next, m_map_itr_remove, m_map_itr_get_key, m_map_itr_get_data, "
                  "m_map_itr_set_data, m_map_iterate, m_map_clear, m_map_free", "utils/mem.c: mem_strdup"],
    "stubs": ["hashmap_hash_string (static, body cut) = homes[key identity], an arbitrary function chosen by the solver "
              "(the real djb2+murmur hash is one instance; it is used unchanged by /verif/repro/C05_*.c)",
              "hashmap_rehash = assume(false) in the step/iterator jobs only (growth is the grow jobs' business)",
              "memhook = harness allocator: malloc/calloc/free plus a log of key buffers; tables and the map object "
              "come from static typed arenas, each handed out once and zeroed (calloc contract)",
              "libmodule_logger = empty variadic"],
    "bounds": "quick: table size 4, 3 keys (single-character strings), one operation / one whole iteration from an "
              "arbitrary table under the representation invariant; growth 4->8 with 2 or 3 entries; API scripts of 2 "
              "operations from m_map_new with MAP_SIZE_DEFAULT = 4 (verification hook); remove from a full-load table of size 8 (6 "
              "entries, keys numbered in slot order, caller-owned keys).  thorough: additionally table size 8 with keys "
              "numbered in slot order - get/contains/len/put/remove with 6 keys, clear/free and the iterator with 4, "
              "m_map_iterate with 3 - growth 4->8 with 4 keys and 8->16 from 4 entries, scripts of 3 operations.  "
              "At most one growth per put (a second one would be reported).",
    "outside": "table sizes other than 4/8 (->8/16) in the solver runs - the shipped size 256 only through the native "
               "reproducers; more than 3-4 distinct keys; keys longer than one character (the hash is abstracted, "
               "strcmp is exercised on 1-character strings); allocation failure; put/remove of OTHER entries during an "
               "iteration (documented as an error by map.c); whether m_map_itr_set_data must run the destructor for "
               "the overwritten value (the text does not say; 0 or 1 calls accepted); who owns the key buffer of an "
               "update/refused put in an AUTOFREE-without-DUP map",
    "assumptions": ["pre-state of the step/iterator/growth jobs = representation invariant of map_common.h (exactly "
                    "the tables puts can build at that size; asserted again after every operation; established from "
                    "m_map_new by the script jobs)",
                    "script jobs: map.c compiled with -DFEDEDP_LIBMODULE_VERIF_MAP_SIZE=4 (the repository's add-only hook: "
                    "MAP_SIZE_DEFAULT = 4 instead of 256; a symbolic 256-slot table did not finish)",
                    "table size 8 jobs: WLOG the i-th occupied slot holds key i - key identities are interchangeable "
                    "(a key is its home homes[id], an arbitrary value; the operation's key is any of the NK); the size 4 "
                    "jobs do not use this reduction",
                    "values handed to the map are non-NULL and distinct per entry; the caller keeps a key buffer "
                    "unchanged while the map refers to it (M_MAP_KEY_DUP excepted: the buffer is scribbled, checked)"],
}


def _job(name, harness, defines, remove, tier, sym, bounds, unwind, fp=FP, **kw):
    return Job(name, harness, sources=SRC, export_extra=["Lib/structs/map.c"], extra_harness=["common/vf_defs.c"],
               defines=defines, remove=remove, fp=fp, common_fp=False, unwind=unwind, unwindset=dict(STR),
               symbolic=sym, bounds=bounds, mem_gb=12, object_bits=10, native={"sources": ["Lib/utils/mem.c"]},
               timeout=600 if tier == "quick" else 3000, **kw)


SYM_NOTE = "; WLOG the i-th occupied slot holds key i (key identities are interchangeable)"


def _step_job(tier, nm, ts, nk, sym=False, cnt=None, keymode=None):
    """one job of map_step.c (nm in obs/remove/put/clearfree) or map_itr_step.c (itr/iterate)"""
    d = {"TS": ts, "NK": nk, "VF_NO_REHASH": None}
    name = "C05.%s%s.T%d" % ("" if nm in ("itr", "iterate") else "step.", nm, ts)
    b = "table size %d, %d keys, growth paths cut" % (ts, nk)
    if sym:
        d["VF_SYM_ORDER"] = None
        name += ".N%d" % nk
        b += SYM_NOTE
    if cnt is not None:
        d["CNT"] = cnt
        name += ".C%d" % cnt
        b += "; exactly %d entries" % cnt
    if keymode is not None:
        d["KEYMODE"] = keymode
        name += ".K%d" % keymode
        b += "; key ownership mode %d" % keymode
    un = ts + 7
    if nm == "itr":
        return _job(name, "l0/map_itr_step.c", dict(d, OPS=1), [HASH, REHASH], tier,
                    SYM_STATE + ["edit at every iterator position (none / m_map_itr_remove / m_map_itr_set_data)"], b, un)
    if nm == "iterate":
        return _job(name, "l0/map_itr_step.c", dict(d, OPS=2), [HASH, REHASH], tier,
                    SYM_STATE + ["set of keys whose entry the callback removes"], b, un, fp=FP_CB)
    ops, leak = {"obs": (0x07, False), "remove": (0x08, False), "put": (0x10, False), "clearfree": (0x60, True)}[nm]
    return _job(name, "l0/map_step.c", dict(d, OPS=ops), [HASH, REHASH], tier,
                SYM_STATE + ["operation", "key", "value (new, or the one the key already has)"], b, un, leak=leak)


def _grow_job(tier, ts, nk, cnt, sym=False):
    d = {"TS": ts, "NK": nk, "CNT": cnt}
    if ts <= cnt + cnt // 3:
        d["EXPECT_GROWN"] = None
    b = "table size %d -> %d, %d keys, %d entries before the put" % (ts, 2 * ts, nk, cnt)
    if sym:
        d["VF_SYM_ORDER"] = None
        b += SYM_NOTE
    # measured: CaDiCaL decides the load-growth query with 4 keys ~2x faster than MiniSat (206-790 s -> 130-245 s); it is
    # slower on the probe-exhaustion growth queries and on the scripts, which stay on MiniSat
    return _job("C05.grow.T%d.N%d.C%d" % (ts, nk, cnt), "l0/map_grow.c", d, [HASH], tier,
                SYM_STATE + ["key", "value"], b, 2 * ts + 6, backend="cadical" if (nk >= 4 and "EXPECT_GROWN" in d) else "minisat")


def _script_job(tier, L, keymode=None):
    d = {"NK": 3, "L": L}
    if keymode is not None:
        d["KEYMODE"] = keymode
    return _job("C05.script.L%d%s" % (L, "" if keymode is None else ".K%d" % keymode), "l0/map_script.c", d, [HASH], tier,
                ["operation[0..L)", "key[0..L)", "value", "hash home of every key", "M_MAP_VAL_ALLOW_UPDATE",
                 "destructor installed"] + (["key ownership mode"] if keymode is None else []),
                "L=%d operations from m_map_new (MAP_SIZE_DEFAULT = 4 through the verification hook), 3 keys, growing "
                "paths cut" % L, 14, leak=True, src_defines={"FEDEDP_LIBMODULE_VERIF_MAP_SIZE": 4})


def jobs(tier):
    # table size 4, 3 keys, nothing fixed: every job below is fully symbolic in the pre-state
    js = [_step_job(tier, nm, 4, 3) for nm in ("obs", "remove", "put", "clearfree", "itr", "iterate")]
    js += [_grow_job(tier, 4, 3, 3), _grow_job(tier, 4, 3, 2)]
    js += [_script_job(tier, 2)]
    # clusters longer than table_size/2 only exist from table size 8 with 5-6 entries: remove from a table at full
    # load (6 of 8 slots), caller-owned keys
    js += [_step_job(tier, "remove", 8, 6, sym=True, cnt=6, keymode=0)]
    if tier == "thorough":
        js += [_step_job(tier, nm, 8, 6, sym=True) for nm in ("obs", "remove", "put")]
        js += [_step_job(tier, "clearfree", 8, 4, sym=True), _step_job(tier, "itr", 8, 4, sym=True),
               _step_job(tier, "iterate", 8, 3, sym=True)]
        js += [_grow_job(tier, 4, 4, 3), _grow_job(tier, 4, 4, 2), _grow_job(tier, 8, 5, 4, sym=True)]
        js += [_script_job(tier, 3, k) for k in (0, 1, 2)]
    return js


PARALLEL = {"quick": 6, "thorough": 8}

MANIFEST = {
    "text": 'Bounded model checking of all of Lib/structs/map.c with the hash replaced by an arbitrary function of the key: inductive step from an ARBITRARY table satisfying the representation invariant (table size 4 quick / 8 thorough, 3-4 keys, every collision/wrap-around pattern, every flag combination, destructor on/off) through one get/contains/len/remove/put/clear/free, one whole iterator walk with a solver-chosen edit (none/remove/set) at every position, one m_map_iterate with a callback removing a solver-chosen key set, one put that grows the table; plus API scripts from m_map_new that establish the invariant. Oracle: present/value model through the public API, destructor log by value identity, key-buffer allocation log, ghost visited set',
    "note": 'hash abstracted to homes[key] (real hash only in the native reproducers); sizes 4/8 only (shipped 256 natively); scripts run with MAP_SIZE_DEFAULT = 4 (verification hook); m_map_itr_set_data destructor semantics and key-buffer ownership on AUTOFREE-only update/refusal are not asserted (text silent); allocation failure outside',
}
