"""C05 string-keyed map (draft)."""
from vf.runner import Job, fl

SRC = ["Lib/structs/map.c", "Lib/utils/mem.c"]
HASH = fl("hashmap_hash_string", "map.c")
REHASH = fl("hashmap_rehash", "map.c")
FP = [(r"memhook\._free$", ["vf_free"]), (r"memhook\._calloc$", ["vf_calloc"]), (r"memhook\._malloc$", ["vf_malloc"]),
      (r"libmodule_logger\.", ["vf_log_noop"]), (r"dtor", ["vf_dtor"])]
META = {}

def jobs(tier):
    js = []
    for nm, ops in (("obs", 0x07), ("remove", 0x08), ("put", 0x10), ("clear", 0x20)):
        js.append(Job("C05.step.%s.T4" % nm, "l0/map_step.c", sources=SRC, extra_harness=["common/vf_defs.c"],
                  defines={"TS": 4, "NK": 3, "VF_NO_REHASH": None, "OPS": ops}, remove=[HASH, REHASH], export_extra=["Lib/structs/map.c"], fp=FP, common_fp=False,
                  unwind=10, symbolic=["x"], mem_gb=12, timeout=600))
    for nm, ops in (("itr", 0x1), ("iterate", 0x2)):
        js.append(Job("C05.%s.T4" % nm, "l0/map_itr_step.c", sources=SRC, extra_harness=["common/vf_defs.c"],
                  defines={"TS": 4, "NK": 3, "VF_NO_REHASH": None, "OPS": ops}, remove=[HASH, REHASH], export_extra=["Lib/structs/map.c"], fp=FP + [(r"::fn$", ["vf_cb"])], common_fp=False,
                  unwind=10, symbolic=["x"], mem_gb=12, timeout=600))
    js.append(Job("C05.grow.T4", "l0/map_grow.c", sources=SRC, extra_harness=["common/vf_defs.c"],
                  defines={"TS": 4, "NK": 4}, remove=[HASH], export_extra=["Lib/structs/map.c"], fp=FP, common_fp=False,
                  unwind=14, symbolic=["x"], mem_gb=12, timeout=600, leak=True))
    return js
MANIFEST = {"text": "", "note": ""}
