"""C11 ordered set (bst.c)."""
from vf.runner import Job

L0_SRC = ["Lib/utils/mem.c"]
NATIVE = {"sources": L0_SRC}

META = {
    "functions": ["bst.c: all (m_bst_new/insert/remove/find/iterate/traverse/itr_new/itr_next/itr_remove/itr_get_data/"
                  "clear/free/len, insert_node, remove_node, find_min_subtree, bst_find, bst_next, traverse_*, ptrcmp)"],
    "stubs": ["libmodule_logger = empty variadic", "memhook = {malloc, calloc, free}"],
    "bounds": "step: EVERY binary-tree shape of n <= N nodes (N=3 quick: 9 shapes, N=4 thorough: 23 shapes; one job per "
              "shape, from 3 nodes on per shape x operation group), arbitrary elements satisfying the search-tree "
              "order, one operation (insert / remove / traverse any order with stop / iterate / iterator walk removing "
              "any subset of positions / clear / free / none) + observation suffix; after insert / remove the suffix "
              "checks the parent links directly instead of walking the iterator (thorough: also the iterator walk, for "
              "n = 3).  script: every operation script of length L from empty (L=3 quick, L=4 thorough) over the "
              "order-isomorphism classes of the arguments (equal to j-th key via same / other pointer, or inside gap g) "
              "- narrower than the planned L=4/5-6 with symbolic keys, which does not finish (one 3-insert sequence "
              "with symbolic keys and one iterator walk = 197 s).  ptrcmp: any three pointers less than 2^54 bytes "
              "apart inside one object",
    "outside": "trees of more than N nodes in the pre-state of a step (after an insert the suffix sees N+1), scripts "
               "longer than L, pointers 2^54 bytes or more apart, allocation failure, callbacks that modify the set, "
               "use of an iterator across other modifications of the set",
    "assumptions": ["pre-state of the step harness = representation invariant of bst.c (tree shape, parent links, "
                    "search-tree order, len); every step re-establishes it (in-order == model, parent links, len), "
                    "the n=0 job starts from m_bst_new's own state, the script jobs reach their states through the API",
                    "comparator behaviour depends only on the relative order of the elements (the script harness "
                    "quantifies over relative orders with concrete keys; the step harness over arbitrary elements)",
                    "--no-signed-overflow-check: CBMC 6.11 reports 'arithmetic overflow on signed -' for ANY pointer "
                    "difference p - q with p < q inside one object (spurious, does not reproduce); bst.c has no other "
                    "signed arithmetic, the int truncation in ptrcmp is caught by --conversion-check and by the "
                    "harness assertions",
                    "function pointers: l->comp in {vf_cmp, ptrcmp}, l->dtor in {vf_dtor}, cb in {vf_cb} (CBMC keeps an "
                    "assertion per site that the pointer is one of these)"],
}

PARALLEL = {"quick": 6, "thorough": 8}

# bst.c is #included into the harness TU; the harness is compiled WITHOUT --export-file-local-symbols so that the
# static functions of bst.c keep their plain names (loop ids, recursion ids and function-pointer targets below)
B = lambda s: s

FLAGS = ["--no-signed-overflow-check"]
FP = [(r"\.comp$", ["vf_cmp", B("ptrcmp")]), (r"\.dtor$", ["vf_dtor"]), (r"::cb$", ["vf_cb"])]


def lib_bounds(depth):
    """loops / recursions of bst.c: a tree of <= depth nodes is at most depth levels deep"""
    d = depth + 1
    return {B("bst_find") + ".0": d, B("find_min_subtree") + ".0": d, B("bst_next") + ".0": d,
            "m_bst_clear.0": d, B("remove_node"): 3,
            B("traverse_preorder"): d, B("traverse_postorder"): d, B("traverse_inorder"): d}


def shapes(k):
    """every binary-tree shape with k nodes as (parents, sides, code); nodes numbered in pre-order"""
    def trees(m):
        if m == 0:
            yield None
            return
        for nl in range(m):
            for lt in trees(nl):
                for rt in trees(m - 1 - nl):
                    yield (lt, rt)
    out = []
    for t in trees(k):
        par, side = [], []
        cnt = [0]

        def walk(node, parent, s):
            me = cnt[0]
            cnt[0] += 1
            if parent is not None:
                par.append(parent)
                side.append(s)
            if node[0] is not None:
                walk(node[0], me, 0)
            if node[1] is not None:
                walk(node[1], me, 1)
        if t is not None:
            walk(t, None, 0)
        code = "".join("%d%s" % (p, "LR"[s]) for p, s in zip(par, side)) or "-"
        out.append((par, side, code))
    return out


GROUPS = [("insert", 1 << 0), ("remove", 1 << 1), ("other", 0xfc)]     # bit masks over the harness's op enum


def step_jobs(k, par, side, code, tier, suffix_itr=False):
    """one shape; small shapes in one job, from 3 nodes on one job per operation group (formula size is superlinear)"""
    groups = [("all", 0xff)] if k <= 2 else GROUPS
    if suffix_itr:
        groups = [(g + "+itr", m) for g, m in GROUPS[:2]]
    js = []
    for gname, mask in groups:
        d = {"N": k, "VF_PAR": ",".join(map(str, par)), "VF_SIDE": ",".join(map(str, side)), "VF_OPS": mask}
        if suffix_itr:
            d["VF_SUFFIX_ITR"] = 1
        js.append(Job("C11.step.n%d.%s.%s" % (k, code, gname), "l0/bst_step.c", sources=L0_SRC,
                      extra_harness=["common/vf_defs.c"], defines=d,
                      unwind=max(4 * k + 4, 10, 2 ** k + 2), unwindset=lib_bounds(k + 1), fp=FP, flags=FLAGS, export_local=False,
                      symbolic=["element of every node", "op", "argument element", "comparator installed",
                                "dtor installed", "traversal order/stop position/callback result",
                                "iterator removal mask", "key of suffix find"],
                      bounds="n=%d shape=%s ops=%s" % (k, code, gname), native=NATIVE,
                      timeout=300 if tier == "quick" else 1200))
    return js


def script_job(L, cmpf, tier, split=None):
    d = {"L": L, "VF_CMP": cmpf}
    name = "C11.script.L%d.%s" % (L, "usercmp" if cmpf else "ptrcmp")
    if split is not None:
        d["VF_SPLIT_K"], d["VF_SPLIT_I"] = split
        name += ".part%dof%d" % (split[1] + 1, split[0])
    ne = 2 ** (L + 2)
    return Job(name, "l0/bst_script.c", sources=L0_SRC, extra_harness=["common/vf_defs.c"], defines=d,
               unwind=ne + 2, unwindset=lib_bounds(L), fp=FP, flags=FLAGS, export_local=False, fsa=max(ne, 64), object_bits=16,
               symbolic=["op[0..L)", "relative position of the argument of every step (equal to j-th / twin / gap g)",
                         "iterator removal masks", "dtor installed"],
               bounds="L=%d" % L, native=NATIVE, timeout=300 if tier == "quick" else 1500)


def opseq_job(seq, cmpf, tier, split=None):
    """fixed operation sequence (0 insert, 1 remove, 2 find), symbolic argument ranks: reaches shapes the short scripts cannot"""
    L = len(seq)
    j = script_job(L, cmpf, tier, split)
    j.name = "C11.opseq.%s.%s" % ("".join("IRF"[o] for o in seq), "usercmp" if cmpf else "ptrcmp") + \
             (".part%dof%d" % (split[1] + 1, split[0]) if split else "")
    j.defines["VF_OPSEQ"] = "{%s}" % ",".join(str(o) for o in seq)
    j.symbolic = ["relative position of the argument of every step", "dtor installed"]
    j.bounds = "fixed ops %s" % j.name
    j.timeout = 1500
    return j


def ptrcmp_jobs(tier):
    sym = ["offset of pointer a", "offset of pointer b", "offset of pointer c (each < 2^54)"]
    js = [Job("C11.ptrcmp.contract", "l0/bst_ptrcmp.c", sources=L0_SRC, extra_harness=["common/vf_defs.c"],
              defines={"VF_PART": 1}, unwind=4, unwindset=lib_bounds(2), fp=FP, flags=FLAGS, export_local=False, symbolic=sym,
              bounds="any three pointers less than 2^54 bytes apart", native=NATIVE, timeout=300)]
    if tier != "quick":      # the same through insert/find/traverse: 6.7 M SAT variables (2^54-byte object), ~130 s
        js.append(Job("C11.ptrcmp.api", "l0/bst_ptrcmp.c", sources=L0_SRC, extra_harness=["common/vf_defs.c"],
                      defines={"VF_PART": 2}, unwind=4, unwindset=lib_bounds(2), fp=FP, flags=FLAGS, export_local=False, symbolic=sym[:2],
                      bounds="any two pointers less than 2^54 bytes apart", native=NATIVE, timeout=900))
    return js


def jobs(tier):
    n = 3 if tier == "quick" else 4
    js = ptrcmp_jobs(tier)
    # longest jobs first
    for cmpf in (1, 0):
        if tier == "quick":
            js.append(script_job(3, cmpf, tier))
        else:
            js += [script_job(4, cmpf, tier, (8, i)) for i in range(8)]
            if not cmpf:
                js += [opseq_job([0, 0, 0, 0, 1, 0], cmpf, tier, (2, i)) for i in range(2)]   # insert x4, remove, insert
    for k in range(n, -1, -1):
        for par, side, code in shapes(k):
            js += step_jobs(k, par, side, code, tier)
            if tier != "quick" and k == 3:
                # API-level iterator walk in the suffix also after insert / remove (instead of the parent-link check only)
                js += step_jobs(k, par, side, code, tier, suffix_itr=True)
    return js


MANIFEST = {
    "text": 'Bounded model checking of all of Lib/structs/bst.c: inductive step from an arbitrary valid search tree of every shape with <= N nodes (elements symbolic, user and default comparator, with/without destructor) through one operation - insert, remove, traversal in any order with callback stop, iterate, iterator walk removing any subset of positions, clear, free - followed by an observation suffix against a sorted-array model (length, in-order, pre/post-order rebuilt into one search tree, find of a symbolic key, iterator or parent links, per-element destructor counts); all operation scripts of length <= L from empty over all relative orders of the arguments; default comparator contract (sign, equality, antisymmetry, transitivity) for pointers at any distance < 2^54',
    "note": 'tree shape is enumerated (one CBMC job per shape), elements/arguments/options are solver variables; scripts enumerate order-isomorphism classes by symbolic execution (keys concrete per path); pre-states above N nodes and scripts above L are outside the claim; after insert/remove the iterator is replaced by a direct parent-link check in the quick tier',
}
