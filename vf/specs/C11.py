"""C11 ordered set (bst.c)."""
from vf.runner import Job, fl

L0_SRC = ["Lib/utils/mem.c"]
NATIVE = {"sources": L0_SRC}

META = {}

B = lambda s: fl(s, "bst.c")          # static functions of bst.c are #included into the harness TU

FLAGS = ["--no-signed-overflow-check"]
FP = [(r"\.comp$", ["vf_cmp", B("ptrcmp")]), (r"\.dtor$", ["vf_dtor"]), (r"::cb$", ["vf_cb"])]


def lib_bounds(depth):
    """loops / recursions of bst.c: a tree of <= depth nodes is at most depth levels deep"""
    d = depth + 1
    return {B("bst_find") + ".0": d, B("find_min_subtree") + ".0": d, B("bst_next") + ".0": d,
            "m_bst_clear.0": d, B("remove_node"): 3,
            B("traverse_preorder"): d, B("traverse_postorder"): d, B("traverse_inorder"): d}


def shapes(k):
    """every binary-tree shape with k nodes as (parents, sides, code); nodes numbered in pre-order"""
    def trees(m):
        if m == 0:
            yield None
            return
        for nl in range(m):
            for lt in trees(nl):
                for rt in trees(m - 1 - nl):
                    yield (lt, rt)
    out = []
    for t in trees(k):
        par, side = [], []
        cnt = [0]

        def walk(node, parent, s):
            me = cnt[0]
            cnt[0] += 1
            if parent is not None:
                par.append(parent)
                side.append(s)
            if node[0] is not None:
                walk(node[0], me, 0)
            if node[1] is not None:
                walk(node[1], me, 1)
        if t is not None:
            walk(t, None, 0)
        code = "".join("%d%s" % (p, "LR"[s]) for p, s in zip(par, side)) or "-"
        out.append((par, side, code))
    return out


def step_job(k, par, side, code, tier):
    return Job("C11.step.n%d.%s" % (k, code), "l0/bst_step.c", sources=L0_SRC, extra_harness=["common/vf_defs.c"],
               defines={"N": k, "VF_PAR": ",".join(map(str, par)), "VF_SIDE": ",".join(map(str, side))},
               unwind=max(4 * k + 4, 10), unwindset=lib_bounds(k + 1), fp=FP, flags=FLAGS,
               symbolic=["element of every node", "op", "argument element"], bounds="n=%d shape=%s" % (k, code),
               native=NATIVE, timeout=200)


def jobs(tier):
    n = 3 if tier == "quick" else 4
    js = []
    for k in range(n + 1):
        for par, side, code in shapes(k):
            js.append(step_job(k, par, side, code, tier))
    return js


MANIFEST = {"text": "", "note": ""}
