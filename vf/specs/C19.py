"""C19 system notifications."""
from vf.runner import Job, fl
from vf.l2 import l2_job, L2_STUBS
from vf.specs import C01

META = {
    "functions": ["mod.c: start, stop, evaluate_module, mod_deregister, m_mod_start/pause/resume/stop/deregister "
                  "(emission points MOD_STARTED / MOD_STOPPED)", "ctx.c: loop_start, loop_stop, process_tick, "
                  "m_ctx_set_tick, m_ctx_dispatch, m_ctx_loop, m_ctx_quit, recv_events (poison pill)",
                  "ps.c: tell_system_pubsub_msg, tell_pubsub_msg, tell_subscribers, fetch_sub, tell_if, alloc_ps_msg, "
                  "flush_pubsub_msgs, call_pubsub_cb, m_mod_ps_subscribe/unsubscribe/poisonpill",
                  "src.c: register_ctx_src, deregister_ctx_src, process_ps", "poll/epoll.c, poll/cmn_linux.c: "
                  "create_timerfd, poll_set_new_evt, poll_consume_tmr", "evts.c, structs, mem: everything reached"],
    "stubs": L2_STUBS + ["mailbox (pipe) capacity of the OS model raised to 12 pointers for these jobs so that no "
                         "notification of a script is dropped for lack of room (the real pipe holds 8192)",
                         "C19.emit.step (L1): stubs of C01.step (manage_srcs, init_pubsub_fd -> 0, "
                         "tell_system_pubsub_msg = recorder)"],
    "bounds": "3 modules (subscriber S, X, third module as second subscriber / second actor / driver), <= 2 system topics "
              "per subscriber, scripts of <= 5 transitions (quick: listed skeletons; thorough: every valid sequence of "
              "<= 4 transitions of X out of {start, pause, resume, stop, poison pill, deregister} with S RUNNING or S "
              "PAUSED meanwhile), <= 2 loop runs, <= 2 timer expiries; blocking mode: transitions performed from a "
              "handler, one per loop round",
    "outside": "regular-expression subscriptions to system topics (C02 covers the matching path), bound modules, more "
               "than 3 modules, wall-clock behaviour of timerfd (the kernel's timer contract: armed period = configured "
               "period is what is asserted), a start refused by on_start and stop/deregistration of a module that is "
               "not RUNNING (observed: MOD_STOPPED is sent; neither demanded nor forbidden by the text)",
    "assumptions": [],
}
SYM = ["errno left by callbacks (int)", "quit code (uint8)"]
SYMF = SYM
PIPE = 12
XFLS = ["0", "M_MOD_ALLOW_REPLACE", "M_MOD_DENY_PUB|M_MOD_DENY_SUB|M_MOD_DENY_CTX", "M_MOD_PERSIST|M_MOD_DENY_CTX"]
_n = [0]


def _job(name, script, symbolic=SYM, blk=None, unwind=13, timeout=600, cb=None):
    d = {"SCRIPT": script}
    d.update(cb or {})
    if "REGF" in script:
        # flags of X: a per-job constant (a symbolic flags word forks the heap shape inside m_mod_register); rotate
        xf = XFLS[_n[0] % (3 if "DEREG" in script or (blk and "DEREG" in blk) else 4)]
        _n[0] += 1
        d["XFL"] = "(%s)" % xf
    if blk:
        d["BLK"] = 1
        d["BSCRIPT"] = blk
    j = l2_job("C19." + name, "l2/c19_notify.c", defines=d, symbolic=symbolic, unwind=unwind, timeout=timeout,
               bounds=(script + (" || per round: " + blk if blk else "") + (" || in X's callbacks: %s" % cb if cb else "")))
    j.src_defines["VF_PIPE_MAX"] = PIPE
    return j


def _tickarm():
    return Job("C19.tick.arm", "l1/c19_tickarm.c", sources=["Lib/core/poll/cmn_linux.c"], extra_harness=["common/vf_defs.c"],
               unwind=4, layer="l1", backend="cvc5-int", timeout=300, common_fp=False,
               symbolic=["period ns (uint64, full range)", "source flags (all bits)", "clock id"],
               bounds="one timer source armed by create_priv_fd(): it_value == period for every period, interval == "
                      "period unless one-shot")


def _l1(name, inner):
    # C01's one-step unit also records which notification each transition emits (tell_system_pubsub_msg = recorder):
    # the emission table of C19 from ANY state/flags, complementing the scenario jobs
    defs = dict(C01.DEFS)
    if inner:
        defs["VF_INNER"] = None
    return Job("C19.emit." + name, "l1/c01_step.c", defines=defs, unwind=6, sources=C01.SRC,
               extra_harness=["common/vf_defs.c"], remove=C01.REMOVE, fsa=1024, layer="l1", backend="cadical",
               fp=C01.FP, unwindset={"hashmap_hash_string.0": 4, "strcmp.0": 24}, timeout=900,
               symbolic=["state (5)", "flags", "tokens (u64)", "ctx looping/idle, persist", "other running modules",
                         "op (start/pause/resume/stop/deregister)", "on_start result"],
               bounds="one transition from any state: MOD_STARTED iff the module ends RUNNING, exactly one MOD_STOPPED "
                      "when a RUNNING module leaves RUNNING, sender = the module")


PRE = "REG(S) REGF(X) NOEVAL(X) START(S) "
BOTH = "SUB(S,T_MS) SUB(S,T_MX) "
END = " DRAIN QUIT DISP"

QUICK = [
    ("cycle", PRE + BOTH + "LOOP START(X) DISP PAUSE(X) DISP RESUME(X) DISP STOP(X)" + END, SYMF, None),
    ("dereg", PRE + "SUB(S,T_MX) LOOP START(X) DEREG(X)" + END, SYMF, None),
    ("pill", PRE + BOTH + "LOOP START(X) DISP PILL(S,X) DISP" + END, SYMF, None),
    ("ctx2", PRE + "SUB(S,T_CS) SUB(S,T_CX) LOOP DRAIN QUIT DISP LOOP DRAIN QUIT DISP", SYMF, None),
    ("spaused", PRE + BOTH + "LOOP PAUSE(S) START(X) PAUSE(X) RESUME(S)" + END, SYMF, None),
    ("autostart", "REG(S) REGF(X) START(S) SUB(S,T_MS) SUB(S,T_CS) LOOP" + END, SYMF, None),
    ("sidle", "REG(S) REG(X) SUB(S,T_CS) SUB(S,T_MX) LOOP DRAIN PAUSE(X)" + END, SYM, None),
    ("latesub", PRE + "LOOP START(X) SUB(S,T_MX) PAUSE(X) DRAIN UNSUB(S,T_MX) RESUME(X) STOP(X) DISP QUIT DISP", SYMF, None),
    ("stoppaused", PRE + "SUB(S,T_MX) LOOP START(X) PAUSE(X) DRAIN STOP(X) DRAIN DEREG(X)" + END, SYMF, None),
    ("twosubs", "REG(S) REGF(X) NOEVAL(X) REG(Y) START(S) START(Y) SUB(S,T_MS) SUB(Y,T_MS) SUB(Y,T_MX) LOOP START(X) DRAIN STOP(X)" + END, SYMF, None),
    ("beforeloop", PRE + "SUB(S,T_MS) START(X) LOOP" + END, SYMF, None),
    ("tick", "REG(S) START(S) SUB(S,T_TK) SETTICKC(1000000001) LOOP FIRE DISP DISP FIRE DISP" + END, SYM, None),
    ("refuse", "REG(S) REG(X) NOEVAL(X) REFUSE(X) START(S) " + BOTH + "LOOP START(X)" + END, SYM, None),
    ("blk.cycle", "REG(S) REGF(X) REG(Y) START(S) START(Y) " + BOTH + "BLOCK", SYMF,
     "B(0,PAUSE(X)) B(1,RESUME(X)) B(2,STOP(X)) B(3,QUIT)"),
    ("blk.ctx", "REG(S) REGF(X) REG(Y) START(S) START(Y) SUB(S,T_CS) SUB(S,T_CX) BLOCK", SYMF, "B(0,DEREG(X)) B(1,QUIT)"),
]

THOROUGH_EXTRA = [
    ("pausedatend", PRE + "SUB(S,T_CX) SUB(S,T_MS) LOOP START(X) PAUSE(S) QUIT DISP RESUME(S) LOOP" + END, SYMF, None),
    ("tick.reconf", "REG(S) START(S) SUB(S,T_TK) SETTICKC(7) LOOP SETTICKC(999999999) FIRE DISP" + END, SYM, None),
    ("tick.twosubs", "REG(S) REG(Y) START(S) START(Y) SUB(S,T_TK) SUB(Y,T_TK) SETTICKC(1) LOOP FIRE DISP" + END, SYM, None),
    ("tick.restart", "REG(S) START(S) SUB(S,T_TK) SETTICKC(18446744073709551615ull) LOOP FIRE DISP DRAIN QUIT DISP LOOP FIRE DISP" + END, SYM, None),
    ("twoactors", "REG(S) REGF(X) NOEVAL(X) REG(Y) NOEVAL(Y) START(S) " + BOTH + "LOOP START(X) START(Y) DRAIN PAUSE(Y) STOP(X) DRAIN DEREG(Y)" + END, SYMF, None),
    ("restart", PRE + BOTH + "LOOP START(X) STOP(X) DRAIN START(X)" + END, SYMF, None),
    ("evalstart", "REG(S) START(S) SUB(S,T_MS) LOOP REGF(X) SETTICKC(5000000) FIRE DISP" + END, SYMF, None),
    ("blk.stopall", "REG(S) REGF(X) REG(Y) START(S) START(Y) " + BOTH + "BLOCK", SYMF, "B(0,PAUSE(X)) B(1,STOP(X)) B(2,STOP(S)) B(3,STOP(Y))"),
    ("blk.spaused", "REG(S) REGF(X) REG(Y) START(S) START(Y) " + BOTH + "BLOCK", SYMF,
     "B(0,PAUSE(S)) B(1,PAUSE(X)) B(2,RESUME(S)) B(3,RESUME(X)) B(4,QUIT)"),
    ("blk.selfstop", "REG(S) REGF(X) REG(Y) START(S) START(Y) " + BOTH + "BLOCK", SYMF, "B(0,PAUSE(X)) B(1,QUIT STOP(Y))"),
    ("blk.selfdereg", "REG(S) REGF(X) REG(Y) START(S) START(Y) " + BOTH + "BLOCK", SYMF, "B(0,QUIT DEREG(Y))"),
    ("tick.off", "REG(S) START(S) SUB(S,T_TK) SETTICKC(5000000) LOOP FIRE DISP DRAIN TICKOFF FIRE DISP" + END, SYM, None),
]

# grammar of X's transitions (state machine of C01): every valid sequence of <= N transitions from IDLE
NEXT = {"I": [("START(X)", "R"), ("DEREG(X)", "Z")],
        "R": [("PAUSE(X)", "P"), ("STOP(X)", "T"), ("PILL(S,X) DISP", "T"), ("DEREG(X)", "Z")],
        "P": [("RESUME(X)", "R"), ("STOP(X)", "T"), ("DEREG(X)", "Z")],
        "T": [("START(X)", "R"), ("DEREG(X)", "Z")], "Z": []}


def _seqs(n, st="I"):
    if n == 0:
        return [[]]
    out = [[]]
    for op, nx in NEXT[st]:
        for rest in _seqs(n - 1, nx):
            out.append([op] + rest)
    return out


def jobs(tier):
    js = [_l1("step", False), _tickarm()]
    for name, script, sym, blk in QUICK:
        js.append(_job(name, script, sym, blk))
    # nesting: X's on_start pauses Y / X's on_stop starts Y (which on_eval keeps IDLE), S hears about both modules
    js.append(_job("nest.start", "REG(S) REGF(X) NOEVAL(X) REG(Y) START(S) START(Y) " + BOTH + "LOOP START(X)" + END, SYMF,
                   cb={"CBSTART": "PAUSE(Y)"}))
    js.append(_job("nest.stop", "REG(S) REGF(X) NOEVAL(X) REG(Y) NOEVAL(Y) START(S) START(X) " + BOTH + "LOOP STOP(X)" + END, SYMF,
                   cb={"CBSTOP": "START(Y)"}))
    if tier == "thorough":
        js.append(_l1("step.reentrant", True))
        for name, script, sym, blk in THOROUGH_EXTRA:
            js.append(_job(name, script, sym, blk))
        seen = set()
        for seq in _seqs(4):
            if len(seq) < 2:
                continue
            key = " ".join(seq)
            if key in seen:
                continue
            seen.add(key)
            tag = "".join(w[0:2] for w in key.replace("(S,X) DISP", "").replace("(X)", "").split()).lower()
            body = " DRAIN ".join(seq)
            js.append(_job("seq.run.%s" % tag, PRE + BOTH + "LOOP " + body + END, SYMF))
            # the subscriber is PAUSED while X moves and reads everything after its resume; Y keeps the loop alive
            if "PILL" not in key:
                js.append(_job("seq.paused.%s" % tag, "REG(S) REGF(X) NOEVAL(X) REG(Y) START(S) START(Y) " + BOTH + "LOOP PAUSE(S) " +
                               " ".join(seq) + " RESUME(S)" + END, SYMF))
    for n in ((1,) if tier == "quick" else (1, 2)):
        js.append(l2_job("C19.tick.restart%d" % n, "l2/c19_tickrestart.c", defines={"RESTARTS": n, "VF_LOGN": 8},
                         symbolic=["quit code (uint8)", "errno left by callbacks (int)"],
                         bounds="tick configured, loop stopped and restarted %d time(s), one expiry per run" % n, unwind=13))
    for sc in (0, 1, 2, 3, 4):
        js.append(l2_job("C19.extra.%s" % ("selfdereg-in-stop", "overlapping-subs", "selfpause-in-start", "tick-from-start", "dereg-other-in-flush")[sc], "l2/c19_extra.c",
                         defines={"SCEN": sc, "VF_LOGN": 8}, symbolic=["errno left by callbacks (int)"],
                         bounds="scenario %d" % sc, unwind=13))
    return js


MANIFEST = {
    "text": "Bounded model checking of the whole core on the OS model: a recording subscriber of one or two system "
            "topics (second subscriber in some jobs) while other modules run a per-job transition script (start, pause, "
            "resume, stop, poison pill, deregister, auto-start by the loop; loop start by first dispatch / m_ctx_loop, "
            "loop stop by quit or by nothing RUNNING; tick timer expiries), in dispatch mode and with the transitions "
            "made from a handler inside the blocking loop. A concrete ghost model computed next to the script gives, "
            "per subscriber, the multiset of (topic, sender) the text demands and the multiset of occurrences "
            "performed; oracle: every logged entry is system-flagged, payload-less, delivered while RUNNING, "
            "count(topic, sender) between demanded and performed (equal wherever the text is unambiguous); tick timer "
            "armed with exactly the configured (symbolic) period, one tick per expiry. Plus the one-step L1 unit "
            "of C01 as emission table from any state/flags.; a module pausing itself in its start callback; the tick configured from a start callback at loop start",
    "note": "call order per job is concrete (enumerated skeletons; thorough: every sequence of <= 4 transitions of X x "
            "subscriber RUNNING / PAUSED), free per job: errno left by callbacks, quit code, non-allocating flag bits "
            "of X, tick period; not asserted because the text leaves it open: own transitions, refused start, "
            "stop/deregistration of a module that is not RUNNING, subscriber IDLE at loop start; regular-expression "
            "subscriptions and bound modules outside; mailbox capacity 12 in the model",
}
