"""C13 priorities and batching."""
from vf.l2 import l2_job
from vf.runner import Job, fl
from vf.fp import core_fp, EVT_DTOR, SRC_DTOR

SRC = ["Lib/core/ctx.c", "Lib/core/evts.c", "Lib/core/ps.c", "Lib/core/mod.c", "Lib/core/main.c",
       "Lib/core/fs/fs_noop.c", "Lib/structs/queue.c", "Lib/structs/stack.c", "Lib/structs/map.c",
       "Lib/structs/list.c", "Lib/structs/bst.c", "Lib/mem/mem.c", "Lib/utils/mem.c"]

META = {
    "functions": ["ctx.c: push_evt", "ps.c: call_pubsub_cb (delivery/set/fd jobs)", "evts.c: m_mod_set_batch_size, "
                  "m_mod_set_batch_timeout, new_evt, evt_dtor", "mod.c: m_mod_pause, m_mod_resume, start, stop, reset_module, "
                  "optional_hook, m_mod_is", "src.c: m_mod_src_register_fd, register_mod_src, create_src (fd jobs)",
                  "queue.c: new/enqueue/len/iterators/clear/free", "stack.c: peek/clear", "list.c: iterators/clear",
                  "mem.c: m_mem_new/ref/unref", "main.c: mem_dtor"],
    "stubs": ["m_ctx() returns the harness' context", "fetch_ms = arbitrary clock", "libmodule_logger = empty variadic",
              "decision jobs (C13.decide.*, C13.deliver2.*.{norm,tell}.*): call_pubsub_cb = recorder that runs the recording "
              "handler on a non-empty queue and keeps the queue (the real one runs in every other job)",
              "set jobs: timer registry (m_mod_src_register_tmr / m_mod_src_deregister_tmr; src.c not linked) = recording "
              "stubs that accept a valid timer; mod.c:manage_srcs -> 0, mod.c:init_pubsub_fd -> 0, tell_system_pubsub_msg -> 0",
              "fd jobs: m_bst_insert = recorder of the source block, poll_set_new_evt -> 0",
              "fs_* = fs_noop.c (as in the default build)"],
    "bounds": "0..KMAX events already accumulated (KMAX=3 quick, 5 thorough; per-job constant, shaped like direct tells), "
              "one arrival, or two consecutive arrivals of fixed classes (7 pairs quick, all 49 thorough), per job; batch size over the full size_t, batch timeout "
              "over the full u64; in the decision jobs the whole 32-bit source flags word (priority bits restricted to the "
              "combinations registration can produce), the user-pointer class and source/no-source are symbolic, in the "
              "delivery jobs the class of each arrival is one of 7 per-job constants; setter scripts of NOPS operations "
              "(3 quick, 4-5 thorough) over set_batch_size/set_batch_timeout/pause/resume with symbolic arguments, followed by "
              "one normal-priority arrival or by stop+start and the arrival",
    "outside": "more than KMAX accumulated events or more than two arrivals per run (the decision is a function of the "
               "count and the settings only, which the unit quantifies over); accumulated events that reference source "
               "blocks; failing setter calls in the middle of m_mod_set_batch_timeout (timer registration refused, e.g. "
               "token bucket empty); the timer registry and the poll layer themselves (C09/C03); expiry of the kernel "
               "timer (the tick is injected as the event the loop would build); allocation failure",
    "assumptions": ["an event reaches push_evt only for a RUNNING module (recv_events); library timers are registered "
                    "with M_SRC_INTERNAL and user pointer &mod->batch / &mod->tb (evts.c, mod.c)"],
}

RECUR = {"m_mem_unref": 3, EVT_DTOR: 2}
FP = core_fp(mem_dtors=[EVT_DTOR], on_evt=["on_evt"])
PUSH = fl("push_evt", "ctx.c")
SET_REMOVE = ["m_ctx", "tell_system_pubsub_msg", fl("manage_srcs", "mod.c"), fl("init_pubsub_fd", "mod.c")]
SET_DEFS = {"VF_PUSH_EVT": PUSH, "VF_EVT_DTOR": EVT_DTOR, "VF_MANAGE_SRCS": fl("manage_srcs", "mod.c"),
            "VF_INIT_PUBSUB_FD": fl("init_pubsub_fd", "mod.c")}
SET_FP = core_fp(mem_dtors=[EVT_DTOR], on_evt=["on_evt"], on_start=["on_start"], on_stop=["on_stop"])
NATIVE_P = {"sources": [s for s in SRC if s not in ("Lib/core/ctx.c", "Lib/core/evts.c")]}


def jobs(tier):
    js = []
    common = dict(sources=SRC, extra_harness=["common/vf_defs.c"], remove=["m_ctx"], fsa=1024, layer="l1",
                  backend="cadical", mem_gb=12)
    quick = tier == "quick"
    ks = [0, 1, 2, 3] if quick else [0, 1, 2, 3, 4, 5]
    pd = {"VF_PUSH_EVT": PUSH, "VF_EVT_DTOR": EVT_DTOR}
    # (1) decision table over the whole flags word / user pointer / tell, recorder instead of call_pubsub_cb
    # (two consecutive fully symbolic arrivals: the SAT back end runs out of the 12 GB cap even with K=0 - measured; two
    # arrivals are covered per class pair below)
    for k, narr in [(k, 1) for k in ks]:
        js.append(Job("C13.decide.k%d" % k, "l1/c13_push.c",
                      defines=dict(pd, K=k, NARR=narr, VF_RECORDER=None),
                      unwind=k + narr + 2, unwindset=RECUR, fp=core_fp(mem_dtors=[EVT_DTOR]), native=NATIVE_P,
                      symbolic=["source flags word (32 bit) of each arrival", "source user pointer class", "source present or tell",
                                "batch size (size_t)", "batch timeout (u64)", "tokens, burst"],
                      bounds="accumulated=%d arrivals=%d" % (k, narr), timeout=900 if quick else 1400,
                      **dict(common, remove=["m_ctx", "call_pubsub_cb"])))
    # (2) real delivery path, class of the arrival(s) fixed per job
    CLS = ["low", "norm", "high", "fd", "tell", "batchtick", "tbtick"]
    for k in ks:
        for c in range(7):
            js.append(Job("C13.deliver.k%d.%s" % (k, CLS[c]), "l1/c13_push.c", defines=dict(pd, K=k, VF_CLASS=c),
                          unwind=k + 3, unwindset=RECUR, fp=FP, native=NATIVE_P,
                          symbolic=["batch size (size_t)", "batch timeout (u64)", "tokens, burst", "clock"],
                          bounds="accumulated=%d class=%s" % (k, CLS[c]), timeout=900, **common))
    pairs = [(0, 2), (0, 1), (1, 5), (0, 6), (1, 1), (0, 5), (4, 0)] if quick else [(a, b) for a in range(7) for b in range(7)]
    for k in ([1] if quick else [0, 1, 2, 3]):
        for a, b in pairs:
            # a first arrival whose outcome depends on the symbolic batch size (norm, tell) leaves a symbolic heap shape:
            # the second arrival is then only tractable with the recorder (measured: > 12 GB with the real release)
            rec = a in (1, 4)
            js.append(Job("C13.deliver2.k%d.%s.%s" % (k, CLS[a], CLS[b]), "l1/c13_push.c",
                          defines=dict(pd, K=k, VF_CLASS=a, VF_CLASS2=b, **({"VF_RECORDER": None} if rec else {})),
                          unwind=k + 4, unwindset=RECUR, fp=core_fp(mem_dtors=[EVT_DTOR]) if rec else FP, native=NATIVE_P,
                          symbolic=["batch size (size_t)", "batch timeout (u64)", "tokens, burst", "clock"],
                          bounds="accumulated=%d classes=%s,%s%s" % (k, CLS[a], CLS[b], " (recorder)" if rec else ""),
                          timeout=900, **dict(common, remove=["m_ctx", "call_pubsub_cb"] if rec else ["m_ctx"])))
    # (3) descriptor sources are always high priority (src.c registration path)
    fdflags = {"unspec": "0", "high": "M_SRC_PRIO_HIGH", "high_autoclose_oneshot": "(M_SRC_PRIO_HIGH|M_SRC_FD_AUTOCLOSE|M_SRC_ONESHOT)",
               "unspec_autofree": "M_SRC_AUTOFREE", "dup": "M_SRC_DUP", "dup_autoclose": "(M_SRC_DUP|M_SRC_FD_AUTOCLOSE)"}
    for nm in (["unspec", "high_autoclose_oneshot", "dup"] if quick else list(fdflags)):
        js.append(Job("C13.fd.k1.%s" % nm, "l1/c13_fd.c", defines=dict(pd, K=1, VF_FLAGS=fdflags[nm]),
                      unwind=5, unwindset=RECUR, fp=core_fp(mem_dtors=[EVT_DTOR, SRC_DTOR], on_evt=["on_evt"]),
                      symbolic=["batch size (size_t)", "batch timeout (u64)", "clock"],
                      bounds="accumulated=1 flags=%s fd=7" % nm, timeout=900,
                      **dict(common, sources=SRC + ["Lib/core/src.c"], remove=["m_ctx", "m_bst_insert"])))
    sets = [(1, 0, 3), (2, 0, 3), (1, 1, 3)] if quick else \
           [(0, 0, 4), (1, 0, 4), (2, 0, 4), (3, 0, 4), (1, 1, 4), (2, 1, 4), (1, 0, 5)]
    for k, fin, nops in sets:
        js.append(Job("C13.set.k%d.n%d.%s" % (k, nops, "arrive" if fin == 0 else "stopstart"), "l1/c13_set.c",
                      defines=dict(SET_DEFS, K=k, NOPS=nops, VF_FINAL=fin),
                      unwind=max(k, nops) + 3, unwindset=RECUR, fp=SET_FP,
                      symbolic=["op[0..NOPS) over set_batch_size/set_batch_timeout/pause/resume", "batch size arguments (size_t)",
                                "timeout arguments (u64)", "initial state RUNNING/PAUSED", "tokens"],
                      bounds="NOPS=%d accumulated=%d" % (nops, k), timeout=900 if quick else 1400,
                      **dict(common, remove=SET_REMOVE)))
    for p1, p2 in (((1, 2), (0, 1), (2, 1)) if quick else ((1, 2), (0, 1), (2, 1), (0, 2), (1, 0), (2, 0))):
        js.append(l2_job("C13.resub.p%d_p%d" % (p1, p2), "l2/c13_resub.c", defines={"P1": p1, "P2": p2},
                         symbolic=["errno left by callbacks (int)"],
                         bounds="whole core: topic subscribed with priority %d, one event pending, subscribed again with priority %d" % (p1, p2), unwind=13))
    # concrete scripts (0 size, 1 timeout, 2 pause, 3 resume): same oracle, heap shape fixed
    scripts = [("pr", (2, 3)), ("tpr", (1, 2, 3))] if quick else \
              [("pr", (2, 3)), ("spr", (0, 2, 3)), ("tpr", (1, 2, 3)), ("prpr", (2, 3, 2, 3)), ("pstr", (2, 0, 1, 3)), ("tptr", (1, 2, 1, 3))]
    for nm, ops in scripts:
        for k in ((1,) if quick else (1, 2, 3)):
            js.append(Job("C13.set.k%d.script_%s.arrive" % (k, nm), "l1/c13_set.c",
                          defines=dict(SET_DEFS, K=k, NOPS=len(ops), VF_FINAL=0, VF_OPS="{%s}" % ",".join(map(str, ops))),
                          unwind=max(k, len(ops)) + 3, unwindset=RECUR, fp=SET_FP,
                          symbolic=["batch size arguments (size_t)", "timeout arguments (u64)", "tokens"],
                          bounds="fixed script %s accumulated=%d" % (nm, k), timeout=900,
                          **dict(common, remove=SET_REMOVE, mem_gb=24)))
    return js


MANIFEST = {
    "text": "Bounded model checking of the real push_evt (ctx.c) against a decision table written from the property: for "
            "0..KMAX pending events, every batch size in size_t, every batch timeout, every source flags word / library "
            "timer kind / tell, the handler is invoked exactly when a trigger holds, once, with all pending events in "
            "arrival order, otherwise the event is retained in order; library timer ticks never reach the handler; "
            "real call_pubsub_cb/evt_dtor in the per-class delivery jobs (one and two arrivals); real "
            "m_mod_set_batch_size/m_mod_set_batch_timeout/pause/resume scripts against a model of the configured settings; "
            "real stop()/reset_module()/start() discard pending events and reset the settings; descriptor sources registered "
            "through m_mod_src_register_fd are delivered at once under every batch setting; whole core: a topic subscribed again with another priority is classified as last requested; fixed pause/resume scripts",
    "note": "m_ctx(), clock, timer registry, poll layer and (in the fully symbolic decision jobs) call_pubsub_cb are stubs "
            "listed in the evidence; number of pending events bounded by KMAX and at most two arrivals per run; timer "
            "expiry is represented by the tick event the loop builds, kernel timing is outside the claim",
}
