"""C13 priorities and batching."""
from vf.runner import Job, fl
from vf.fp import core_fp, EVT_DTOR

SRC = ["Lib/core/ctx.c", "Lib/core/evts.c", "Lib/core/ps.c", "Lib/core/mod.c", "Lib/core/main.c",
       "Lib/core/fs/fs_noop.c", "Lib/structs/queue.c", "Lib/structs/stack.c", "Lib/structs/map.c",
       "Lib/structs/list.c", "Lib/structs/bst.c", "Lib/mem/mem.c", "Lib/utils/mem.c"]

META = {
    "functions": ["ctx.c: push_evt", "ps.c: call_pubsub_cb", "evts.c: m_mod_set_batch_size, m_mod_set_batch_timeout, "
                  "new_evt, evt_dtor", "mod.c: reset_module, m_mod_is", "queue.c: new/enqueue/len/iterators/clear/free",
                  "stack.c: peek", "mem.c: m_mem_new/ref/unref", "main.c: mem_dtor"],
    "stubs": [],
    "bounds": "",
    "outside": "",
    "assumptions": [],
}

RECUR = {"m_mem_unref": 3, EVT_DTOR: 2}
FP = core_fp(mem_dtors=[EVT_DTOR], on_evt=["on_evt"])
PUSH = fl("push_evt", "ctx.c")
NATIVE_P = {"sources": [s for s in SRC if s not in ("Lib/core/ctx.c", "Lib/core/evts.c")]}


def jobs(tier):
    js = []
    common = dict(sources=SRC, extra_harness=["common/vf_defs.c"], remove=["m_ctx"], fsa=1024, layer="l1",
                  backend="cadical", mem_gb=12)
    ks = [0, 1, 2, 3] if tier == "quick" else [0, 1, 2, 3, 4]
    for k in ks:
        js.append(Job("C13.push.k%d" % k, "l1/c13_push.c",
                      defines={"K": k, "VF_PUSH_EVT": PUSH, "VF_EVT_DTOR": EVT_DTOR},
                      unwind=k + 4, unwindset=RECUR, fp=FP, native=NATIVE_P,
                      symbolic=["source flags word", "source user pointer class", "source present or tell",
                                "batch size (size_t)", "batch timeout (u64)", "tokens, burst"],
                      bounds="accumulated=%d" % k, timeout=900, **common))
    return js


MANIFEST = {
    "text": "",
    "note": "",
}
