"""C17 become / unbecome handler stack."""
from vf.runner import Job, fl
from vf.fp import core_fp

SRC = ["Lib/core/evts.c", "Lib/core/ps.c", "Lib/core/mod.c", "Lib/core/main.c", "Lib/core/fs/fs_noop.c",
       "Lib/structs/queue.c", "Lib/structs/stack.c", "Lib/structs/map.c", "Lib/structs/list.c", "Lib/structs/bst.c",
       "Lib/mem/mem.c", "Lib/utils/mem.c"]
META = {
    "functions": ["evts.c: m_mod_become, m_mod_unbecome", "ps.c: call_pubsub_cb", "mod.c: reset_module, m_mod_is",
                  "stack.c: m_stack_push/pop/peek/clear/len", "queue.c: new/enqueue/len/free", "mem.c", "main.c: mem_dtor"],
    "stubs": ["m_ctx() returns the harness' context", "fetch_ms = arbitrary clock", "libmodule_logger = empty variadic",
              "stop/start = reset_module() + state assignment (the full start()/stop() paths are C01's subject)",
              "pause/resume = state assignment"],
    "bounds": "every script of L operations (L=4 quick, 6 thorough) over become(h1|h2)/unbecome/deliver/stop+start/"
              "pause/resume with a re-entrant become/unbecome chosen per delivery; handler stack depth <= 2L",
    "outside": "scripts longer than L; stash replays (C16 shows unstash goes through the same call_pubsub_cb)",
    "assumptions": [],
}
FP = core_fp(mem_dtors=[], on_evt=["h0", "h1", "h2"])


def jobs(tier):
    Ls = [3, 4] if tier == "quick" else [5, 6]
    js = []
    for L in Ls:
        js.append(Job("C17.stack.L%d" % L, "l1/c17_stack.c", sources=SRC, extra_harness=["common/vf_defs.c"],
                      remove=["m_ctx"], fsa=1024, layer="l1", backend="cadical",
                      defines={"L": L, "VF_RESET_MODULE": fl("reset_module", "mod.c")},
                      unwind=2 * L + 3, fp=FP, native={"sources": [s for s in SRC if s != "Lib/core/mod.c"]},
                      symbolic=["op[0..L)", "re-entrant action of each invoked handler", "clock values"],
                      bounds="L=%d" % L, timeout=900 if tier == "quick" else 3000))
    for depth in (0, 1, 2):
        js.append(Job("C17.guard.d%d" % depth, "l1/c17_guard.c", sources=SRC, extra_harness=["common/vf_defs.c"],
                      remove=["m_ctx"], fsa=1024, layer="l1", backend="cadical", defines={"DEPTH": depth}, unwind=5,
                      fp=core_fp(mem_dtors=[], on_evt=["h0", "h1", "h2"]),
                      symbolic=["module state (5)", "token count (u64)", "become or unbecome"],
                      bounds="one call, handler stack depth %d" % depth, timeout=600))
    return js


MANIFEST = {
    "text": "Bounded model checking of the real become/unbecome/handler-selection code with the real stack: every "
            "script of L operations (symbolic) including re-entrant changes from inside the invoked handler and "
            "stop/start, pause/resume, against an explicit stack model; one become/unbecome from any state and any token count: a refused call leaves the stack untouched",
    "note": "m_ctx() and clock stubbed; stop is represented by the real reset_module() (C01 shows stop() calls it); "
            "scripts longer than L are outside the claim",
}
