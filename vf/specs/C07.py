"""C07 context lifecycle: one context per thread, teardown deregisters every module, automatic release, guards."""
import os
from vf.l2 import l2_job, L2_STUBS

META = {
    "functions": ["ctx.c: m_ctx_register, ctx_new, m_ctx_deregister, ctx_destroy_mods, ctx_dtor, m_ctx, loop_start, "
                  "loop_stop (auto-release), m_ctx_dispatch, m_ctx_loop, m_ctx_quit, m_ctx_finalize, m_ctx_set_tick, every "
                  "M_CTX_ASSERT entry point",
                  "mod.c: m_mod_register (finalize gate, replace path), mod_deregister (auto-release branch), start, stop, "
                  "optional_hook, module_dtor; every M_MOD_ASSERT entry point of mod.c / ps.c / src.c / evts.c",
                  "structs/map.c (iteration with removal), mem, poll, ps (flush at stop): everything reached"],
    "stubs": L2_STUBS + ["job C07.guard.nokey: harness/l2/c07_os_model.c = the same OS model included unchanged + validity "
                         "tracking of the thread-specific-data key (key 0 belongs to another component of the process)"],
    "bounds": "0-3 modules per context (3 modules only with duplicated names), states IDLE/RUNNING/PAUSED/STOPPED reached "
              "through real calls, at most one loop run before a teardown, 2 simulated threads",
    "outside": "more modules than the bound, real thread interleavings (C14), allocation failure, FUSE build, symbolic "
               "context flag words on accepted registrations (flag bits are enumerated per job: a symbolic word makes the "
               "PERSIST / NAME_DUP tests inside the library symbolic and the job does not finish)",
    "assumptions": [],
}

TMO = int(os.environ.get("C07_TIMEOUT", "900"))
# the library allocates/releases only through the hook the harness installs: outstanding-allocation count, native-replayable
HOOK = [(r"memhook\._free$", ["vf_free"]), (r"memhook\._calloc$", ["vf_calloc"]), (r"memhook\._malloc$", ["vf_malloc"])]
SYM_T = ["errno left by callbacks (int)", "module user data identity", "quit code (uint8, LOOPED jobs)"]
SYM_A = ["errno left by callbacks (int)", "module user data identity"]
SYM_G = {0: ["refused flag word (uint, all 32 bits)", "refused user data", "flag word used inside the handler", "quit code (uint8)",
             "errno left by handlers (int)"],
         1: ["quit code (uint8)", "errno left by handlers (int)"],
         2: ["flag word of the refused module registrations (uint, all bits)", "quit code (uint8)", "errno left by handlers (int)"],
         3: ["descriptor, source flags, timer period, signal, pid, task id, rate, burst, batch size, batch timeout, unstash count, "
             "quit code, tick period, module flag word (all unconstrained)"],
         4: ["refused flag word (uint)", "refused user data"],
         5: ["quit code, tick period, module flag word (all unconstrained)"]}
MODES = {0: "idle", 1: "instart", 2: "dispatch", 3: "loop", 4: "replace", 5: "instop", 6: "lateadd"}
GNAMES = {0: "second", 1: "looping", 2: "finalize", 3: "nocontext", 4: "twothreads", 5: "nokey"}


def teardown(nmod, st, persist, cndup=0, mndup=0, looped=0, drop=0, cb=0, udauto=0, nauto=0, ud2auto=0, tick=0, leak=False):
    if nmod == 3:
        mndup = 1      # measured: 3 modules with literal (not duplicated) names -> no verdict in 400 s (map back-shift memcpy of literal key pointers)
    st = (list(st) + [0, 0, 0])[:3]
    name = "C07.teardown.n%d.s%s.p%d.cd%d.md%d.l%d.d%d.cb%d.f%d%d%d.t%d" % (
        nmod, "".join(str(x) for x in st[:nmod]) or "-", persist, cndup, mndup, looped, drop, cb, udauto, nauto, ud2auto, 1 if tick else 0)
    d = {"NMOD": nmod, "ST0": st[0], "ST1": st[1], "ST2": st[2], "PERSIST": persist, "CNDUP": cndup, "MNDUP": mndup,
         "LOOPED": looped, "DROP": drop, "CB": cb, "UDAUTO": udauto, "NAUTO": nauto, "UD2AUTO": ud2auto, "TICK": tick}
    return l2_job(name, "l2/c07_teardown.c", defines=d, symbolic=SYM_T, bounds=name, unwind=13, fp_extra=HOOK, leak=leak, timeout=TMO)


def autorel(mode, nmod, persist, keep=1, st=1, udauto=0, leak=False):
    name = "C07.autorel.%s.n%d.p%d.k%d.s%d.f%d" % (MODES[mode], nmod, persist, keep, st, udauto)
    d = {"MODE": mode, "NMOD": nmod, "PERSIST": persist, "KEEP": keep, "ST": st, "UDAUTO": udauto}
    return l2_job(name, "l2/c07_autorelease.c", defines=d, symbolic=SYM_A, bounds=name, unwind=13, fp_extra=HOOK, leak=leak, timeout=TMO)


def guard(g, bst=1, loop0=0, flfixed=None, short=False):
    name = "C07.guard.%s" % GNAMES[g] + (".b%d.l%d" % (bst, loop0) if g == 3 else "") + (".fl%d" % flfixed if flfixed is not None else "") \
           + (".short" if short else "")
    d = {"G": g, "BST": bst, "LOOP0": loop0}
    sym = SYM_G[g]
    if short:
        d["SHORT"] = None
        sym = ["errno left by handlers (int)"]
    if flfixed is not None:
        # companion with the refused flag word concrete: a regression that lets the refused call through is then reported
        # as a failure quickly instead of a time-out of the symbolic-flag job
        d["FLFIXED"] = flfixed
        sym = [x for x in sym if "flag word" not in x]
    j = l2_job(name, "l2/c07_guards.c", defines=d, symbolic=sym, bounds=name, unwind=13,
               fp_extra=HOOK, task_fns=["my_task"], extra_evt=["other_evt"], timeout=TMO,
               unwindset={"vf_main.0": 66} if g == 5 else None)
    if g == 5:
        # the shared OS model, included unchanged by a wrapper that adds validity tracking of the thread-specific key
        j.model = None
        j.extra_harness.append("l2/c07_os_model.c")
    return j


def jobs(tier):
    if tier == "quick":
        T = [  # nmod, states, persist, options
            (0, (), 0, dict(udauto=1, nauto=1, ud2auto=1, leak=True)), (0, (), 1, dict(cndup=1, looped=1, tick=1000000)),
            (1, (1,), 0, dict()), (1, (0,), 1, dict(udauto=1)), (1, (2,), 0, dict(drop=1)),
            (2, (1, 0), 1, dict()), (2, (1, 2), 0, dict(drop=1, cndup=1)), (2, (1, 1), 0, dict(cb=1)), (2, (1, 2), 0, dict(cb=2)),
            (2, (0, 2), 1, dict(looped=1, nauto=1)), (3, (1, 2, 3), 0, dict(looped=1, cndup=1)),
        ]
        A = [  # mode, nmod, persist, options
            (0, 1, 0, dict(leak=True)), (0, 2, 1, dict(keep=0, st=2)), (1, 1, 0, dict()), (2, 1, 0, dict()), (2, 2, 0, dict(keep=0)),
            (2, 1, 1, dict()), (3, 1, 0, dict(keep=0, udauto=1)), (4, 1, 0, dict()), (4, 1, 1, dict(keep=0, st=2)),
            (5, 2, 0, dict()), (6, 1, 0, dict()),
        ]
        Gs = [(0, 1, 0), (1, 1, 0), (2, 1, 0), (3, 1, 0), (3, 2, 1), (4, 1, 0), (5, 1, 0)]
    else:
        T, A = [], []
        T += [(0, (), 0, dict(udauto=1, nauto=1, ud2auto=1, leak=True)), (0, (), 0, dict(cndup=1, tick=5)), (0, (), 1, dict(leak=True)),
              (0, (), 1, dict(cndup=1, looped=1, tick=1000000)), (0, (), 1, dict(looped=1, udauto=1, nauto=1))]
        k = 0
        for s in range(4):                      # one module: every state x persist x dropped/retained, looped variants
            for p in (0, 1):
                for drop in (0, 1):
                    k += 1
                    T.append((1, (s,), p, dict(drop=drop, udauto=k % 2, cndup=(k // 2) % 2, mndup=(k // 3) % 2)))
                if s != 1:
                    T.append((1, (s,), p, dict(looped=1, drop=int(s == 3), tick=7 if p else 0)))
        for s0 in range(4):                     # two modules: every state pair
            for s1 in range(4):
                k += 1
                cnd = (k // 5) % 2
                T.append((2, (s0, s1), k % 2, dict(drop=(k // 2) % 2, mndup=(k // 4) % 2, nauto=0 if cnd else (k // 3) % 2,
                                                   cndup=cnd, ud2auto=k % 2)))
        for pair in ((0, 2), (2, 3), (3, 0), (2, 2), (0, 0), (1, 3)):
            k += 1
            T.append((2, pair, k % 2, dict(looped=1, drop=(k // 2) % 2, tick=1000 if k % 3 == 0 else 0)))
        for pair in ((1, 1), (1, 2), (0, 3), (2, 0)):
            for p in (0, 1):
                T.append((2, pair, p, dict(cb=1)))
                T.append((2, pair, p, dict(cb=2, mndup=p)))
        triples = [(0, 1, 2), (1, 2, 3), (3, 0, 1), (2, 2, 2), (1, 1, 1), (0, 0, 0), (3, 3, 1), (2, 0, 3), (1, 0, 1), (2, 1, 0), (0, 3, 2), (3, 2, 1)]
        for i, t in enumerate(triples):
            T.append((3, t, i % 2, dict(drop=(i // 2) % 2, looped=1 if i % 4 == 1 else 0, udauto=(i // 3) % 2, cndup=(i // 4) % 2)))
        T += [(3, (1, 2, 0), 0, dict(cb=1)), (3, (2, 1, 1), 1, dict(cb=1)), (3, (1, 1, 2), 0, dict(cb=2)), (3, (0, 2, 1), 1, dict(cb=2))]
        for nmod in (1, 2):
            for p in (0, 1):
                for st in range(4):
                    A.append((0, nmod, p, dict(keep=(st + nmod + p) % 2, st=st, udauto=(st + p) % 2, leak=(nmod == 1 and st == 1))))
                for keep in (0, 1):
                    A.append((1, nmod, p, dict(keep=keep)))
                    A.append((2, nmod, p, dict(keep=keep, udauto=keep)))
                    A.append((3, nmod, p, dict(keep=keep)))
                    A.append((6, nmod, p, dict(keep=keep)))
        for p in (0, 1):
            for keep in (0, 1):
                for st in range(4):
                    A.append((4, 1, p, dict(keep=keep, st=st)))
                for st in (0, 1, 2):
                    A.append((5, 2, p, dict(keep=keep, st=st)))
        Gs = [(0, 1, 0), (1, 1, 0), (2, 1, 0), (4, 1, 0), (5, 1, 0)] + [(3, b, l) for b in range(4) for l in (0, 1)]
    js, seen = [], set()
    for nmod, st, persist, kw in T:
        j = teardown(nmod, st, persist, **kw)
        if j.name not in seen:
            seen.add(j.name)
            js.append(j)
    for mode, nmod, persist, kw in A:
        j = autorel(mode, nmod, persist, **kw)
        if j.name not in seen:
            seen.add(j.name)
            js.append(j)
    for g, bst, loop0 in Gs:
        js.append(guard(g, bst, loop0))
    js += [guard(0, flfixed=0), guard(2, flfixed=0), guard(3, short=True)]
    if tier != "quick":
        js += [guard(0, flfixed=1), guard(2, flfixed=1), guard(4, flfixed=5)]
    for repl in (1, 0):
        js.append(l2_job("C07.finalize.replace%d" % repl, "l2/c07_finalize_replace.c", defines={"REPL": repl},
                         symbolic=["flags of the attempted module (non-allocating bits)"],
                         bounds="registration after finalize, existing module %s" % ("replaceable" if repl else "not replaceable"), unwind=13))
    # a second registration attempted re-entrantly from a callback (also of a deny-ctx module)
    for deny in (1, 0):
        for cb in ((0, 1, 2) if (deny or tier != "quick") else (0,)):
            js_extra = l2_job("C07.reregister.deny%d.cb%d" % (deny, cb), "l2/c07_reregister.c", defines={"DENY": deny, "CB": cb},
                              symbolic=["flags of the attempted second context", "errno left by callbacks"],
                              bounds="second m_ctx_register from callback kind %d of a %s module" % (cb, "deny-ctx" if deny else "normal"),
                              unwind=13)
            js.append(js_extra)
    js.append(l2_job("C07.pollinitfail", "l2/c07_pollinitfail.c", symbolic=["errno left by callbacks (int)"],
                     bounds="the allocation of the poll event buffer fails once at loop start (allocator hook)", unwind=13,
                     fp_extra=[(r"memhook\._calloc$", ["vf_calloc"])]))
    for act in (1, 2):
        js.append(l2_job("C07.flushdereg.act%d" % act, "l2/c07_flushdereg.c", defines={"ACT": act},
                         symbolic=["quit code (uint8)", "errno left by callbacks (int)"],
                         bounds="non-persistent context, one module; its CTX_STOPPED handler %s" % ("deregisters the module" if act == 1 else "calls m_ctx_deregister"), unwind=13))
    return js


MANIFEST = {
    "text": "Bounded model checking of the whole core on the OS model, three scenario families over the public API: "
            "(teardown) 0-3 modules brought into every mix of IDLE/RUNNING/PAUSED/STOPPED by real calls, context flags and "
            "name duplication per job, optionally one loop run before, user references retained or dropped, stop callbacks "
            "that deregister another module or call m_ctx_deregister themselves, then m_ctx_deregister(): returns 0, every "
            "retained module is ZOMBIE, stop callback ran exactly once for RUNNING/PAUSED ones, context calls fail with EPIPE, "
            "a fresh context can be registered, allocator-hook count of outstanding library allocations is 0 after the user "
            "references are dropped, auto-free name/user data released exactly once; (automatic release) last module "
            "deregistered directly, from its start callback, from another module's stop callback, from inside handlers of a "
            "dispatch/blocking loop, by replacement, or followed by a late registration: non-persistent context gone "
            "immediately (idle) / when the loop returns (looping, and refuses m_ctx_deregister meanwhile), persistent one "
            "survives until deregistered; (guards) second registration EEXIST with any flag word on idle/looping context and "
            "from a handler and on two threads, finalize gate for any module flag word, the full menu of context and module "
            "calls with unconstrained arguments from a thread without context (also before the thread-specific key exists) "
            "returning an error and leaving module, context, allocations, descriptors and callback log unchanged; the CTX_STOPPED handler of the loop-stop flush deregistering the last module or the context; a loop that fails to start (event buffer allocation refused by the allocator hook) leaves the context idle",
    "note": "call order, module count/states and every context flag bit are per-job constants (a symbolic flag word makes "
            "PERSIST/NAME_DUP tests symbolic: no verdict); symbolic per job: errno left by callbacks, quit code, user data "
            "identity, refused flag words and all arguments of refused calls; bounds: <= 3 modules, <= 1 loop run, 2 "
            "simulated threads at call granularity",
}
