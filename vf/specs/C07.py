"""C07 context lifecycle: one per thread, teardown deregisters every module, auto-release, guards."""
from vf.l2 import l2_job, L2_STUBS

META = {
    "functions": ["ctx.c: m_ctx_register, ctx_new, m_ctx_deregister, ctx_destroy_mods, ctx_dtor, m_ctx, loop_start, "
                  "loop_stop (auto-release), m_ctx_dispatch, m_ctx_loop, m_ctx_quit, m_ctx_finalize, every M_CTX_ASSERT entry",
                  "mod.c: m_mod_register (finalize gate), mod_deregister (auto-release branch), stop, optional_hook, "
                  "module_dtor, every M_MOD_ASSERT entry point of mod.c / ps.c / src.c / evts.c",
                  "structs (map iteration with removal), mem, poll: everything reached"],
    "stubs": L2_STUBS,
    "bounds": "0-3 modules per context, states IDLE/RUNNING/PAUSED/STOPPED reached through real calls, at most one loop "
              "run before the teardown, 2 simulated threads",
    "outside": "more modules than the bound, real thread interleavings (C14), allocation failure, FUSE build",
    "assumptions": [],
}

import os
TMO = int(os.environ.get("C07_TIMEOUT", "900"))
HOOK = [(r"memhook\._free$", ["vf_free"]), (r"memhook\._calloc$", ["vf_calloc"]), (r"memhook\._malloc$", ["vf_malloc"])]
SYM_T = ["errno left by callbacks (int)", "M_CTX_USERDATA_AUTOFREE bit", "M_CTX_NAME_AUTOFREE bit (name not duplicated)",
         "auto-free bit of the fresh context", "quit code (uint8, LOOPED jobs)"]


def teardown(nmod, st, persist, cndup=0, mndup=0, looped=0, drop=0, cb=0, leak=False):
    st = (list(st) + [0, 0, 0])[:3]
    name = "C07.teardown.n%d.s%s.p%d.cd%d.md%d.l%d.d%d.cb%d" % (nmod, "".join(str(x) for x in st[:nmod]) or "-", persist,
                                                              cndup, mndup, looped, drop, cb)
    d = {"NMOD": nmod, "ST0": st[0], "ST1": st[1], "ST2": st[2], "PERSIST": persist, "CNDUP": cndup, "MNDUP": mndup,
         "LOOPED": looped, "DROP": drop, "CB": cb}
    return l2_job(name, "l2/c07_teardown.c", defines=d, symbolic=SYM_T, bounds=name, unwind=13, fp_extra=HOOK, leak=leak, timeout=TMO)


SYM_A = ["errno left by callbacks (int)", "M_CTX_USERDATA_AUTOFREE bit", "module user data identity"]
MODES = {0: "idle", 1: "instart", 2: "dispatch", 3: "loop", 4: "replace", 5: "instop", 6: "lateadd"}


def autorel(mode, nmod, persist, keep=1, st=1, leak=False):
    name = "C07.autorel.%s.n%d.p%d.k%d.s%d" % (MODES[mode], nmod, persist, keep, st)
    d = {"MODE": mode, "NMOD": nmod, "PERSIST": persist, "KEEP": keep, "ST": st}
    return l2_job(name, "l2/c07_autorelease.c", defines=d, symbolic=SYM_A, bounds=name, unwind=13, fp_extra=HOOK, leak=leak, timeout=TMO)


def jobs(tier):
    js = []
    js.append(teardown(2, (1, 0), 1))
    for mode in range(7):
        js.append(autorel(mode, 2 if mode in (5,) else 1, 0))
    js.append(autorel(2, 2, 0, keep=0))
    js.append(autorel(0, 2, 1, keep=0, st=2))
    return js


MANIFEST = {"text": "tbd", "note": "tbd"}
