"""C07 context lifecycle: one per thread, teardown deregisters every module, auto-release, guards."""
from vf.l2 import l2_job, L2_STUBS

META = {
    "functions": ["ctx.c: m_ctx_register, ctx_new, m_ctx_deregister, ctx_destroy_mods, ctx_dtor, m_ctx, loop_start, "
                  "loop_stop (auto-release), m_ctx_dispatch, m_ctx_loop, m_ctx_quit, m_ctx_finalize, every M_CTX_ASSERT entry",
                  "mod.c: m_mod_register (finalize gate), mod_deregister (auto-release branch), stop, optional_hook, "
                  "module_dtor, every M_MOD_ASSERT entry point of mod.c / ps.c / src.c / evts.c",
                  "structs (map iteration with removal), mem, poll: everything reached"],
    "stubs": L2_STUBS,
    "bounds": "0-3 modules per context, states IDLE/RUNNING/PAUSED/STOPPED reached through real calls, at most one loop "
              "run before the teardown, 2 simulated threads",
    "outside": "more modules than the bound, real thread interleavings (C14), allocation failure, FUSE build",
    "assumptions": [],
}

import os
TMO = int(os.environ.get("C07_TIMEOUT", "900"))
HOOK = [(r"memhook\._free$", ["vf_free"]), (r"memhook\._calloc$", ["vf_calloc"]), (r"memhook\._malloc$", ["vf_malloc"])]
SYM_T = ["errno left by callbacks (int)", "module user data identity", "quit code (uint8, LOOPED jobs)"]


def teardown(nmod, st, persist, cndup=0, mndup=0, looped=0, drop=0, cb=0, udauto=0, nauto=0, ud2auto=0, leak=False):
    st = (list(st) + [0, 0, 0])[:3]
    name = "C07.teardown.n%d.s%s.p%d.cd%d.md%d.l%d.d%d.cb%d.f%d%d%d" % (nmod, "".join(str(x) for x in st[:nmod]) or "-", persist,
                                                                     cndup, mndup, looped, drop, cb, udauto, nauto, ud2auto)
    d = {"NMOD": nmod, "ST0": st[0], "ST1": st[1], "ST2": st[2], "PERSIST": persist, "CNDUP": cndup, "MNDUP": mndup,
         "LOOPED": looped, "DROP": drop, "CB": cb, "UDAUTO": udauto, "NAUTO": nauto, "UD2AUTO": ud2auto}
    return l2_job(name, "l2/c07_teardown.c", defines=d, symbolic=SYM_T, bounds=name, unwind=13, fp_extra=HOOK, leak=leak, timeout=TMO)


SYM_A = ["errno left by callbacks (int)", "module user data identity"]
MODES = {0: "idle", 1: "instart", 2: "dispatch", 3: "loop", 4: "replace", 5: "instop", 6: "lateadd"}


def autorel(mode, nmod, persist, keep=1, st=1, udauto=0, leak=False):
    name = "C07.autorel.%s.n%d.p%d.k%d.s%d.f%d" % (MODES[mode], nmod, persist, keep, st, udauto)
    d = {"MODE": mode, "NMOD": nmod, "PERSIST": persist, "KEEP": keep, "ST": st, "UDAUTO": udauto}
    return l2_job(name, "l2/c07_autorelease.c", defines=d, symbolic=SYM_A, bounds=name, unwind=13, fp_extra=HOOK, leak=leak, timeout=TMO)


SYM_G = {0: ["refused flag word (uint, all 32 bits)", "refused user data", "flag word used inside the handler", "quit code", "errno left by handlers"],
         1: ["quit code (uint8)", "errno left by handlers (int)"],
         2: ["flag word of the refused module registration (uint, all bits)", "quit code", "errno left by handlers"],
         3: ["descriptor, source flags, timer period, signal, pid, task id, rate, burst, batch size, batch timeout, unstash count, "
             "quit code, tick period, module flag word (all unconstrained)"],
         4: ["refused flag word (uint)", "refused user data"],
         5: ["quit code, tick period, module flag word (all unconstrained)"]}
GNAMES = {0: "second", 1: "looping", 2: "finalize", 3: "nocontext", 4: "twothreads", 5: "nokey"}


def guard(g, bst=1, loop0=0):
    name = "C07.guard.%s" % GNAMES[g] + (".b%d.l%d" % (bst, loop0) if g == 3 else "")
    j = l2_job(name, "l2/c07_guards.c", defines={"G": g, "BST": bst, "LOOP0": loop0}, symbolic=SYM_G[g], bounds=name, unwind=13,
               fp_extra=HOOK, task_fns=["my_task"], extra_evt=["other_evt"], timeout=TMO,
               unwindset={"vf_main.0": 66} if g == 5 else None)
    if g == 5:
        # the shared OS model, included unchanged by a wrapper that adds validity tracking of the thread-specific key
        j.model = None
        j.extra_harness.append("l2/c07_os_model.c")
    return j


def jobs(tier):
    js = []
    if tier == "quick":
        T = [  # nmod, states, persist, kwargs
            (0, (), 0, dict(udauto=1, nauto=1, ud2auto=1)), (0, (), 1, dict(cndup=1, looped=1)),
            (1, (1,), 0, dict()), (1, (0,), 1, dict(udauto=1)), (1, (2,), 0, dict(drop=1)),
            (2, (1, 0), 1, dict()), (2, (2, 3), 0, dict(mndup=1)), (2, (1, 2), 0, dict(drop=1, cndup=1)),
            (2, (1, 1), 0, dict(cb=1)), (2, (1, 2), 0, dict(cb=2)), (2, (0, 2), 1, dict(looped=1, nauto=1)),
            (3, (1, 2, 3), 0, dict(looped=1, mndup=1, cndup=1)), (3, (0, 1, 2), 1, dict(udauto=1)),
        ]
        A = [  # mode, nmod, persist, kwargs
            (0, 1, 0, dict()), (0, 2, 1, dict(keep=0, st=2)), (0, 2, 0, dict(st=0, udauto=1)), (1, 1, 0, dict()), (1, 2, 1, dict(keep=0)),
            (2, 1, 0, dict()), (2, 2, 0, dict(keep=0)), (2, 1, 1, dict()), (3, 1, 0, dict(keep=0, udauto=1)), (3, 2, 0, dict()),
            (4, 1, 0, dict()), (4, 1, 0, dict(keep=0)), (4, 1, 1, dict(keep=0, st=2)), (5, 2, 0, dict()), (5, 2, 1, dict(st=0)),
            (6, 1, 0, dict()),
        ]
        Gs = [(0, 1, 0), (1, 1, 0), (2, 1, 0), (3, 1, 0), (3, 2, 1), (4, 1, 0), (5, 1, 0)]
    else:
        T, A, Gs = [], [], []
    for nmod, st, persist, kw in T:
        js.append(teardown(nmod, st, persist, **kw))
    for mode, nmod, persist, kw in A:
        js.append(autorel(mode, nmod, persist, **kw))
    for g, bst, loop0 in Gs:
        js.append(guard(g, bst, loop0))
    return js


MANIFEST = {"text": "tbd", "note": "tbd"}
