"""C14 contexts on different threads are independent; modules are thread-confined."""
from vf.runner import Job, fl
from vf.fp import core_fp
from vf.l2 import l2_job, L2_STUBS

META = {
    "functions": ["ctx.c: recv_events (independence unit)", "whole core: every public module / pub-sub / source entry "
                  "point called from a foreign simulated thread (confinement scenarios), m_ctx(), M_MOD_ASSERT, M_CTX_ASSERT"],
    "stubs": ["independence unit: fetch_ms = per-thread symbolic non-decreasing clock, poll_wait = nothing ready, "
              "m_map_iterate = 0"] + L2_STUBS,
    "bounds": "2 contexts / 2 simulated threads, 3 (quick) or 5 (thorough) interleaved loop rounds, interleaving at "
              "public-call granularity; every public entry point once from the foreign thread",
    "outside": "instruction-level data races: CBMC refuses threads that dereference shared pointers (DESIGN.md 5), so "
               "'no unsynchronised access' is claimed only as 'no information flow between contexts through library "
               "state at call granularity'; more than 2 contexts",
    "assumptions": [],
}


def jobs(tier):
    js = []
    for rounds in ([3] if tier == "quick" else [3, 5]):
        js.append(Job("C14.indep.recv_events.R%d" % rounds, "l1/c14_indep.c",
                      sources=["Lib/core/ctx.c", "Lib/mem/mem.c", "Lib/utils/mem.c"], extra_harness=["common/vf_defs.c"],
                      defines={"ROUNDS": rounds, "VF_RECV_EVENTS": fl("recv_events", "ctx.c")},
                      unwind=3 * rounds + 4, fsa=1024, backend="cadical", layer="l1", fp=core_fp(mem_dtors=[]),
                      symbolic=["per-thread clock readings (2 x %d, non-decreasing)" % (3 * rounds + 2),
                                "messages seen so far by each context"],
                      bounds="%d rounds A / A,B interleaved" % rounds, timeout=900))
    for foreign in (0, 1):
        js.append(l2_job("C14.confine.%s" % ("otherctx" if foreign else "noctx"), "l2/c14_confine.c",
                         defines={"FOREIGN_CTX": foreign},
                         symbolic=["errno", "arguments of the refused calls (flags, sizes, periods)"],
                         bounds="every public module/pub-sub/source call once from the foreign thread", unwind=13,
                         unwindset={"vf_same.0": 80, "memcpy.0": 700}))
    js.append(l2_job("C14.confine.otherctx.samename", "l2/c14_confine.c", defines={"FOREIGN_CTX": 1, "SAMENAME": None},
                     symbolic=["errno", "arguments of the refused calls (flags, sizes, periods)"],
                     bounds="as otherctx, the foreign module carries the same name as the target", unwind=13,
                     unwindset={"vf_same.0": 80, "memcpy.0": 700}))
    js.append(l2_job("C14.keyrace", "l2/c14_keyrace.c", symbolic=[],
                     bounds="2 threads registering the first two contexts, one pre-emption point (pthread_key_create)", unwind=13))
    return js


MANIFEST = {
    "text": "Bounded model checking: (a) non-interference (2-safety) of the loop path between two contexts with "
            "per-thread symbolic clocks - the observable state of context A after k rounds is equal whether or not an "
            "unrelated context B runs interleaved; (b) whole-core scenarios on the TLS model: every public module, "
            "pub/sub and source call issued from a foreign simulated thread (own context / no context) is refused and "
            "the module and context blocks are byte-identical afterwards; also when the foreign context holds a module with the same name as the target",
    "note": "interleaving at call granularity only; instruction-level races are outside what CBMC can encode here "
            "(stated as not covered); 2 contexts",
}
