"""C15 names, deny/persist flags, reserved topics."""
from vf.runner import Job, fl
from vf.fp import core_fp, ALL_MEM_DTORS
from vf.l2 import l2_job, L2_STUBS
from vf.specs import C01

L1_SRC = ["Lib/core/ps.c", "Lib/core/ctx.c", "Lib/core/mod.c", "Lib/core/evts.c", "Lib/core/main.c",
          "Lib/core/fs/fs_noop.c", "Lib/structs/queue.c", "Lib/structs/stack.c", "Lib/structs/map.c",
          "Lib/structs/list.c", "Lib/structs/bst.c", "Lib/mem/mem.c", "Lib/utils/mem.c"]
L1_FP = core_fp(mem_dtors=ALL_MEM_DTORS, on_evt=["on_evt"], map_iter=[fl("tell_if", "ps.c")])
OPS = {0: "tell", 1: "publish", 2: "pill", 3: "subscribe", 4: "unsubscribe"}

META = {
    "functions": ["ps.c: m_mod_ps_tell/publish/poisonpill/subscribe/unsubscribe (M_MOD_ASSERT_PERM sites), is_system_message, "
                  "send_msg, tell_pubsub_msg, tell_subscribers, fetch_sub, tell_if", "ctx.c: m_ctx() (curr_mod / DENY_CTX), "
                  "every m_ctx_* entry point reached by the denied-call battery", "mod.c: m_mod_register (name lookup, "
                  "ALLOW_REPLACE), mod_deregister (PERSIST while looping, replacement, context auto-release), "
                  "optional_hook (curr_mod), start, stop", "mod.h: M_MOD_ASSERT, M_MOD_ASSERT_PERM",
                  "map.c, mem.c and everything the whole-core jobs reach"],
    "stubs": ["L1 (perm, prefix): pthread_getspecific = the harness' context (ctx.c:m_ctx() real), fetch_ms = arbitrary "
              "clock, write = mailbox recorder, regcomp -> 0 / regexec -> no match (perm) or match (prefix) / regfree, "
              "libmodule_logger = empty variadic, MAP_SIZE_DEFAULT = 4",
              "L1 (persist.step): stubs of C01.step"] + L2_STUBS,
    "bounds": "perm: one pub/sub call of each of the 5 kinds, flags words of caller and of the module whose callback is "
              "executing over all 32 bits, caller in any state, any token count; prefix: any topic of <= 11 characters or "
              "none; deny-ctx battery: ~30 context / module calls attempted from on_start, on_stop, on_eval, on_evt of a "
              "deny-ctx module reached directly, from the loop, from the flush at loop stop, by replacement, and nested in "
              "a handler of a normal module (depth 2); names: 2-4 registrations of one name (equal content, different "
              "pointers) x flags of the first {none, replace, persist, replace+persist} x its state x context "
              "looping/idle x context persistent or not x other modules present or not",
    "outside": "plugins (dlopen), FS deletion of a persistent module, bound modules, topics longer than 11 characters "
               "(the test reads 10), m_ctx_loop / m_ctx_dispatch / m_ctx_deregister attempted from a denied callback "
               "(they take the same M_CTX_ASSERT first; not executed to keep a mutated run finite)",
    "assumptions": [],
}


def _perm(op, subpre):
    return Job("C15.perm.%s.sub%d" % (OPS[op], subpre), "l1/c15_perm.c", sources=L1_SRC,
               extra_harness=["common/vf_defs.c"], defines={"VF_OP": op, "SUBPRE": subpre},
               src_defines={"FEDEDP_LIBMODULE_VERIF_MAP_SIZE": 4}, fp=L1_FP, fsa=1024, layer="l1", backend="cadical",
               unwind=8, unwindset={"hashmap_hash_string.0": 4, "strcmp.0": 4, "strncmp.0": 12, "strlen.0": 12, "m_mem_unref": 4},
               timeout=600, noflags=["--conversion-check"],
               symbolic=["flags word of the caller (32 bits)", "flags word of the module whose callback runs (32 bits)",
                         "state of the caller (5)", "tokens (u64)", "callback executing: none / caller's / other's",
                         "context looping or idle"],
               bounds="one %s call%s" % (OPS[op], ", caller already subscribed" if subpre else ""))


def _prefix():
    return Job("C15.prefix", "l1/c15_prefix.c", sources=L1_SRC, extra_harness=["common/vf_defs.c"],
               src_defines={"FEDEDP_LIBMODULE_VERIF_MAP_SIZE": 4}, fp=L1_FP, fsa=1024, layer="l1", backend="cadical",
               unwind=8, unwindset={"hashmap_hash_string.0": 13, "strcmp.0": 13, "strncmp.0": 12, "strlen.0": 13, "m_mem_unref": 4,
                                    "vf_main.0": 13, "vf_main.1": 12},
               timeout=600, noflags=["--conversion-check"],
               symbolic=["topic bytes (11 chars)", "topic present or not", "flag bits of the publisher outside the deny "
                         "classes", "state of the publisher", "tokens"],
               bounds="one publish, topic <= 11 characters")


def _persist_l1():
    # C01's one-step unit decides m_mod_deregister from ANY state x flags x context state, incl. PERSIST while LOOPING
    return Job("C15.persist.step", "l1/c01_step.c", defines=dict(C01.DEFS), unwind=6, sources=C01.SRC,
               extra_harness=["common/vf_defs.c"], remove=C01.REMOVE, fsa=1024, layer="l1", backend="cadical",
               fp=C01.FP, unwindset={"hashmap_hash_string.0": 4, "strcmp.0": 24}, timeout=900,
               symbolic=["state (5)", "flags", "tokens (u64)", "ctx looping/idle, persist", "op incl. deregister"],
               bounds="one call: a persistent module is not deregistered by a direct call while the context loops "
                      "(refused, nothing changes), otherwise deregistration succeeds")


KINDS = {0: "start", 1: "stop", 2: "eval", 3: "evt", 4: "nest.start", 5: "nest.stop", 6: "flush", 7: "replace"}


def _deny(kind, dfl, tag):
    return l2_job("C15.denyctx.%s.%s" % (KINDS[kind], tag), "l2/c15_denyctx.c", defines={"KIND": kind, "DFL": "(%s)" % dfl},
                  symbolic=["quit code attempted (uint8)", "errno left by callbacks (int)", "batch size attempted (size_t)"],
                  bounds="callback kind %s, flags of the acting module %s" % (KINDS[kind], dfl), unwind=13, timeout=600,
                  extra_evt=["vf_other_evt"])


def _names(name, d):
    return l2_job("C15.names." + name, "l2/c15_names.c", defines=d,
                  symbolic=["errno left by callbacks (int)", "quit code (uint8)"], bounds=str(d), unwind=13, timeout=600)


def jobs(tier):
    quick = tier == "quick"
    js = []
    for op in range(5):
        for subpre in ((1,) if op == 4 else (0,) if quick else (0, 1)):
            js.append(_perm(op, subpre))
    js.append(_prefix())
    js.append(_persist_l1())
    for kind in range(8):
        js.append(_deny(kind, "M_MOD_DENY_CTX" + ("|M_MOD_ALLOW_REPLACE" if kind == 7 else ""), "deny"))
    ctl = (3, 4) if quick else range(8)
    for kind in ctl:
        js.append(_deny(kind, "M_MOD_DENY_PUB|M_MOD_DENY_SUB" + ("|M_MOD_ALLOW_REPLACE" if kind == 7 else ""), "ctl"))
    R, P = "M_MOD_ALLOW_REPLACE", "M_MOD_PERSIST"
    # names: FL1 flags of the first, ST1 its state (0 IDLE 1 RUNNING 2 PAUSED 3 STOPPED), LOOPING, CTXP (persistent context),
    # HASB (another module registered), NREG (registrations of the name), KEEPREF
    base = {"FL1": "0", "ST1": 1, "LOOPING": 1, "CTXP": 1, "HASB": 1, "NREG": 2, "KEEPREF": 1}

    def nj(name, **kw):
        d = dict(base)
        d.update(kw)
        js.append(_names(name, d))
    nj("dup.running")
    nj("dup.idle.noloop", ST1=0, LOOPING=0, HASB=0, CTXP=0)
    nj("dup.persist", FL1=P)
    nj("dup.stopped", ST1=3)
    nj("dup.paused.noloop", ST1=2, LOOPING=0)
    nj("repl.running", FL1=R)
    nj("repl.idle.noloop", FL1=R, ST1=0, LOOPING=0)
    nj("repl.paused", FL1=R, ST1=2)
    nj("repl.three", FL1=R, NREG=4)
    nj("repl.persist.loop", FL1=R + "|" + P)
    nj("repl.persist.idle", FL1=R + "|" + P, LOOPING=0)
    nj("repl.only.np", FL1=R, ST1=1, LOOPING=0, HASB=0, CTXP=0)
    nj("repl.only.np.noref", FL1=R, ST1=0, LOOPING=0, HASB=0, CTXP=0, KEEPREF=0)
    nj("persist.dereg.loop", FL1=P, NREG=1, DEREG=1)
    nj("persist.dereg.idle", FL1=P, NREG=1, DEREG=1, LOOPING=0)
    if not quick:
        for st in range(4):
            for loop in (0, 1):
                for f, ft in ((R, "r"), ("0", "n"), (R + "|" + P, "rp")):
                    nj("grid.%s.st%d.l%d" % (ft, st, loop), FL1=f, ST1=st, LOOPING=loop)
        nj("repl.only.np.loop", FL1=R, ST1=1, LOOPING=1, HASB=0, CTXP=0)
        nj("repl.stopped.noref", FL1=R, ST1=0, LOOPING=1, KEEPREF=0)
        nj("repl.three.noloop", FL1=R, NREG=4, LOOPING=0)
        for st in range(4):
            nj("persist.dereg.loop.st%d" % st, FL1=P, NREG=1, DEREG=1, ST1=st)
            nj("persist.dereg.idle.st%d" % st, FL1=P, NREG=1, DEREG=1, ST1=st, LOOPING=0)
    for q in (1, 0):
        js.append(l2_job("C15.persist.afterquit%d" % q, "l2/c15_persist_quit.c", defines={"QUIT": q},
                         symbolic=["quit code (uint8)", "errno left by callbacks (int)"],
                         bounds="deregistration of a persistent module from a handler, quit %s" % ("requested first" if q else "not requested"), unwind=13))
    return js


MANIFEST = {
    "text": "Bounded model checking: (L1) every pub/sub entry point with fully symbolic flags words of the caller and of "
            "the module whose callback is executing, any caller state and token count -> table 'denied class => fails "
            "and changes nothing, otherwise goes through'; publish with an arbitrary topic buffer -> refused iff it "
            "starts with the reserved prefix; deregistration from any state x flags x context state (C01's step unit); "
            "(L2, whole core on the OS model) a battery of ~30 context/module calls attempted from each callback kind of "
            "a deny-ctx module (direct, from the loop, from the loop-stop flush, by replacement, nested in a normal "
            "module's handler), all must fail and leave context, modules, mailboxes, descriptors untouched, while the "
            "same calls work in the outer handler, outside callbacks and for a module without the flag; registration of "
            "equal names in every order x replace/persist flags x state of the first x context state",
    "note": "L2 flags are per-job constants (a symbolic flags word forks the heap shape inside m_mod_register); the L1 "
            "units carry the symbolic flags; plugins, FS deletion, bound modules outside; topics <= 11 characters",
}
