"""C20 descriptor hygiene."""
import os
from vf.l2 import l2_job, L2_STUBS
from vf.runner import fl, REPO

KINDS = {1: "fd", 2: "tmr", 3: "sgn", 4: "path", 5: "pid", 6: "task", 7: "thresh"}
ROUTES = {0: "stop", 1: "pill", 2: "dereg", 3: "selfdereg", 4: "srcdereg", 5: "pauseresume", 6: "pausestop",
          7: "selfstop", 8: "pausedsrcdereg"}
KF_DUP = "C20_dup_autoclose"

# The repair of the C20 finding gives the modules' source registries (bst) their own element destructor; the common
# rule for container destructor sites only knows mem_dtor.  remove_node is the name of the element-removal static of
# both bst.c and list.c (one of them is renamed $linkN at link time), so both sites get both targets; a target that
# does not exist in the tree under test is dropped by the runner.
FP_EXTRA = [(r"remove_node::l(\$link\d+)?\.dtor$", ["mem_dtor", fl("mod_src_dtor", "src.c")])]

META = {
    "functions": ["src.c: create_src (DUP -> dup()), src_priv_dtor (AUTOCLOSE), register/deregister_mod_src, "
                  "register/deregister_ctx_src, registry element destructor", "poll/epoll.c: poll_create, "
                  "poll_set_new_evt ADD/RM (closes internal descriptors), poll_destroy",
                  "poll/cmn_linux.c: create_priv_fd (timerfd, signalfd, inotify, pidfd, eventfd)",
                  "mod.c: init_pubsub_fd/_pipe, manage_srcs, reset_module, start, stop, mod_deregister, module_dtor",
                  "ctx.c: recv_events (one-shot removal, poison pill), loop_start/loop_stop (tick source), ctx_dtor, "
                  "m_ctx_fd, m_ctx_set_tick", "evts.c: evt_dtor (reference on the source), m_mod_stash",
                  "ps.c, structs, mem: everything reached"],
    "stubs": L2_STUBS,
    "bounds": "1-2 modules, one source under test per scenario (plus message pipes, poll handle, tick), <= 4 "
              "m_ctx_dispatch calls, descriptor table of 12 slots",
    "outside": "more than one source per module at a time, several contexts, plugin (dlopen) modules, the fuse fs, "
               "kqueue / io_uring back ends, task bodies running in parallel with the loop (deferred-call model; a task "
               "body that runs after its source was destroyed is a lifetime matter of C04/C06 and is kept out of the "
               "scenarios by running the body before the module stops), allocation failure, failing system calls",
    "assumptions": ["descriptor ownership is the OS model's ghost state: a slot is library-owned iff the library opened "
                    "it (pipe, epoll_create1, timerfd_create, signalfd, inotify_init1, pidfd_open, eventfd, dup); the "
                    "duplicate returned by m_ctx_fd() is re-tagged user-owned by the harness (documented contract)"],
}


def _c09_fixed():
    """the source comparators take a source as key (pending C09 repair): one-shot removal of path sources, which
    dereferences a wild pointer in pathcmp on the unrepaired tree (C09's finding, no verdict here), can be exercised"""
    try:
        return "ev_src_t *my = (ev_src_t *)my_data" in open(os.path.join(REPO, "Lib/core/src.c")).read()
    except OSError:
        return False


def _sym(kind, fire_cmp):
    s = ["errno left by callbacks (int)"]
    if kind == 2 and not fire_cmp:
        s.append("timer clock id")
    if kind == 6 and not fire_cmp:
        s.append("task id (int)")
    return s


def _route(kind, route, dup=0, oneshot=0, fire=0, loop=0, ac=0, timeout=600):
    if route in (1, 3, 7) or fire:
        loop = 1
    # a symbolic key is only affordable where no registry comparison reads it on the unrepaired tree (C09)
    cmp_runs = bool(oneshot or kind >= 6) and (fire or route in (3, 7))
    name = "C20.route.%s%s.%s.o%d.f%d.l%d.ac%d" % (KINDS[kind], ".dup" if dup else "", ROUTES[route], oneshot, fire, loop, ac)
    return l2_job(name, "l2/c20_routes.c",
                  defines={"KIND": kind, "ROUTE": route, "DUP": dup, "ONESHOT": oneshot, "FIRE": fire, "LOOP": loop,
                           "AC": ac, "SYMKEY": 0 if cmp_runs else 5},
                  symbolic=_sym(kind, cmp_runs), bounds=name, unwind=13, task_fns=["my_task"], timeout=timeout,
                  kf=[KF_DUP] if dup and ac else [], fp_extra=FP_EXTRA)


def _retain(kind, oneshot=1, ac=0, dup=0, hold=1, rel=0, end=0, timeout=600):
    name = "C20.retain.%s%s.o%d.ac%d.h%d.r%d.e%d" % (KINDS[kind], ".dup" if dup else "", oneshot, ac, hold, rel, end)
    cmp_runs = bool(oneshot or kind >= 6)
    return l2_job(name, "l2/c20_retain.c",
                  defines={"KIND": kind, "ONESHOT": oneshot, "AC": ac, "DUP": dup, "HOLD": hold, "REL": rel, "END": end,
                           "SYMKEY": 0 if cmp_runs else 1},
                  symbolic=_sym(kind, cmp_runs), bounds=name, unwind=13, task_fns=["my_task"], timeout=timeout,
                  kf=[KF_DUP] if dup and ac else [], fp_extra=FP_EXTRA)


def _start(pre, ac, how, again=0, timeout=600):
    name = "C20.start.pre%d.ac%d.how%d.again%d" % (pre, ac, how, again)
    return l2_job(name, "l2/c20_start.c", defines={"PRE": pre, "AC": ac, "HOW": how, "AGAIN": again},
                  symbolic=["errno left by callbacks (int)", "timer clock id"], bounds=name, unwind=13, timeout=timeout,
                  fp_extra=FP_EXTRA)


def _ctx(tick, ctxfd, end, timeout=600):
    name = "C20.ctx.tick%d.fd%d.end%d" % (tick, ctxfd, end)
    return l2_job(name, "l2/c20_ctx.c", defines={"TICK": tick, "CTXFD": ctxfd, "END": end},
                  symbolic=["quit code (uint8)", "errno left by callbacks (int)"], bounds=name, unwind=13, timeout=timeout,
                  fp_extra=FP_EXTRA)


def jobs(tier):
    js = []
    if tier == "quick":
        # every kind along the plain stop and the two in-handler routes; the other routes on fd (auto-close on) and timer
        for k in (1, 2, 3, 4, 5, 6, 7):
            js.append(_route(k, 0, ac=1 if k == 1 else 0))
            js.append(_route(k, 7))
        for r in (1, 2, 3, 4, 5, 6, 8):
            js.append(_route(1, r, ac=1))
            js.append(_route(2, r))
        js += [_route(1, 0, ac=0), _route(1, 5, ac=0), _route(1, 3, ac=0),
               _route(1, 0, dup=1), _route(1, 5, dup=1), _route(1, 7, dup=1), _route(1, 4, dup=1), _route(1, 0, dup=1, ac=1),
               _route(1, 0, oneshot=1, fire=1, ac=1), _route(1, 7, oneshot=1, ac=1), _route(2, 7, oneshot=1),
               _route(2, 2, oneshot=1, fire=1), _route(3, 3), _route(5, 3)]
        js += [_retain(1, ac=1), _retain(1, ac=0), _retain(2), _retain(2, oneshot=0), _retain(2, oneshot=0, hold=2),
               _retain(2, rel=1), _retain(2, end=1), _retain(3), _retain(6), _retain(1, dup=1)]
        js += [_start(0, 0, 0), _start(1, 1, 0), _start(2, 0, 0), _start(1, 1, 1), _start(1, 0, 2), _start(1, 1, 0, again=1)]
        js += [_ctx(1, 1, 0), _ctx(2, 0, 1), _ctx(3, 1, 1), _ctx(4, 1, 0), _ctx(5, 2, 0), _ctx(2, 1, 2), _ctx(6, 0, 0), _ctx(6, 0, 1)]
        for b in (2, 3):
            js.append(l2_job("C20.tbstart.b%d" % b, "l2/c20_tbstart.c", defines={"BURST": b}, symbolic=["errno left by callbacks (int)"],
                             bounds="start of a module whose token bucket holds %d tokens" % b, unwind=13, fp_extra=FP_EXTRA))
        for ac1, ac2, dup2, run in [(1, 1, 0, 1), (0, 1, 0, 1), (1, 1, 0, 0)]:
            nm = "C20.eexist.ac%d%d.dup%d.run%d" % (ac1, ac2, dup2, run)
            js.append(l2_job(nm, "l2/c20_eexist.c", defines={"AC1": ac1, "AC2": ac2, "DUP2": dup2, "RUN": run},
                             symbolic=["errno left by callbacks (int)"], bounds=nm, unwind=13, fp_extra=FP_EXTRA))
        for kind, how in ((0, 0), (0, 1), (1, 0)):
            js.append(l2_job("C20.three.k%d.h%d" % (kind, how), "l2/c20_three.c", defines={"KIND": kind, "HOW": how},
                             symbolic=["errno left by callbacks (int)"],
                             bounds="three %s of one module registered middle/low/high, the middle one %s" %
                                    (("auto-close descriptors", "timers")[kind], ("is deregistered", "fires as a one-shot")[how]), unwind=13, fp_extra=FP_EXTRA))
        return js
    for k in (1, 2, 3, 4, 5, 6, 7):
        for r in range(9):
            if k == 6 and r in (4, 8):      # tasks cannot be deregistered
                continue
            js.append(_route(k, r))
            if r in (0, 2, 5) and k != 1:
                js.append(_route(k, r, loop=1))
    for r in range(9):
        js += [_route(1, r, ac=1), _route(1, r, dup=1), _route(1, r, dup=1, ac=1)]
    for k in (1, 2, 3, 5) + ((4,) if _c09_fixed() else ()):
        for r in (0, 1, 2, 4, 5, 6):
            if r != 4:      # the source is gone after it fired: nothing left to deregister explicitly
                js.append(_route(k, r, oneshot=1, fire=1, ac=1 if k == 1 else 0))
            js.append(_route(k, r, oneshot=1, fire=0, ac=1 if k == 1 else 0))
        for r in (3, 7):
            js.append(_route(k, r, oneshot=1, ac=1 if k == 1 else 0))
    for k in (1, 2, 6, 7):
        for r in (0, 2, 5):
            js.append(_route(k, r, fire=1, ac=1 if k == 1 else 0))
    for k in (1, 2, 3, 5, 6, 7) + ((4,) if _c09_fixed() else ()):
        for end in (0, 1, 2):
            js.append(_retain(k, end=end))
        js += [_retain(k, rel=1), _retain(k, rel=2), _retain(k, hold=0, end=2)]
        if k < 6:
            js += [_retain(k, oneshot=0), _retain(k, oneshot=0, end=1), _retain(k, oneshot=0, end=2)]
        if k != 1:
            js += [_retain(k, hold=2, oneshot=0 if k < 6 else 1)]
    js += [_retain(1, ac=1), _retain(1, ac=1, end=1), _retain(1, ac=1, end=2), _retain(1, ac=1, oneshot=0), _retain(1, dup=1),
           _retain(1, dup=1, ac=1), _retain(1, dup=1, oneshot=0, end=2)]
    for pre, ac in ((0, 0), (1, 0), (1, 1), (2, 0)):
        for how in (0, 1, 2, 3):
            js.append(_start(pre, ac, how))
            if how != 2:
                js.append(_start(pre, ac, how, again=1))
    for tick in range(6):
        for ctxfd in (0, 1, 2):
            for end in (0, 1, 2):
                js.append(_ctx(tick, ctxfd, end))
    for b in (1, 2, 3, 4):
        js.append(l2_job("C20.tbstart.b%d" % b, "l2/c20_tbstart.c", defines={"BURST": b}, symbolic=["errno left by callbacks (int)"],
                         bounds="start of a module whose token bucket holds %d tokens" % b, unwind=13, fp_extra=FP_EXTRA))
    for ac1, ac2, dup2, run in ([(1, 1, 0, 1), (0, 1, 0, 1), (1, 1, 0, 0)] if tier == "quick" else
                                [(a, b, d, rr) for a in (0, 1) for b in (0, 1) for d in (0, 1) for rr in (0, 1)]):
        nm = "C20.eexist.ac%d%d.dup%d.run%d" % (ac1, ac2, dup2, run)
        js.append(l2_job(nm, "l2/c20_eexist.c", defines={"AC1": ac1, "AC2": ac2, "DUP2": dup2, "RUN": run},
                         symbolic=["errno left by callbacks (int)"], bounds=nm, unwind=13, fp_extra=FP_EXTRA))
    for kind, how in ((0, 0), (0, 1), (1, 0)):
        js.append(l2_job("C20.three.k%d.h%d" % (kind, how), "l2/c20_three.c", defines={"KIND": kind, "HOW": how},
                         symbolic=["errno left by callbacks (int)"],
                         bounds="three %s of one module registered middle/low/high, the middle one %s" %
                                (("auto-close descriptors", "timers")[kind], ("is deregistered", "fires as a one-shot")[how]), unwind=13, fp_extra=FP_EXTRA))
    seen, out = set(), []
    for j in js:
        if j.name not in seen:
            seen.add(j.name)
            out.append(j)
    return out


PARALLEL = {"quick": 6, "thorough": 12}

MANIFEST = {
    "text": "Bounded model checking of the whole core on the OS model, whose descriptor table carries ghost ownership "
            "(opened by the library / by the user) and counts every close() of a user descriptor and every close() of "
            "a descriptor that is not open.  Scenario families: (routes) one source of each kind - fd, fd with "
            "library-made duplicate, timer, signal, path, pid, task, threshold - on a RUNNING module x the way the "
            "module leaves RUNNING (stop, poison pill, deregistration from outside, deregistration / stop inside the "
            "handler of the source's own event, explicit source deregistration, pause+resume+stop, stop while paused, "
            "source deregistration while paused) x auto-close / duplicate / one-shot flags x whether the source fired "
            "before; (retain) the handler keeps the event (m_mem_ref, m_mod_stash) and releases it while running, after "
            "the stop, or after module and context are gone; (start) refusing on_start(), self-deregistration in "
            "on_start(), restart; (ctx) tick source set/replaced/cleared around loop runs, m_ctx_fd().  Oracle at the "
            "end of each scenario (every module deregistered, context released, all references dropped): no "
            "library-owned descriptor open, a user descriptor closed exactly once iff registered with auto-close and "
            "never while its source was registered and its module not stopped, never a close() of a descriptor that "
            "is not open; CBMC's pointer checks on top (a source destructor touching a freed module shows up there); three sources of one kind registered middle/low/high with the middle one leaving",
    "note": "flags, kinds, routes and call order are per-job constants: any symbolic bit in a source's flag word "
            "(AUTOCLOSE, ONESHOT, TMR_ABSOLUTE) or a symbolic timer period / signal number / pid gave no verdict in "
            "150 s (10 s concrete), so the quantifier over flag mixes is an enumeration; free per job are only errno left "
            "by callbacks, timer clock id, task id, quit code.  DUP|AUTOCLOSE: the property text has the user's "
            "descriptor closed once, the library closes only its duplicate (known finding C20_dup_autoclose).  "
            "One-shot path sources only on a tree with the C09 comparator repair (pathcmp dereferences a wild pointer "
            "otherwise).  m_ctx_deregister() with registered modules (C07) is not used: every module is deregistered "
            "explicitly and the non-persistent context goes with the last one.",
}
