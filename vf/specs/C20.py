"""C20 descriptor hygiene."""
from vf.l2 import l2_job, L2_STUBS

KINDS = {1: "fd", 2: "tmr", 3: "sgn", 4: "path", 5: "pid", 6: "task", 7: "thresh"}
ROUTES = {0: "stop", 1: "pill", 2: "dereg", 3: "selfdereg", 4: "srcdereg", 5: "pauseresume", 6: "pausestop",
          7: "selfstop", 8: "pausedsrcdereg"}
SYM = ["auto-close bit", "source key (timer period/clock/absolute bit, signal number, pid, task id, threshold)",
       "errno left by callbacks (int)"]


def _route(kind, route, dup=0, oneshot=0, fire=0, loop=0, ac=0, timeout=900, symabs=0):
    name = "C20.route.%s%s.%s.o%d.f%d.l%d.ac%d%s" % (KINDS[kind], ".dup" if dup else "", ROUTES[route], oneshot, fire, loop, ac, ".abs" if symabs else "")
    return l2_job(name, "l2/c20_routes.c",
                  defines={"KIND": kind, "ROUTE": route, "DUP": dup, "ONESHOT": oneshot, "FIRE": fire, "LOOP": loop, "AC": ac, "SYMABS": symabs}, timeout=timeout,
                  symbolic=SYM, bounds=name, unwind=13, task_fns=["my_task"],
                  kf=["C20_dup_autoclose"] if dup else [])


def jobs(tier):
    js = []
    js.append(_route(2, 0, timeout=200))
    js.append(_route(2, 0, ac=-1, timeout=200))
    js.append(_route(2, 0, symabs=1, timeout=200))
    js.append(_route(1, 0, ac=1, timeout=200))
    return js


META = {}
MANIFEST = {"text": "tbd", "note": "tbd"}
