#!/usr/bin/env python3
"""
Runner for the solver-based checks of /verif (see DESIGN.md section 3).

For one property id it
  1. compiles the /repo sources each job needs with goto-cc (fresh, from the
     current working tree of /repo) into a scratch directory,
  2. links them with the job's harness (and OS model), cuts/replaces function
     bodies, restricts function pointers (goto-instrument),
  3. runs cbmc on every job in parallel with --unwinding-assertions,
  4. classifies every verification condition, applies the known-findings
     protocol, extracts counterexamples and replays them,
  5. writes /verif/evidence/<ID>.json.

Exit status: 0 = property held on everything explored (KNOWN-FINDING lines are
allowed), 1 = at least one VIOLATION line, 2 = inconclusive (time-out, memory
cap, failed unwinding assertion, vacuous harness, tool error).
"""
import argparse
import concurrent.futures as cf
import hashlib
import importlib
import json
import os
import re
import resource
import shutil
import subprocess
import sys
import tempfile
import threading
import time

VERIF = os.path.dirname(os.path.dirname(os.path.abspath(__file__)))
REPO = os.environ.get("VF_REPO", "/repo")
GUARD = "FEDEDP_LIBMODULE_VERIF"

INC_DIRS = [
    "Lib/core", "Lib/core/public", "Lib/core/fs", "Lib/core/poll", "Lib/utils",
    "Lib/structs", "Lib/structs/public", "Lib/mem", "Lib/mem/public",
    "Lib/thpool", "Lib/thpool/public",
]

LOG_CTX = {"Lib/core": "CORE", "Lib/structs": "STRUCTS", "Lib/mem": "MEM",
           "Lib/thpool": "THPOOL", "Lib/utils": "OTHER"}

CORE_SRCS = [
    "Lib/core/ctx.c", "Lib/core/mod.c", "Lib/core/ps.c", "Lib/core/src.c",
    "Lib/core/evts.c", "Lib/core/main.c", "Lib/core/fs/fs_noop.c",
    "Lib/core/poll/epoll.c", "Lib/core/poll/cmn_linux.c",
]
STRUCT_SRCS = ["Lib/structs/map.c", "Lib/structs/bst.c", "Lib/structs/queue.c",
               "Lib/structs/stack.c", "Lib/structs/list.c"]
BASE_SRCS = ["Lib/mem/mem.c", "Lib/utils/mem.c", "Lib/utils/utils.c"]
WHOLE_CORE = CORE_SRCS + STRUCT_SRCS + BASE_SRCS

DEFAULT_FLAGS = [
    "--unwinding-assertions", "--drop-unused-functions", "--no-malloc-may-fail",
    "--pointer-overflow-check", "--conversion-check",
]

# sites that are resolved the same way in every job (text of the called
# expression -> targets); part of every claim: memhook is never changed by the
# harnesses (CBMC keeps an assertion "pointer must be one of ..." per site)
COMMON_FP = [
    (r"memhook\._free$", ["free"]),
    (r"memhook\._calloc$", ["calloc"]),
    (r"memhook\._malloc$", ["malloc"]),
    (r"libmodule_logger\.", ["vf_log_noop"]),
]


def fl(sym, src):
    """name goto-cc --export-file-local-symbols gives a static function"""
    base = os.path.basename(src).replace(".", "_")
    return "__CPROVER_file_local_%s_%s" % (base, sym)


class Job:
    def __init__(self, name, harness, sources=(), defines=None, remove=(),
                 fp=(), unwind=8, unwindset=None, flags=(), noflags=(),
                 timeout=600, mem_gb=16, backend="minisat", entry="vf_main",
                 kf=(), symbolic=(), bounds="", export_local=True,
                 model=None, src_defines=None, leak=False, layer="l0",
                 object_bits=None, fsa=None, gen_body=None, common_fp=True,
                 native=None, extra_harness=(), export_extra=(), cflags=()):
        self.name = name
        self.harness = harness            # relative to /verif/harness
        self.sources = list(sources)      # relative to /repo
        self.defines = dict(defines or {})
        self.remove = list(remove)        # function bodies to remove (symbols)
        self.fp = list(fp)                # (regex on site expr or site name, [targets])
        self.unwind = unwind
        self.unwindset = dict(unwindset or {})
        self.flags = list(flags)
        self.noflags = list(noflags)
        self.timeout = timeout
        self.mem_gb = mem_gb
        self.backend = backend
        self.entry = entry
        self.kf = list(kf)                # known-finding ids this harness can exclude
        self.symbolic = list(symbolic)
        self.bounds = bounds
        self.export_local = export_local
        self.model = model                # e.g. "os_model.c"
        self.src_defines = dict(src_defines or {})
        self.leak = leak
        self.layer = layer
        self.object_bits = object_bits
        self.fsa = fsa                    # --max-field-sensitivity-array-size
        self.gen_body = gen_body          # (regex, option) for --generate-function-body
        self.common_fp = common_fp
        self.native = native              # dict describing native replay build, or None
        self.extra_harness = list(extra_harness)
        # --export-file-local-symbols is applied to Lib/core/* (their statics are unique) and to the sources
        # named here; two struct sources with equally named statics (remove_node in list.c and bst.c) cannot
        # both be exported in one link
        self.export_extra = list(export_extra)
        self.cflags = list(cflags)            # extra compiler flags for repo sources, harness and native build


# ---------------------------------------------------------------------------
# known findings
# ---------------------------------------------------------------------------

def load_known_findings():
    path = os.path.join(VERIF, "known_findings.txt")
    known, fixed = {}, []
    if not os.path.exists(path):
        return known, fixed
    for line in open(path):
        line = line.strip()
        if not line or line.startswith("#"):
            continue
        if line.startswith("known:"):
            m = re.match(r"known:\s+property=(\S+)\s+id=(\S+)\s+(.*)$", line)
            if m:
                known.setdefault(m.group(1), {})[m.group(2)] = m.group(3)
        elif line.startswith("fixed:"):
            fixed.append(line)
    return known, fixed


# ---------------------------------------------------------------------------
# build helpers
# ---------------------------------------------------------------------------

class BuildError(Exception):
    pass


_live = set()          # process groups of running tools (killed by --first-violation once a violation is in)


def run(cmd, cwd=None, timeout=None, mem_gb=None, env=None, stdout=None):
    def limits():
        if mem_gb:
            lim = int(mem_gb * (1 << 30))
            resource.setrlimit(resource.RLIMIT_AS, (lim, lim))
        os.setsid()
    t0 = time.time()
    p = subprocess.Popen(cmd, cwd=cwd, stdout=stdout or subprocess.PIPE,
                         stderr=subprocess.PIPE, preexec_fn=limits, env=env)
    _live.add(p.pid)
    try:
        out, err = p.communicate(timeout=timeout)
        to = False
    except subprocess.TimeoutExpired:
        try:
            os.killpg(p.pid, 9)
        except ProcessLookupError:
            pass
        out, err = p.communicate()
        to = True
    _live.discard(p.pid)
    ru = resource.getrusage(resource.RUSAGE_CHILDREN)
    return p.returncode, out or b"", err or b"", to, time.time() - t0


_obj_lock = threading.Lock()
_obj_cache = {}


def compile_repo_source(work, src, defines, export_local, cflags=()):
    """goto-cc one /repo source; cached per (src, defines, export_local) in this run"""
    key = (src, tuple(sorted(defines.items())), export_local, tuple(cflags))
    with _obj_lock:
        ent = _obj_cache.get(key)
        if ent is None:
            ent = _obj_cache[key] = {"lock": threading.Lock(), "path": None, "err": None}
    with ent["lock"]:
        if ent["path"] or ent["err"]:
            if ent["err"]:
                raise BuildError(ent["err"])
            return ent["path"]
        h = hashlib.sha1(repr(key).encode()).hexdigest()[:10]
        out = os.path.join(work, "obj", src.replace("/", "_") + "." + h + ".gb")
        os.makedirs(os.path.dirname(out), exist_ok=True)
        libdir = "/".join(src.split("/")[:2])
        cmd = ["goto-cc", "-D_GNU_SOURCE", "-DNDEBUG", "-D" + GUARD,
               "-DLIBMODULE_LOG_CTX=" + LOG_CTX.get(libdir, "OTHER")]
        for k, v in defines.items():
            cmd.append("-D%s=%s" % (k, v) if v is not None else "-D" + k)
        for d in INC_DIRS:
            cmd += ["-I", os.path.join(REPO, d)]
        if export_local:
            cmd.append("--export-file-local-symbols")
        cmd += list(cflags)
        cmd += ["-c", os.path.join(REPO, src), "-o", out]
        rc, o, e, to, _ = run(cmd, timeout=120)
        if rc != 0:
            ent["err"] = "goto-cc failed on %s:\n%s" % (src, e.decode(errors="replace")[-2000:])
            raise BuildError(ent["err"])
        ent["path"] = out
        return out


def list_fp_sites(gb, want_functions=False):
    rc, o, e, to, _ = run(["goto-instrument", "--show-goto-functions", gb], timeout=300)
    text = o.decode(errors="replace")
    sites = {}
    for m in re.finditer(r"ASSIGN (\S+\.function_pointer_call\.\d+) := (.*)", text):
        sites[m.group(1)] = m.group(2).strip()
    if want_functions:
        funcs = set(re.findall(r"^\S+ /\* (\S+) \*/$", text, flags=re.M))
        return sites, funcs
    return sites


def build_job(work, job, variant_defs, tag):
    """returns path of the final goto binary"""
    jd = os.path.join(work, "jobs", re.sub(r"[^A-Za-z0-9_.-]", "_", job.name) + "." + tag)
    os.makedirs(jd, exist_ok=True)
    objs = [compile_repo_source(work, s, job.src_defines,
                                job.export_local and (s.startswith("Lib/core/") or s in job.export_extra),
                                job.cflags)
            for s in job.sources]
    # harness (+ model)
    hdefs = dict(job.defines)
    hdefs.update(variant_defs)
    hsrcs = [os.path.join(VERIF, "harness", job.harness)]
    hsrcs += [os.path.join(VERIF, "harness", x) for x in job.extra_harness]
    if job.model:
        hsrcs.append(os.path.join(VERIF, "model", job.model))
    hobjs = []
    for i, hs in enumerate(hsrcs):
        out = os.path.join(jd, "h%d.gb" % i)
        cmd = ["goto-cc", "-D_GNU_SOURCE", "-D" + GUARD, "-DLIBMODULE_LOG_CTX=OTHER",
               "-I", os.path.join(VERIF, "harness", "common"),
               "-I", os.path.join(VERIF, "model"), "-I", os.path.join(REPO, "Lib")]
        for k, v in hdefs.items():
            cmd.append("-D%s=%s" % (k, v) if v is not None else "-D" + k)
        for k, v in job.src_defines.items():
            cmd.append("-D%s=%s" % (k, v) if v is not None else "-D" + k)
        for d in INC_DIRS:
            cmd += ["-I", os.path.join(REPO, d)]
        if job.export_local:
            cmd.append("--export-file-local-symbols")
        cmd += job.cflags
        cmd += ["-c", hs, "-o", out]
        rc, o, e, to, _ = run(cmd, timeout=120)
        if rc != 0:
            raise BuildError("goto-cc failed on harness %s:\n%s" % (hs, e.decode(errors="replace")[-3000:]))
        hobjs.append(out)
    cur = None
    # link the repo objects first, cut the stubbed bodies out of that binary, then link the harness (whose
    # definitions of the cut symbols win).  (goto-instrument on single objects loses the file-local renaming.)
    linked = os.path.join(jd, "linked.gb")
    if objs:
        repo_gb = os.path.join(jd, "repo.gb")
        rc, o, e, to, _ = run(["goto-cc"] + objs + ["-o", repo_gb], timeout=300)
        if rc != 0:
            raise BuildError("link of repo objects failed:\n" + e.decode(errors="replace")[-3000:])
        if job.remove:
            out = os.path.join(jd, "repo.rm.gb")
            cmd = ["goto-instrument"]
            for r in job.remove:
                cmd += ["--remove-function-body", r]
            cmd += [repo_gb, out]
            rc, o, e, to, _ = run(cmd, timeout=120)
            if rc != 0:
                raise BuildError("remove-function-body failed: " + e.decode(errors="replace")[-2000:])
            repo_gb = out
        objs = [repo_gb]
    rc, o, e, to, _ = run(["goto-cc"] + hobjs + objs + ["-o", linked], timeout=300)
    if rc != 0:
        raise BuildError("link failed:\n" + e.decode(errors="replace")[-3000:])
    cur = linked
    if job.gen_body:
        out = os.path.join(jd, "gen.gb")
        rc, o, e, to, _ = run(["goto-instrument", "--generate-function-body", job.gen_body[0],
                               "--generate-function-body-options", job.gen_body[1], cur, out], timeout=300)
        if rc != 0:
            raise BuildError("generate-function-body failed: " + e.decode(errors="replace")[-2000:])
        cur = out
    # function pointer restrictions
    rules = list(job.fp) + (COMMON_FP if job.common_fp else [])
    restr_used = {}
    if rules:
        lab = os.path.join(jd, "lab.gb")
        ej = os.path.join(jd, "empty.json")
        open(ej, "w").write("{}")
        rc, o, e, to, _ = run(["goto-instrument", "--function-pointer-restrictions-file", ej, cur, lab], timeout=300)
        if rc != 0:
            raise BuildError("labelling failed: " + e.decode(errors="replace")[-2000:])
        sites, funcs = list_fp_sites(lab, want_functions=True)
        restr = {}
        for site, expr in sites.items():
            for rx, targets in rules:
                if re.search(rx, expr) or re.search(rx, site):
                    # a target that does not exist in this tree (e.g. a destructor added by a later fix) is
                    # dropped: the restricted site still asserts "pointer is one of the remaining targets"
                    tg = [t for t in targets if t in funcs]
                    if tg:
                        restr[site] = tg
                    break
        restr_used = {s: {"expr": sites[s], "targets": t} for s, t in restr.items()}
        if restr:
            rj = os.path.join(jd, "restr.json")
            json.dump(restr, open(rj, "w"))
            out = os.path.join(jd, "restr.gb")
            rc, o, e, to, _ = run(["goto-instrument", "--function-pointer-restrictions-file", rj, cur, out], timeout=300)
            if rc != 0:
                raise BuildError("restriction failed: " + e.decode(errors="replace")[-3000:])
            cur = out
    return cur, jd, restr_used


def cbmc_cmd(job, gb, extra=()):
    cmd = ["cbmc", gb, "--function", job.entry, "--json-ui", "--verbosity", "9"]
    flags = [f for f in DEFAULT_FLAGS if f not in job.noflags] + job.flags
    cmd += flags
    cmd += ["--unwind", str(job.unwind)]
    if job.unwindset:
        cmd += ["--unwindset", ",".join("%s:%d" % kv for kv in job.unwindset.items())]
    if job.leak:
        cmd += ["--memory-leak-check"]
    if job.object_bits:
        cmd += ["--object-bits", str(job.object_bits)]
    if job.fsa:
        cmd += ["--max-field-sensitivity-array-size", str(job.fsa)]
    env = None
    if job.backend == "cadical":
        cmd += ["--sat-solver", "cadical"]
    elif job.backend == "kissat":
        cmd += ["--external-sat-solver", "kissat"]
    elif job.backend == "z3":
        cmd += ["--z3"]
    elif job.backend == "cvc5":
        cmd += ["--cvc5"]
    elif job.backend == "cvc5-int":
        cmd += ["--cvc5", "--slice-formula"]
        env = dict(os.environ)
        env["PATH"] = os.path.join(VERIF, "bin", "shim") + ":" + env.get("PATH", "")
    cmd += list(extra)
    return cmd, env


def parse_cbmc(out):
    """returns dict(status, results[list], messages, runtimes)"""
    try:
        data = json.loads(out.decode(errors="replace"))
    except Exception:
        # truncated output (killed): try to salvage
        return {"ok": False, "results": [], "msgs": [], "solver_s": 0.0, "symex_s": 0.0, "err": "unparsable cbmc output"}
    results, msgs = [], []
    status = None
    solver_s = symex_s = 0.0
    vccs = None
    queries = 0
    maxvars = maxclauses = 0
    steps = None
    for e in data:
        if not isinstance(e, dict):
            continue
        if "result" in e:
            results = e["result"]
        if "cProverStatus" in e:
            status = e["cProverStatus"]
        mt = e.get("messageText")
        if mt:
            if e.get("messageType") == "ERROR":
                msgs.append(mt)
            m = re.match(r"Runtime Solver: ([0-9.e+-]+)s", mt)
            if m:
                solver_s += float(m.group(1))
            m = re.match(r"Runtime Symex: ([0-9.e+-]+)s", mt)
            if m:
                symex_s += float(m.group(1))
            m = re.match(r"Generated (\d+) VCC\(s\), (\d+) remaining", mt)
            if m:
                vccs = (int(m.group(1)), int(m.group(2)))
            m = re.match(r"size of program expression: (\d+) steps", mt)
            if m:
                steps = int(m.group(1))
            m = re.match(r"(\d+) variables, (\d+) clauses", mt)
            if m:
                queries += 1
                maxvars = max(maxvars, int(m.group(1)))
                maxclauses = max(maxclauses, int(m.group(2)))
    return {"ok": status is not None, "status": status, "results": results, "msgs": msgs,
            "solver_s": solver_s, "symex_s": symex_s, "vccs": vccs, "queries": queries,
            "sat_vars": maxvars, "sat_clauses": maxclauses, "steps": steps}


def classify(res):
    """split the property list of one cbmc run"""
    fails, unwind_fail, witness_ok, witness_missing, unknown = [], [], [], [], []
    n_ok = 0
    for r in res["results"]:
        desc = r.get("description", "")
        st = r.get("status")
        cls = r.get("sourceLocation", {}).get("propertyClass", "") or r.get("propertyClass", "")
        pid = r.get("property", "")
        if desc.startswith("WITNESS:"):
            (witness_ok if st == "FAILURE" else witness_missing).append(desc)
            continue
        if st == "SUCCESS":
            n_ok += 1
        elif st == "FAILURE":
            if "unwind" in pid or "unwinding" in desc:
                unwind_fail.append(pid)
            else:
                fails.append({"property": pid, "description": desc,
                              "where": "%s:%s" % (r.get("sourceLocation", {}).get("file", "?"),
                                                  r.get("sourceLocation", {}).get("line", "?")),
                              "function": r.get("sourceLocation", {}).get("function", "")})
        else:
            unknown.append(pid)
    return {"fails": fails, "unwind_fail": unwind_fail, "witness_ok": witness_ok,
            "witness_missing": witness_missing, "unknown": unknown, "n_ok": n_ok,
            "n_total": len(res["results"])}


def extract_trace(res_json, prop):
    """pull the nondet inputs and the failing step for one property out of a --trace run"""
    try:
        data = json.loads(res_json.decode(errors="replace"))
    except Exception:
        return None
    for e in data:
        if isinstance(e, dict) and "result" in e:
            for r in e["result"]:
                if r.get("property") == prop and "trace" in r:
                    inputs, interesting = [], []
                    for st in r["trace"]:
                        if st.get("stepType") != "assignment":
                            continue
                        lhs = st.get("lhs", "")
                        val = st.get("value", {})
                        v = val.get("data", val.get("name"))
                        func = st.get("sourceLocation", {}).get("function", "")
                        if st.get("hidden"):
                            continue
                        if lhs == "vf_nd_val":
                            inputs.append({"lhs": lhs, "value": v, "function": func,
                                           "line": st.get("sourceLocation", {}).get("line")})
                        elif st.get("sourceLocation", {}).get("file", "").startswith(os.path.join(VERIF, "harness")) \
                                and "$tmp" not in lhs and not lhs.startswith("__CPROVER") \
                                and not lhs.startswith("return_value_"):
                            interesting.append({"lhs": lhs, "value": v,
                                                "line": st.get("sourceLocation", {}).get("line")})
                    return {"inputs": inputs, "harness_assignments": interesting[-120:]}
    return None


# ---------------------------------------------------------------------------
# running one job
# ---------------------------------------------------------------------------

def run_variant(work, job, variant_defs, tag, want_trace_for=None):
    t0 = time.time()
    rec = {"job": job.name, "variant": tag, "defines": dict(job.defines, **variant_defs)}
    try:
        gb, jd, restr = build_job(work, job, variant_defs, tag)
    except BuildError as ex:
        rec.update(verdict="error", error=str(ex), wall_s=time.time() - t0)
        return rec
    rec["fp_restrictions"] = len(restr)
    cmd, env = cbmc_cmd(job, gb)
    rc, out, err, to, wall = run(cmd, timeout=job.timeout, mem_gb=job.mem_gb, env=env)
    rec["cbmc_cmd"] = " ".join(cmd[:1] + ["<goto-binary>"] + cmd[2:])
    rec["cbmc_wall_s"] = round(wall, 2)
    if to:
        rec.update(verdict="timeout", wall_s=time.time() - t0)
        return rec
    res = parse_cbmc(out)
    if not res["ok"]:
        msg = (res.get("err") or "") + " rc=%s " % rc + err.decode(errors="replace")[-500:] + out.decode(errors="replace")[-800:]
        rec.update(verdict="error", error="cbmc gave no verdict (memory cap or crash?): " + msg, wall_s=time.time() - t0)
        return rec
    c = classify(res)
    rec.update(vcs=c["n_total"], vcs_ok=c["n_ok"], solver_s=round(res["solver_s"], 2),
               symex_s=round(res["symex_s"], 2), witnesses=c["witness_ok"], vccs=res.get("vccs"),
               solver_queries=res.get("queries"), sat_vars=res.get("sat_vars"), sat_clauses=res.get("sat_clauses"),
               steps=res.get("steps"))
    if res["msgs"] and not res["results"]:
        rec.update(verdict="error", error="; ".join(res["msgs"])[:2000], wall_s=time.time() - t0)
        return rec
    if c["unwind_fail"]:
        rec.update(verdict="unwind", detail=c["unwind_fail"][:5], wall_s=time.time() - t0)
        return rec
    if c["fails"]:
        rec["verdict"] = "fail"
        rec["fails"] = c["fails"][:40]
        # counterexample for the first few failing properties
        traces = {}
        for f in c["fails"][:2]:
            cmd2, env2 = cbmc_cmd(job, gb, ["--trace", "--property", f["property"]])
            rc2, out2, err2, to2, _ = run(cmd2, timeout=job.timeout, mem_gb=job.mem_gb, env=env2)
            if not to2:
                tr = extract_trace(out2, f["property"])
                if tr:
                    traces[f["property"]] = tr
        rec["traces"] = traces
        rec["wall_s"] = time.time() - t0
        return rec
    if c["witness_missing"] or not c["witness_ok"]:
        rec.update(verdict="vacuous", detail=c["witness_missing"] or ["no WITNESS assertion in harness"],
                   wall_s=time.time() - t0)
        return rec
    if c["unknown"]:
        rec.update(verdict="error", error="properties with UNKNOWN status: %s" % c["unknown"][:5],
                   wall_s=time.time() - t0)
        return rec
    rec.update(verdict="pass", wall_s=time.time() - t0)
    return rec


def run_job(work, job, known_ids):
    """apply the known-finding protocol to one job; returns list of variant records"""
    active = [k for k in job.kf if k in known_ids]
    recs = []
    if active:
        excl = {"VF_KF_" + re.sub(r"[^A-Za-z0-9]", "_", k): None for k in active}
        r = run_variant(work, job, excl, "excl")
        r["role"] = "property with known-finding classes excluded: " + ",".join(active)
        recs.append(r)
        r2 = run_variant(work, job, {}, "full")
        r2["role"] = "confirm known findings: " + ",".join(active)
        r2["kf"] = active
        recs.append(r2)
    else:
        r = run_variant(work, job, {}, "full")
        r["role"] = "property"
        recs.append(r)
    return recs


# ---------------------------------------------------------------------------
# replay
# ---------------------------------------------------------------------------

def write_replay(prop, job, rec, fail):
    d = os.path.join(VERIF, "replay")
    os.makedirs(d, exist_ok=True)
    tr = (rec.get("traces") or {}).get(fail["property"])
    body = {"property_id": prop, "job": job.name, "harness": job.harness, "defines": rec.get("defines"),
            "failed": fail, "counterexample": tr, "cbmc_cmd": rec.get("cbmc_cmd"),
            "how_to_replay": "bin/check %s --replay <this file>  (re-runs the job with --trace; "
                             "native replay where the harness supports it)" % prop}
    h = hashlib.sha1(json.dumps(body, sort_keys=True, default=str).encode()).hexdigest()[:10]
    path = os.path.join(d, "%s-%s-%s.json" % (prop, re.sub(r"[^A-Za-z0-9_.-]", "_", job.name), h))
    json.dump(body, open(path, "w"), indent=1, default=str)
    return path


def native_replay(work, job, rec, fail):
    """L0/L2 harnesses are plain C: rebuild with gcc + sanitizers against the real sources and feed
    the solver's nondet values back.  Returns (status, text) with status in
    reproduced / not-reproduced / unsupported."""
    if not job.native:
        return "unsupported", "no native build for this harness layer"
    tr = (rec.get("traces") or {}).get(fail["property"])
    if not tr:
        return "unsupported", "no trace"
    nd = os.path.join(work, "native", re.sub(r"[^A-Za-z0-9_.-]", "_", job.name))
    os.makedirs(nd, exist_ok=True)
    vals = []
    for i in tr["inputs"]:
        v = i["value"]
        if isinstance(v, str):
            v = v.strip()
            if v.lower() in ("true", "false"):
                v = "1" if v.lower() == "true" else "0"
            v = re.sub(r"[uUlL]+$", "", v)
            if not re.match(r"^-?\d+$", v):
                v = "0"
        vals.append(str(v))
    open(os.path.join(nd, "vf_replay_values.h"), "w").write(
        "static const char *vf_replay_values[] = {%s};\nstatic const int vf_replay_n = %d;\n"
        % (",".join('"%s"' % v for v in vals) or '"0"', len(vals)))
    exe = os.path.join(nd, "replay")
    cmd = ["gcc", "-g", "-O0", "-fsanitize=address,undefined", "-fno-sanitize-recover=undefined",
           "-D_GNU_SOURCE", "-DNDEBUG", "-DVF_NATIVE", "-D" + GUARD, "-DLIBMODULE_LOG_CTX=OTHER",
           "-I", nd, "-I", os.path.join(VERIF, "harness", "common"), "-I", os.path.join(VERIF, "model"),
           "-I", os.path.join(REPO, "Lib")]
    for k, v in dict(job.defines, **rec.get("defines", {})).items():
        cmd.append("-D%s=%s" % (k, v) if v is not None else "-D" + k)
    for k, v in job.src_defines.items():
        cmd.append("-D%s=%s" % (k, v) if v is not None else "-D" + k)
    for d in INC_DIRS:
        cmd += ["-I", os.path.join(REPO, d)]
    cmd += job.cflags
    cmd += [os.path.join(VERIF, "harness", job.harness)]
    cmd += [os.path.join(VERIF, "harness", x) for x in job.extra_harness]
    cmd += [os.path.join(VERIF, "harness", "common", "vf_native.c")]
    if job.model:
        cmd.append(os.path.join(VERIF, "model", job.model))
    for s in job.native.get("sources", job.sources):
        cmd.append(os.path.join(REPO, s))
    # units outside the harness' scope stay unresolved (calling one jumps to 0 and is classified below)
    cmd += ["-o", exe, "-lpthread", "-ldl", "-no-pie", "-Wl,--unresolved-symbols=ignore-all"]
    rc, o, e, to, _ = run(cmd, timeout=180)
    if rc != 0:
        return "unsupported", "native build failed: " + e.decode(errors="replace")[-1500:]
    env = dict(os.environ, ASAN_OPTIONS="detect_leaks=0:abort_on_error=0", UBSAN_OPTIONS="print_stacktrace=1")
    rc, o, e, to, _ = run([exe], timeout=60, env=env)
    full = (o + e).decode(errors="replace")
    text = full[-3000:]
    if "VF-ASSUME-FAILED" in full:
        return "not-reproduced", text
    if re.search(r"\(pc 0x0+ ", text):
        return "unsupported", "native run called a function outside the linked units: " + text
    if re.search(r"\(pc 0x0+ ", full):
        return "unsupported", "native run called a function outside the linked units: " + text
    if "VF-FAIL" in full or "ERROR: AddressSanitizer" in full or "runtime error" in full or rc < 0:
        return "reproduced", text
    return "not-reproduced", text


# ---------------------------------------------------------------------------
# main driver
# ---------------------------------------------------------------------------

def functions_encoded(job_records):
    return None


def main(argv=None):
    ap = argparse.ArgumentParser()
    ap.add_argument("prop")
    ap.add_argument("--tier", default=os.environ.get("VERIF_TIER", "quick"), choices=["quick", "thorough"])
    ap.add_argument("--jobs", default=None, help="regex: only run matching jobs")
    ap.add_argument("--keep", action="store_true")
    ap.add_argument("--first-violation", action="store_true",
                    help="seed re-checking only: stop as soon as one job reports a violation (no evidence is written)")
    ap.add_argument("--replay", default=None)
    ap.add_argument("-P", type=int, default=int(os.environ.get("VF_PAR", "0")))
    ap.add_argument("--no-evidence", action="store_true")
    args = ap.parse_args(argv)
    prop = args.prop
    seed = int(os.environ.get("VERIF_SEED", "0") or 0)
    t0 = time.time()

    sys.path.insert(0, VERIF)
    spec = importlib.import_module("vf.specs." + prop)
    jobs = spec.jobs(args.tier)
    if args.replay:
        rp = json.load(open(args.replay))
        jobs = [j for j in jobs if j.name == rp["job"]]
        if not jobs:  # the job may belong to the other tier
            other = "thorough" if args.tier == "quick" else "quick"
            jobs = [j for j in spec.jobs(other) if j.name == rp["job"]]
    if args.jobs:
        jobs = [j for j in jobs if re.search(args.jobs, j.name)]
    if not jobs:
        print("no jobs selected")
        return 2
    known_all, fixed = load_known_findings()
    known = known_all.get(prop, {})

    base = os.environ.get("VF_TMP") or tempfile.gettempdir()
    work = tempfile.mkdtemp(prefix="vf-%s-" % prop, dir=base)
    par = args.P or getattr(spec, "PARALLEL", {}).get(args.tier, 14)
    all_recs = []
    try:
        with cf.ThreadPoolExecutor(max_workers=par) as ex:
            futs = {ex.submit(run_job, work, j, set(known)): j for j in jobs}
            stop_now = False
            for f in cf.as_completed(futs):
                if stop_now:
                    continue
                j = futs[f]
                try:
                    recs = f.result()
                except Exception as e:  # noqa
                    recs = [{"job": j.name, "variant": "full", "verdict": "error", "error": repr(e), "role": "property"}]
                if args.first_violation and any(r.get("kf") is None and r.get("verdict") == "fail" for r in recs):
                    stop_now = True
                    for g in futs:
                        g.cancel()
                    for pid in list(_live):
                        try:
                            os.killpg(pid, 9)
                        except (ProcessLookupError, PermissionError):
                            pass
                for r in recs:
                    r["_job"] = j
                    all_recs.append(r)
                    print("[%s] %-44s %-5s %-8s vcs=%s steps=%s symex=%ss solver=%ss wall=%.1fs %s" % (
                        prop, j.name, r.get("variant"), r.get("verdict"), r.get("vcs", "-"), r.get("steps", "-"),
                        r.get("symex_s", "-"), r.get("solver_s", "-"), r.get("wall_s", 0.0),
                        (r.get("error") or "")[:300].replace("\n", " | ")), flush=True)

        # ---- verdict -------------------------------------------------------
        violations, inconclusive, kf_lines = [], [], []
        seen_kf = set()
        for r in all_recs:
            j = r["_job"]
            v = r["verdict"]
            if r.get("kf") is not None:
                # confirmation run of known findings: failures are the listed findings
                if v == "fail":
                    for k in r["kf"]:
                        if k not in seen_kf:
                            seen_kf.add(k)
                            f0 = r["fails"][0]
                            kf_lines.append("KNOWN-FINDING: property=%s id=%s %s [job %s: %s at %s]" % (
                                prop, k, known[k], j.name, f0["description"], f0["where"]))
                elif v in ("timeout", "error", "unwind"):
                    # the property-run with exclusions decides; a confirmation run that gives no verdict is only noted
                    r["note"] = "confirmation run gave no verdict"
                continue
            if v == "pass":
                continue
            if v == "fail":
                for f in r["fails"][:3]:
                    path = write_replay(prop, j, r, f)
                    st, text = native_replay(work, j, r, f)
                    r.setdefault("replays", []).append({"property": f["property"], "path": path, "native": st,
                                                        "native_output": text[-800:]})
                    rp = json.load(open(path))
                    rp["native_replay"] = {"status": st, "output": text[-3000:]}
                    json.dump(rp, open(path, "w"), indent=1, default=str)
                    violations.append((j, f, path, st))
            else:
                inconclusive.append((j, r))
        for l in kf_lines:
            print(l)
        for k in known:
            if k not in seen_kf and any(k in j.kf for j in jobs):
                print("NOTE: known finding %s of %s did not reproduce in this run (tier %s)" % (k, prop, args.tier))
        for j, f, path, st in violations:
            print("VIOLATION property=%s replay=%s" % (prop, path))
            print("  job=%s failed=%s (%s) at %s native-replay=%s" % (j.name, f["property"], f["description"], f["where"], st))
        for j, r in inconclusive:
            print("INCONCLUSIVE property=%s job=%s verdict=%s %s" % (prop, j.name, r["verdict"],
                  (r.get("error") or str(r.get("detail") or ""))[:400].replace("\n", " | ")))

        # ---- evidence ------------------------------------------------------
        if not args.no_evidence and not args.replay and not args.jobs and not args.first_violation:
            write_evidence(prop, args.tier, seed, spec, jobs, all_recs, violations, inconclusive, kf_lines,
                           time.time() - t0)
        if violations:
            return 1
        if inconclusive:
            return 2
        return 0
    finally:
        if args.keep:
            print("work dir kept:", work)
        else:
            shutil.rmtree(work, ignore_errors=True)


def write_evidence(prop, tier, seed, spec, jobs, recs, violations, inconclusive, kf_lines, wall):
    meta = getattr(spec, "META", {})
    prop_runs = [r for r in recs if r.get("kf") is None]
    nontrivial = [r for r in prop_runs if r.get("verdict") == "pass" and r.get("witnesses") and r["_job"].symbolic]
    samples = []
    for r in recs[:]:
        j = r["_job"]
        samples.append({
            "job": j.name, "variant": r.get("variant"), "role": r.get("role"), "harness": j.harness,
            "defines": r.get("defines"), "symbolic": j.symbolic, "bounds": j.bounds,
            "unwind": j.unwind, "unwindset": j.unwindset, "verdict": r.get("verdict"),
            "vcs": r.get("vcs"), "vcs_discharged": r.get("vcs_ok"), "witnesses_reached": r.get("witnesses"),
            "symex_s": r.get("symex_s"), "solver_s": r.get("solver_s"), "wall_s": round(r.get("wall_s", 0), 2),
            "vccs_generated_remaining": r.get("vccs"), "solver_queries": r.get("solver_queries"),
            "sat_vars": r.get("sat_vars"), "sat_clauses": r.get("sat_clauses"), "program_steps": r.get("steps"),
            "backend": j.backend, "fails": r.get("fails"), "replays": r.get("replays"),
            "cbmc_cmd": r.get("cbmc_cmd"), "note": r.get("note"),
        })
    ev = {
        "property_id": prop,
        "tier": tier,
        "seed": seed,
        "level": "model_checking",
        "coverage": {
            "evaluations": len(recs),
            "distinct_nontrivial": len({(r["job"], r.get("variant")) for r in nontrivial}),
            "rule": "one evaluation = one CBMC query (harness x job parameters) over the real /repo sources; "
                    "non-trivial = the job has at least one free (nondet) variable listed under 'symbolic', its "
                    "WITNESS assertion(s) were reached (non-vacuous) and every VC was discharged; jobs are distinct "
                    "by (harness, parameters)",
            "samples": samples,
            "obligations": sum(r.get("vcs") or 0 for r in recs),
            "discharged": sum(r.get("vcs_ok") or 0 for r in recs),
            "solver_s_total": round(sum(r.get("solver_s") or 0 for r in recs), 2),
            "solver_queries": sum(r.get("solver_queries") or 0 for r in recs),
            "symex_s_total": round(sum(r.get("symex_s") or 0 for r in recs), 2),
            "functions_encoded": meta.get("functions", []),
            "units": sorted({s for j in jobs for s in j.sources}),
            "stubs": meta.get("stubs", []),
            "bounds": meta.get("bounds", ""),
            "outside_claim": meta.get("outside", ""),
            "known_findings_reported": kf_lines,
            "inconclusive_jobs": [j.name for j, r in inconclusive],
            "exhaustive": False,
            "checker_cmd": "cbmc 6.11.0 (--unwinding-assertions, default MiniSat unless a job names another back end)",
        },
        "assumptions": meta.get("assumptions", []) + [
            "CBMC 6.11.0, goto-cc and the SAT/SMT back end are trusted",
            "allocation failure is out of scope (--no-malloc-may-fail)",
            "logging (libmodule_logger) is replaced by an empty variadic function; memhook is malloc/calloc/free",
        ],
        "wall_s": round(wall, 2),
        "violations": len(violations),
    }
    os.makedirs(os.path.join(VERIF, "evidence"), exist_ok=True)
    json.dump(ev, open(os.path.join(VERIF, "evidence", prop + ".json"), "w"), indent=1, default=str)


if __name__ == "__main__":
    sys.exit(main())
