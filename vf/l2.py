"""Common job settings of the whole-core (L2) scenario harnesses."""
import os
from vf.runner import Job, fl, WHOLE_CORE, VERIF
from vf.fp import core_fp, ALL_MEM_DTORS, SRC_CMPS, SRC_PROCS

CFLAGS = ["-include", os.path.join(VERIF, "model", "vf_os.h")]
MAP_SIZE = 4
UNWINDSET = {"hashmap_hash_string.0": 26, "strcmp.0": 26, "strncmp.0": 26, "strlen.0": 26, "memcmp.0": 26}
MAP_ITER = ["evaluate_module", "flush_pubsub_msgs", fl("tell_if", "ps.c"), fl("ctx_destroy_mods", "ctx.c")]
L2_STUBS = [
    "kernel/libc = OS model model/os_model.c (descriptor table, pipes of bounded capacity, epoll level-triggered with "
    "EPOLLONESHOT, timerfd/signalfd/inotify/pidfd/eventfd as slots, clock = +1 ms per reading unless a job says "
    "symbolic, TLS per simulated thread, regcomp accepts all, regexec = harness relation, dlopen fails)",
    "thread pool = deferred-call model (tasks run synchronously at a later epoll_wait or at pool free)",
    "libmodule_logger = empty variadic", "fs = fs_noop.c (default build)",
    "MAP_SIZE_DEFAULT = %d through the FEDEDP_LIBMODULE_VERIF hook" % MAP_SIZE,
]


def l2_fp(extra_evt=(), extra=(), task_fns=()):
    rules = core_fp(mem_dtors=ALL_MEM_DTORS, on_evt=["vf_on_evt"] + list(extra_evt), on_start=["vf_on_start"],
                    on_stop=["vf_on_stop"], on_eval=["vf_on_eval"], comps=SRC_CMPS,
                    process=SRC_PROCS + [fl("process_tick", "ctx.c")], map_iter=MAP_ITER, extra=list(extra))
    rules.append((r"vf_tasks\[.*\]\.fn$", [fl("task_thread", "src.c")]))
    rules.append((r"task_src\.tid\.fn$", list(task_fns) or ["vf_task_fn"]))
    rules.append((r"^vf_pthread_once::fn$", [fl("make_key", "ctx.c")]))
    rules.append((r"\.logger$", [fl("default_logger", "ctx.c")]))
    return rules


def l2_job(name, harness, defines=None, symbolic=(), bounds="", unwind=8, timeout=900, fp=None, leak=False,
           kf=(), unwindset=None, mem_gb=16, extra_evt=(), task_fns=(), fp_extra=()):
    us = dict(UNWINDSET)
    us.update({"m_mem_unref": 6})
    us.update(unwindset or {})
    return Job(name, harness, sources=WHOLE_CORE, extra_harness=["common/vf_defs.c"], model="os_model.c",
               defines=defines or {}, src_defines={"FEDEDP_LIBMODULE_VERIF_MAP_SIZE": MAP_SIZE}, cflags=CFLAGS,
               unwind=unwind, unwindset=us, fp=fp or l2_fp(extra_evt=extra_evt, task_fns=task_fns, extra=fp_extra), fsa=1024,
               object_bits=12, backend="cadical", layer="l2", symbolic=list(symbolic), bounds=bounds, timeout=timeout,
               leak=leak, kf=list(kf), mem_gb=mem_gb, noflags=["--conversion-check"], native={"sources": WHOLE_CORE})
