/* Prelude of the L1 (core logic unit) harnesses: the real core TUs are linked, the layers below the unit are
 * replaced by the stubs each harness lists.  Blocks for context and module are real m_mem blocks. */
#ifndef VF_L1_H
#define VF_L1_H
#include "vf.h"
#include "ps.h"
#include "src.h"
#include "ctx.h"
#include "evts.h"
#include "poll.h"

/* the thread's context, as m_ctx() would find it in TLS (stub of ctx.c:m_ctx unless the harness links ctx.c) */
extern m_ctx_t *vf_the_ctx;

static inline m_ctx_t *vf_l1_ctx(void) {
    m_ctx_t *c = m_mem_new(sizeof(m_ctx_t), NULL);
    VF_ASSUME(c != NULL);
    return c;
}

/* a registered module block as m_mod_register leaves it (containers real, sources/subscriptions absent) */
static inline m_mod_t *vf_l1_mod(m_ctx_t *c, m_evt_cb on_evt) {
    m_mod_t *mod = m_mem_new(sizeof(m_mod_t), NULL);
    VF_ASSUME(mod != NULL);
    mod->ctx = c;
    mod->state = M_MOD_IDLE;
    mod->hook.on_evt = on_evt;
    mod->recvs = m_stack_new(NULL);
    mod->stashed = m_queue_new(mem_dtor);
    mod->batch.events = m_queue_new(mem_dtor);
    VF_ASSUME(mod->recvs && mod->stashed && mod->batch.events);
    mod->tb.burst = UINT64_MAX;
    mod->tb.tokens = UINT64_MAX;
    mod->pubsub_fd[0] = mod->pubsub_fd[1] = -1;
    mod->name = "m";
    return mod;
}
#endif
