/* definitions shared by all harnesses: the logger table (logging = empty body) */
#include "vf.h"
void vf_log_noop(const char *caller, int lineno, const char *fmt, ...) { (void)caller; (void)lineno; (void)fmt; }
#define VF_N5 { vf_log_noop, vf_log_noop, vf_log_noop, vf_log_noop, vf_log_noop }
m_logger libmodule_logger = { VF_N5, VF_N5, VF_N5, VF_N5, 0 };
