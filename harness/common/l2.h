/* Prelude of the whole-core (L2) scenario harnesses: all of Lib/core + structs + mem are real; the kernel and libc
 * are the OS model (model/os_model.c, force-included vf_os.h).  A scenario is a straight-line program over the public
 * API; callbacks are the recording handlers below, with an optional scenario-specific action. */
#ifndef VF_L2_H
#define VF_L2_H
#include "vf.h"
#include "vf_os.h"
#include "ps.h"
#include "src.h"
#include "ctx.h"
#include "evts.h"
#include "poll.h"

#ifndef VF_NMOD
#define VF_NMOD 3
#endif
#ifndef VF_LOGN
#define VF_LOGN 6
#endif
enum { VF_CB_EVT = 0, VF_CB_START, VF_CB_STOP, VF_CB_EVAL };

typedef struct {
    m_src_types type;
    bool system;                 /* pub/sub events */
    const m_mod_t *sender;
    const char *topic;
    const void *data;
    const void *userdata;
    long ival;                   /* fd / ns / signo / pid / tid */
    int call;                    /* number of the handler invocation that carried it */
    m_mod_states state;          /* state of the receiving module at delivery */
} vf_rec_t;

m_mod_t *vf_mods[VF_NMOD];
vf_rec_t vf_log[VF_NMOD][VF_LOGN];
int vf_nlog[VF_NMOD], vf_ncalls[VF_NMOD], vf_nstart[VF_NMOD], vf_nstop[VF_NMOD], vf_neval[VF_NMOD];
int vf_evt_not_running;                                  /* handler entered while the module was not RUNNING */
bool vf_start_ret[VF_NMOD] = { true, true, true };
bool vf_eval_ret[VF_NMOD] = { true, true, true };
int vf_errno_after_cb; bool vf_set_errno;                /* user code leaves an errno behind */
static const char *const vf_names[4] = { "a", "b", "c", "d" };

static inline int vf_idx(const m_mod_t *m) { for (int i = 0; i < VF_NMOD; i++) if (vf_mods[i] == m) return i; return 0; }

#ifdef VF_ACTION
static void VF_ACTION(int who, int kind, m_mod_t *m, const m_queue_t *q);
#endif

void vf_on_evt(m_mod_t *m, const m_queue_t *const q) {
    int w = vf_idx(m);
    int call = vf_ncalls[w]++;
    if (!m_mod_is(m, M_MOD_RUNNING)) vf_evt_not_running++;
    m_itr_foreach(q, {
        m_evt_t *e = m_itr_get(m_itr);
        if (vf_nlog[w] < VF_LOGN) {
            vf_rec_t *r = &vf_log[w][vf_nlog[w]];
            r->type = e->type; r->userdata = e->userdata; r->call = call; r->state = m->state;
            if (e->type == M_SRC_TYPE_PS) { r->system = e->ps_evt->system; r->sender = e->ps_evt->sender; r->topic = e->ps_evt->topic; r->data = e->ps_evt->data; }
            else if (e->type == M_SRC_TYPE_FD) r->ival = e->fd_evt->fd;
            else if (e->type == M_SRC_TYPE_TMR) r->ival = (long)e->tmr_evt->ns;
            else if (e->type == M_SRC_TYPE_SGN) r->ival = e->sgn_evt->signo;
            else if (e->type == M_SRC_TYPE_PID) r->ival = e->pid_evt->pid;
            else if (e->type == M_SRC_TYPE_TASK) r->ival = e->task_evt->tid;
        }
        vf_nlog[w]++;
    });
#ifdef VF_ACTION
    VF_ACTION(w, VF_CB_EVT, m, q);
#endif
    if (vf_set_errno) errno = vf_errno_after_cb;
}
bool vf_on_start(m_mod_t *m) {
    int w = vf_idx(m); vf_nstart[w]++;
#ifdef VF_ACTION
    VF_ACTION(w, VF_CB_START, m, NULL);
#endif
    if (vf_set_errno) errno = vf_errno_after_cb;
    return vf_start_ret[w];
}
void vf_on_stop(m_mod_t *m) {
    int w = vf_idx(m); vf_nstop[w]++;
#ifdef VF_ACTION
    VF_ACTION(w, VF_CB_STOP, m, NULL);
#endif
    if (vf_set_errno) errno = vf_errno_after_cb;
}
bool vf_on_eval(m_mod_t *m) {
    int w = vf_idx(m); vf_neval[w]++;
#ifdef VF_ACTION
    VF_ACTION(w, VF_CB_EVAL, m, NULL);
#endif
    return vf_eval_ret[w];
}
/* body of a task source */
int vf_task_runs;
int vf_task_fn(void *arg) { (void)arg; vf_task_runs++; return 7; }
static const m_mod_hook_t vf_hook = { vf_on_start, vf_on_eval, vf_on_evt, vf_on_stop };

/* the regex relation: by default nothing matches (literal subscriptions only); scenarios that use regular-expression
 * subscriptions define VF_CUSTOM_MATCH and their own vf_match() */
#ifndef VF_CUSTOM_MATCH
int vf_match(const void *reg, const char *topic) { (void)reg; (void)topic; return REG_NOMATCH; }
#endif

#ifndef VF_CUSTOM_KEY_HOOK
void vf_key_create_hook(void) { }
#endif

static inline void vf_ctx(m_ctx_flags fl) { int r = m_ctx_register("ctx", fl, NULL); VF_ASSUME(r == 0); }
static inline m_mod_t *vf_mod(int i, m_mod_flags fl, const void *ud) {
    int r = m_mod_register(vf_names[i], &vf_mods[i], &vf_hook, fl, ud);
    VF_ASSUME(r == 0 && vf_mods[i] != NULL);
    return vf_mods[i];
}
#endif
