/* Common prelude of every harness.  Compiles under goto-cc (symbolic) and under gcc (native replay, -DVF_NATIVE). */
#ifndef VF_H
#define VF_H
#include <stddef.h>
#include <stdint.h>
#include <stdbool.h>
#include <stdlib.h>
#include <string.h>
#include <errno.h>
#include <sys/types.h>
#include "log.h"
#include "mem.h"

_Bool nondet_bool(void);
unsigned char nondet_uchar(void);
int nondet_int(void);
unsigned nondet_uint(void);
size_t nondet_size_t(void);
uint64_t nondet_u64(void);
int64_t nondet_i64(void);
double nondet_double(void);

void vf_log_noop(const char *caller, int lineno, const char *fmt, ...);

/* every free variable is drawn through one of these wrappers so that its value shows up in the counterexample
 * trace as an assignment to vf_nd_val (in call order) - that is what the native replay feeds back */
#ifndef VF_NATIVE
static inline _Bool vf_nd_bool(void) { _Bool vf_nd_val = nondet_bool(); return vf_nd_val; }
static inline unsigned char vf_nd_uchar(void) { unsigned char vf_nd_val = nondet_uchar(); return vf_nd_val; }
static inline int vf_nd_int(void) { int vf_nd_val = nondet_int(); return vf_nd_val; }
static inline unsigned vf_nd_uint(void) { unsigned vf_nd_val = nondet_uint(); return vf_nd_val; }
static inline size_t vf_nd_size_t(void) { size_t vf_nd_val = nondet_size_t(); return vf_nd_val; }
static inline uint64_t vf_nd_u64(void) { uint64_t vf_nd_val = nondet_u64(); return vf_nd_val; }
static inline int64_t vf_nd_i64(void) { int64_t vf_nd_val = nondet_i64(); return vf_nd_val; }
static inline double vf_nd_double(void) { double vf_nd_val = nondet_double(); return vf_nd_val; }
#define nondet_bool vf_nd_bool
#define nondet_uchar vf_nd_uchar
#define nondet_int vf_nd_int
#define nondet_uint vf_nd_uint
#define nondet_size_t vf_nd_size_t
#define nondet_u64 vf_nd_u64
#define nondet_i64 vf_nd_i64
#define nondet_double vf_nd_double
#endif

#ifndef VF_NATIVE
#define VF_ASSUME(c)        __CPROVER_assume(c)
#define VF_CHECK(c, label)  __CPROVER_assert((c), "VF:" label)
#define VF_WITNESS(label)   __CPROVER_assert(0, "WITNESS:" label)
#else
#include <stdio.h>
void vf_native_fail(const char *label, const char *file, int line);
void vf_native_assume_failed(const char *file, int line);
#define VF_ASSUME(c)        do { if (!(c)) vf_native_assume_failed(__FILE__, __LINE__); } while (0)
#define VF_CHECK(c, label)  do { if (!(c)) vf_native_fail(label, __FILE__, __LINE__); } while (0)
#define VF_WITNESS(label)   do { } while (0)
#endif

/* choose a value in [0, n) */
#define VF_PICK(var, n) unsigned char var = nondet_uchar(); VF_ASSUME(var < (n))

#endif
