/* native replay support: nondet_* return the solver's values in call order */
#include <stdio.h>
#include <stdlib.h>
#include <stdint.h>
#include <stdbool.h>
#include "vf_replay_values.h"
static int vf_pos;
static long long nextv(void) {
    if (vf_pos >= vf_replay_n) return 0;
    return strtoll(vf_replay_values[vf_pos++], NULL, 0);
}
static unsigned long long nextu(void) {
    if (vf_pos >= vf_replay_n) return 0;
    return strtoull(vf_replay_values[vf_pos++], NULL, 0);
}
_Bool nondet_bool(void) { return nextv() != 0; }
unsigned char nondet_uchar(void) { return (unsigned char)nextv(); }
int nondet_int(void) { return (int)nextv(); }
unsigned nondet_uint(void) { return (unsigned)nextu(); }
size_t nondet_size_t(void) { return (size_t)nextu(); }
uint64_t nondet_u64(void) { return (uint64_t)nextu(); }
int64_t nondet_i64(void) { return (int64_t)nextv(); }
double nondet_double(void) { return (double)nextv(); }
void vf_native_fail(const char *label, const char *file, int line) {
    fprintf(stderr, "VF-FAIL %s at %s:%d\n", label, file, line);
    exit(3);
}
void vf_native_assume_failed(const char *file, int line) {
    fprintf(stderr, "VF-ASSUME-FAILED at %s:%d (trace does not satisfy the harness preconditions natively)\n", file, line);
    exit(0);
}
int vf_main(void);
int main(void) { return vf_main(); }
