/* C13 (a): NARR (1 or 2) consecutive arrivals decided by the real static push_evt() of ctx.c on the real queue.c /
 * mem.c / evts.c (new_evt, evt_dtor).  Stubs: m_ctx() (not called on this path), fetch_ms (clock).
 * Pre-state: K events already accumulated for the module (K is a per-job constant: the number of heap blocks must be
 * concrete, L1_NOTES), shaped like direct-tell messages (no source block); batch size `len` over the full size_t,
 * batch timeout `ns` over the full u64, token bucket fields arbitrary.
 * Two flavours (measured: with everything symbolic AND the real destruction of the delivered queue one job needs
 * 18 M SAT variables / 16 GB, because after the first symbolic enqueue-or-release branch every m_mem_unref fans out):
 *  - decision jobs (-DVF_RECORDER, Job(remove=["call_pubsub_cb"])): every arriving event is fully symbolic - source
 *    flags word (priority bits in the combinations the registration code can produce: LOW, NORM, HIGH, NORM|HIGH for
 *    descriptors; INTERNAL bit; every other bit free), source user pointer among { &mod->batch (the batch timer),
 *    &mod->tb (token bucket refill timer), anything else }, or no source at all (direct tell / broadcast: process_ps
 *    leaves evt->src NULL; "default if unspecified" = normal priority, docs/concepts/mod.md).  call_pubsub_cb is
 *    replaced by a recorder that runs the recording handler on a non-empty queue and keeps the queue.
 *  - delivery jobs (-DVF_CLASS=c [-DVF_CLASS2=c2]): the class of each arrival is a per-job constant (0 LOW, 1 NORM,
 *    2 HIGH, 3 descriptor = NORM|HIGH, 4 tell, 5 batch timer tick, 6 token bucket tick), everything else symbolic, and
 *    the REAL call_pubsub_cb (ps.c) hands the queue to the recording handler and destroys it with the real evt_dtor.
 * Oracle = decision table written from the property text, applied to a model of the pending events:
 *   trigger  <=>  high priority arrival
 *              |  normal priority arrival and (a batch size is configured and count >= size
 *                                              |  neither batch size nor batch timeout configured)
 *              |  the batch timer expired and something is pending
 *   trigger  => exactly one invocation with all pending events (+ the arriving one unless it is a library timer tick)
 *               in arrival order, nothing left behind;
 *   !trigger => no invocation, the arriving event retained behind the older ones (order kept);
 *   library timer ticks are never handed to the user; over the whole run nothing is delivered twice or lost. */
#include "l1.h"
#ifdef VF_NATIVE
#define m_ctx vf_real_m_ctx       /* ctx.c's own m_ctx() is not what the harness wants: keep it under another name */
#include <core/ctx.c>             /* native replay: static push_evt() reached by textual inclusion */
#undef m_ctx
#include <core/evts.c>
#define VF_PUSH_EVT push_evt
#define VF_EVT_DTOR evt_dtor
#endif
#ifndef K
#define K 1
#endif
#ifdef VF_CLASS2
#define NARR 2
#elif !defined(NARR)
#define NARR 1
#endif
#define NID (K + NARR)
m_ctx_t *vf_the_ctx;
m_ctx_t *m_ctx(void) { return vf_the_ctx; }
void fetch_ms(uint64_t *val, uint64_t *ctr) { *val = nondet_u64(); if (ctr) (*ctr)++; }
void VF_PUSH_EVT(m_mod_t *mod, evt_priv_t *evt);   /* = static push_evt() of ctx.c */
void VF_EVT_DTOR(void *);                          /* = static evt_dtor() of evts.c */

static void *ident[NID + 1];                       /* ident[i] = block of event i (arrival order); NULL = a library tick */
static int calls, nseen, seen[NID + 2];
void on_evt(m_mod_t *m, const m_queue_t *const q) {
    calls++;
    m_itr_foreach(q, {
        void *e = m_itr_get(m_itr);
        int id = -1;
        for (int i = 0; i < NID; i++) if (e != NULL && e == ident[i]) id = i;
        if (nseen < NID + 2) seen[nseen] = id;
        nseen++;
    });
}
#if defined(VF_RECORDER) && !defined(VF_NATIVE)
/* stands for ps.c:call_pubsub_cb: nothing is invoked for an empty queue, otherwise the current handler gets it */
void call_pubsub_cb(m_mod_t *mod, m_queue_t *evts) {
    if (m_queue_len(evts) == 0) return;
    on_evt(mod, evts);
}
#endif

static char other_user;
static size_t len;
static uint64_t ns;
/* model: ids pending (accumulated, not yet handed over), ids expected to have been handed over so far */
static int pend[NID + 1], npend, expd[NID + 1], nexp, exp_calls;
static _Bool in_sync = 1;                          /* cleared once a wrong decision has been reported */

/* one arrival; cls >= 0: class fixed (a constant at every call site), cls < 0: symbolic */
static inline void arrive(m_mod_t *mod, int a, int cls) {
    if (!in_sync) return;
    ev_src_t *src = m_mem_new(sizeof(ev_src_t), NULL); VF_ASSUME(src != NULL);
    src->type = M_SRC_TYPE_TMR;
    src->mod = mod;
    unsigned f; unsigned char which; _Bool tell;
    if (cls >= 0) {
        f = cls == 0 ? M_SRC_PRIO_LOW : cls == 1 || cls == 4 ? M_SRC_PRIO_NORM : cls == 2 ? M_SRC_PRIO_HIGH :
            cls == 3 ? (M_SRC_PRIO_NORM | M_SRC_PRIO_HIGH)        /* create_src() ORs HIGH into a descriptor source */
                     : (M_SRC_INTERNAL | M_SRC_PRIO_HIGH);         /* as evts.c / mod.c register their timers */
        which = cls == 5 ? 0 : cls == 6 ? 1 : 2;
        tell = cls == 4;
    } else {
        f = nondet_uint();
        unsigned prio = f & M_SRC_PRIO_MASK;
        VF_ASSUME(prio == M_SRC_PRIO_LOW || prio == M_SRC_PRIO_NORM || prio == M_SRC_PRIO_HIGH ||
                  prio == (M_SRC_PRIO_NORM | M_SRC_PRIO_HIGH));
        which = nondet_uchar(); VF_ASSUME(which < 3);
        tell = nondet_bool();
    }
    src->flags = (m_src_flags)f;
    if (which == 0) src->userptr = &mod->batch; else if (which == 1) src->userptr = &mod->tb; else src->userptr = &other_user;
    evt_priv_t *nw = new_evt(src); VF_ASSUME(nw != NULL);
    if (tell) {                                       /* what process_ps does for a direct tell: the subscription is NULL */
        m_mem_unref(nw->src);
        nw->src = NULL;
    }
    _Bool internal = !tell && (f & M_SRC_INTERNAL);
    ident[K + a] = internal ? NULL : (void *)nw;

    VF_PUSH_EVT(mod, nw);                             /* the loop hands its reference over */

    _Bool trigger;
    if (internal) trigger = which == 0 && npend > 0;  /* batch timeout expired with events pending */
    else {
        pend[npend++] = K + a;
        if (!tell && (f & M_SRC_PRIO_HIGH)) trigger = 1;
        else if (!tell && (f & M_SRC_PRIO_LOW)) trigger = 0;
        else trigger = len != 0 ? (size_t)npend >= len : ns == 0;   /* normal priority */
    }
    if (trigger) {
        for (int i = 0; i < NID; i++) if (i < npend) expd[nexp++] = pend[i];
        npend = 0;
        exp_calls++;
    }
    VF_CHECK(calls == exp_calls, "handler invoked exactly when a trigger of the property holds (once)");
    if (calls != exp_calls) { in_sync = 0; return; }  /* already reported: the model no longer describes the run */
    VF_CHECK(nseen == nexp, "an invocation carries every pending event, none twice, no library timer tick");
    VF_CHECK(m_queue_len(mod->batch.events) == npend, "retained without an invocation, nothing left behind after one");
}

int vf_main(void) {
    vf_the_ctx = vf_l1_ctx();
    m_mod_t *mod = vf_l1_mod(vf_the_ctx, on_evt);
    mod->state = M_MOD_RUNNING;                       /* events only arrive for a RUNNING module */
    len = nondet_size_t();
    ns = nondet_u64();
    mod->batch.len = len;
    mod->batch.timer.ns = ns;
    mod->tb.burst = nondet_u64();
    mod->tb.tokens = nondet_u64();

    for (int i = 0; i < K; i++) {
        evt_priv_t *e = m_mem_new(sizeof(evt_priv_t), VF_EVT_DTOR); VF_ASSUME(e != NULL);
        e->evt.type = M_SRC_TYPE_PS;
        int r = m_queue_enqueue(mod->batch.events, e); VF_ASSUME(r == 0);
        ident[i] = e;
        pend[npend++] = i;
    }

#ifdef VF_CLASS
    arrive(mod, 0, VF_CLASS);
#else
    arrive(mod, 0, -1);
#endif
#if NARR > 1
#ifdef VF_CLASS2
    arrive(mod, 1, VF_CLASS2);
#else
    arrive(mod, 1, -1);
#endif
#endif

    if (in_sync) {
        for (int i = 0; i < NID; i++) if (i < nseen) VF_CHECK(seen[i] == expd[i], "events are handed over in arrival order, each once");
        int pos = 0, bad = 0;
        m_itr_foreach(mod->batch.events, {
            void *e = m_itr_get(m_itr);
            if (pos >= npend || e == NULL || e != ident[pend[pos < NID ? pos : 0]]) bad++;
            pos++;
        });
        VF_CHECK(bad == 0 && pos == npend, "retained events keep their arrival order");
    }
    VF_WITNESS("end");
    return 0;
}
