/* C13 (a): ONE arrival decided by the real static push_evt() of ctx.c, with the real call_pubsub_cb (ps.c), new_evt /
 * evt_dtor (evts.c), queue.c, stack.c, mem.c.  Stubs: m_ctx() (not called on this path), fetch_ms (clock).
 * Pre-state: K events already accumulated for the module (K is a per-job constant: the number of heap blocks must be
 * concrete, L1_NOTES), shaped like direct-tell messages (no source block); batch size `len` over the full size_t,
 * batch timeout `ns` over the full u64, token bucket fields arbitrary.
 * The arriving event: source flags word symbolic (priority bits in the combinations the registration code can
 * produce: LOW, NORM, HIGH, NORM|HIGH for descriptors; INTERNAL bit; every other bit free), source user pointer
 * among { &mod->batch (the batch timer), &mod->tb (token bucket refill timer), anything else }, or no source at all
 * (direct tell / broadcast: process_ps leaves evt->src NULL; "default if unspecified" = normal priority, mod.md).
 * Oracle = decision table written from the property text:
 *   trigger  <=>  high priority arrival
 *              |  normal priority arrival and (a batch size is configured and count >= size
 *                                              |  neither batch size nor batch timeout configured)
 *              |  the batch timer expired and something is pending
 *   trigger  => exactly one invocation with all accumulated events (+ the arriving one unless it is a library timer
 *               tick) in arrival order, nothing left behind;
 *   !trigger => no invocation, the arriving event retained behind the older ones (order kept);
 *   library timer ticks are never handed to the user. */
#include "l1.h"
#ifdef VF_NATIVE
#define m_ctx vf_real_m_ctx       /* ctx.c's own m_ctx() is not what the harness wants: keep it under another name */
#include <core/ctx.c>             /* native replay: static push_evt() reached by textual inclusion */
#undef m_ctx
#include <core/evts.c>
#define VF_PUSH_EVT push_evt
#define VF_EVT_DTOR evt_dtor
#endif
#ifndef K
#define K 1
#endif
#define KA (K + 1)
m_ctx_t *vf_the_ctx;
m_ctx_t *m_ctx(void) { return vf_the_ctx; }
void fetch_ms(uint64_t *val, uint64_t *ctr) { *val = nondet_u64(); if (ctr) (*ctr)++; }
void VF_PUSH_EVT(m_mod_t *mod, evt_priv_t *evt);   /* = static push_evt() of ctx.c */
void VF_EVT_DTOR(void *);                          /* = static evt_dtor() of evts.c */

static evt_priv_t *pre[KA], *nw;
static int calls, nseen, seen[KA + 2];
void on_evt(m_mod_t *m, const m_queue_t *const q) {
    calls++;
    m_itr_foreach(q, {
        void *e = m_itr_get(m_itr);
        int id = -1;
        for (int i = 0; i < K; i++) if (e == (void *)pre[i]) id = i;
        if (e == (void *)nw) id = K;
        if (nseen < KA + 2) seen[nseen] = id;
        nseen++;
    });
}

static char other_user;

int vf_main(void) {
    vf_the_ctx = vf_l1_ctx();
    m_mod_t *mod = vf_l1_mod(vf_the_ctx, on_evt);
    mod->state = M_MOD_RUNNING;                       /* events only arrive for a RUNNING module */
    size_t len = nondet_size_t();
    uint64_t ns = nondet_u64();
    mod->batch.len = len;
    mod->batch.timer.ns = ns;
    mod->tb.burst = nondet_u64();
    mod->tb.tokens = nondet_u64();

    for (int i = 0; i < K; i++) {
        pre[i] = m_mem_new(sizeof(evt_priv_t), VF_EVT_DTOR); VF_ASSUME(pre[i] != NULL);
        pre[i]->evt.type = M_SRC_TYPE_PS;
        int r = m_queue_enqueue(mod->batch.events, pre[i]); VF_ASSUME(r == 0);
    }

    ev_src_t *src = m_mem_new(sizeof(ev_src_t), NULL); VF_ASSUME(src != NULL);
    src->type = M_SRC_TYPE_TMR;
    unsigned f = nondet_uint();
    unsigned prio = f & M_SRC_PRIO_MASK;
    VF_ASSUME(prio == M_SRC_PRIO_LOW || prio == M_SRC_PRIO_NORM || prio == M_SRC_PRIO_HIGH ||
              prio == (M_SRC_PRIO_NORM | M_SRC_PRIO_HIGH));
    src->flags = (m_src_flags)f;
    VF_PICK(which, 3);
    src->userptr = which == 0 ? (const void *)&mod->batch : which == 1 ? (const void *)&mod->tb : (const void *)&other_user;
    src->mod = mod;
    nw = new_evt(src); VF_ASSUME(nw != NULL);
#ifdef VF_TELL
    _Bool tell = 1;
#elif defined(VF_SRC)
    _Bool tell = 0;
#else
    _Bool tell = nondet_bool();
#endif
    if (tell) {                                       /* what process_ps does for a direct tell: the subscription is NULL */
        m_mem_unref(nw->src);
        nw->src = NULL;
    }
    _Bool internal = !tell && (f & M_SRC_INTERNAL);

    VF_PUSH_EVT(mod, nw);                             /* the loop hands its reference over */

    size_t count = K + (internal ? 0 : 1);
    _Bool trigger;
    if (internal) trigger = which == 0 && K > 0;      /* batch timeout expired with events pending */
    else if (!tell && (f & M_SRC_PRIO_HIGH)) trigger = 1;
    else if (!tell && (f & M_SRC_PRIO_LOW)) trigger = 0;
    else trigger = len != 0 ? count >= len : ns == 0; /* normal priority */

    VF_CHECK(calls == (trigger ? 1 : 0), "handler invoked exactly when a trigger of the property holds (once)");
    if (calls > 0) {
        VF_CHECK(nseen == (int)count, "an invocation carries every accumulated event, none twice, no library timer tick");
        for (int i = 0; i < KA; i++) if (i < nseen) VF_CHECK(seen[i] == i, "events are handed over in arrival order");
        VF_CHECK(m_queue_len(mod->batch.events) == 0, "nothing stays behind after an invocation");
    } else {
        VF_CHECK(m_queue_len(mod->batch.events) == (ssize_t)count, "without an invocation the event is retained, none lost");
        int pos = 0, bad = 0;
        m_itr_foreach(mod->batch.events, {
            void *e = m_itr_get(m_itr);
            if (pos < K ? e != (void *)pre[pos] : (pos > K || internal || e != (void *)nw)) bad++;
            pos++;
        });
        VF_CHECK(bad == 0 && pos == (int)count, "retained events keep their arrival order");
    }
    VF_WITNESS("end");
    return 0;
}
