/* C15 (a): permission guards.  ONE pub/sub call (VF_OP: 0 tell, 1 publish, 2 poison pill, 3 subscribe, 4 unsubscribe)
 * by module D with an ARBITRARY flags word, in any state, with any token count, made outside any callback or while a
 * callback of D itself or of another module R (arbitrary flags word too) is executing (ctx->curr_mod), on the real
 * ps.c (M_MOD_ASSERT_PERM sites, send_msg, tell_if ...), ctx.c (m_ctx() with its deny-ctx test), mod.c (m_mod_is),
 * map.c, mem.c.
 * Table (property text): the call must fail and change nothing when
 *   D carries DENY_PUB and the call is tell / publish / poison pill,
 *   D carries DENY_SUB and the call is subscribe / unsubscribe,
 *   a callback of a module carrying DENY_CTX is executing (any call: every module call goes through the context),
 * (and when D is a ZOMBIE or has no token left: other properties).  Otherwise the well-formed call goes through.
 * "Nothing": sent counter, action counter, tokens, D's subscriptions, R's state, nothing written to any mailbox.
 * Stubs: pthread_getspecific (TLS slot), fetch_ms (clock), write (mailbox recorder), regcomp/regexec/regfree.
 * Per job: VF_OP, SUBPRE (D already holds a subscription to "t", made through the real m_mod_ps_subscribe).
 * Symbolic: flags word of D and of R (all 32 bits), state of D (5), tokens (u64), whose callback is executing. */
#include "l1.h"
#ifdef VF_NATIVE
#error "libc functions are replaced in this harness: no native build"
#endif
#include <pthread.h>
#include <regex.h>
#ifndef VF_OP
#define VF_OP 0
#endif
#ifndef SUBPRE
#define SUBPRE 0
#endif
m_ctx_t *vf_the_ctx;
void *pthread_getspecific(pthread_key_t k) { (void)k; return vf_the_ctx; }
int pthread_once(pthread_once_t *o, void (*fn)(void)) { (void)o; (void)fn; return 0; }   /* the key exists (m_ctx() creates it on first use) */
void fetch_ms(uint64_t *val, uint64_t *ctr) { *val = nondet_u64(); if (ctr) (*ctr)++; }
int regcomp(regex_t *r, const char *p, int fl) { (void)r; (void)p; (void)fl; return 0; }
int regexec(const regex_t *r, const char *s, size_t n, regmatch_t *m, int fl) { (void)r; (void)s; (void)n; (void)m; (void)fl; return REG_NOMATCH; }
void regfree(regex_t *r) { (void)r; }
static int n_write, w_fd;
ssize_t write(int fd, const void *b, size_t n) { (void)b; n_write++; w_fd = fd; return (ssize_t)n; }
void on_evt(m_mod_t *m, const m_queue_t *const q) { (void)m; (void)q; }

int vf_main(void) {
    m_ctx_t *c = vf_the_ctx = vf_l1_ctx();
    c->modules = m_map_new(0, mem_dtor); VF_ASSUME(c->modules != NULL);
    c->state = nondet_bool() ? M_CTX_LOOPING : M_CTX_IDLE;
    m_mod_t *D = vf_l1_mod(c, on_evt), *R = vf_l1_mod(c, on_evt);
    D->name = "d"; R->name = "r";
    { int r0 = m_map_put(c->modules, D->name, m_mem_ref(D)); VF_ASSUME(r0 == 0); r0 = m_map_put(c->modules, R->name, m_mem_ref(R)); VF_ASSUME(r0 == 0); }
    R->state = M_MOD_RUNNING; R->pubsub_fd[0] = 4; R->pubsub_fd[1] = 5;
    D->state = M_MOD_RUNNING; D->pubsub_fd[0] = 6; D->pubsub_fd[1] = 7;
#if SUBPRE
    { int r0 = m_mod_ps_subscribe(D, "t", 0, NULL); VF_ASSUME(r0 == 0 && D->subscriptions != NULL); }
#endif
    /* now the scalars become arbitrary */
    VF_PICK(sb, 5);
    m_mod_states st = (m_mod_states)(1u << sb);
    D->state = st;
    m_mod_flags dfl = (m_mod_flags)nondet_uint(), rfl = (m_mod_flags)nondet_uint();
    D->flags = dfl; R->flags = rfl;
    uint64_t tok = nondet_u64(); D->tb.tokens = tok;
    VF_PICK(cur, 3);                                   /* 0: outside callbacks, 1: a callback of D, 2: a callback of R */
    c->curr_mod = cur == 0 ? NULL : (cur == 1 ? D : R);

    m_map_t *subs0 = D->subscriptions;
    ssize_t nsubs0 = m_map_len(D->subscriptions);
    void *sub0 = SUBPRE ? m_map_get(D->subscriptions, "t") : NULL;
    uint64_t sent0 = D->stats.sent_msgs, act0 = D->stats.action_ctr;
    static char payload;
    int r;
    switch (VF_OP) {
    case 0: r = m_mod_ps_tell(D, R, &payload, 0); break;
    case 1: r = m_mod_ps_publish(D, "t", &payload, 0); break;
    case 2: r = m_mod_ps_poisonpill(D, R); break;
    case 3: r = m_mod_ps_subscribe(D, "u", 0, NULL); break;
    default: r = m_mod_ps_unsubscribe(D, "t"); break;
    }
    _Bool pub_class = VF_OP <= 2;
    _Bool denied = (cur == 1 && (dfl & M_MOD_DENY_CTX)) || (cur == 2 && (rfl & M_MOD_DENY_CTX))
                || (pub_class && (dfl & M_MOD_DENY_PUB)) || (!pub_class && (dfl & M_MOD_DENY_SUB));
    if (denied) {
        VF_CHECK(r < 0, "a denied call fails");
        VF_CHECK(n_write == 0, "... writes to no mailbox");
        VF_CHECK(D->stats.sent_msgs == sent0 && D->stats.action_ctr == act0 && D->tb.tokens == tok, "... leaves counters and tokens alone");
        VF_CHECK(D->subscriptions == subs0 && m_map_len(D->subscriptions) == nsubs0, "... leaves the subscriptions alone");
        if (SUBPRE) VF_CHECK(m_map_get(D->subscriptions, "t") == sub0, "... the existing subscription is still there");
        VF_CHECK(R->state == M_MOD_RUNNING && D->state == st, "... changes no state");
    } else if (st != M_MOD_ZOMBIE && tok > 0) {
        /* not in a denied class: the guard must not refuse it */
        if (VF_OP != 4 || SUBPRE) VF_CHECK(r == 0, "a call outside the denied classes goes through");
        VF_CHECK(D->tb.tokens == tok - 1, "... and is accounted");
        if (VF_OP == 0 || VF_OP == 2) VF_CHECK(n_write == 1 && w_fd == 5, "... the message goes to the recipient's mailbox");
        if (VF_OP == 3) VF_CHECK(D->subscriptions != NULL && m_map_get(D->subscriptions, "u") != NULL, "... the subscription is recorded");
        if (VF_OP == 4 && SUBPRE) VF_CHECK(D->subscriptions == NULL || m_map_get(D->subscriptions, "t") == NULL, "... the subscription is gone");
    } else {
        VF_CHECK(r < 0 && n_write == 0, "zombie / no token: refused (C01 / C18)");
    }
    VF_WITNESS("end");
    return 0;
}
