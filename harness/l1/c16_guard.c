/* C16 guards: m_mod_stash / m_mod_unstash from ANY module state, any priority flags of the event's source, any
 * token count; stop (mod.c:reset_module, real) discards what is stashed.
 * Stubs: m_ctx(), fetch_ms. */
#include "l1.h"
#ifdef VF_NATIVE
#include <core/mod.c>             /* native replay: static reset_module() reached by textual inclusion */
#define VF_RESET_MODULE reset_module
#endif
m_ctx_t *vf_the_ctx;
m_ctx_t *m_ctx(void) { return vf_the_ctx; }
void fetch_ms(uint64_t *val, uint64_t *ctr) { *val = nondet_u64(); if (ctr) (*ctr)++; }
void VF_RESET_MODULE(m_mod_t *mod);     /* = static reset_module() of mod.c, exported by goto-cc */

static int calls;
void on_evt(m_mod_t *m, const m_queue_t *const q) { calls++; }

int vf_main(void) {
    vf_the_ctx = vf_l1_ctx();
    m_mod_t *mod = vf_l1_mod(vf_the_ctx, on_evt);
    VF_PICK(sb, 5);
    mod->state = (m_mod_states)(1u << sb);
    /* one event already stashed (legal only if the module had been RUNNING, which it may have been before a pause) */
    ev_src_t *s0 = m_mem_new(sizeof(ev_src_t), NULL); VF_ASSUME(s0 != NULL);
    s0->type = M_SRC_TYPE_TMR; s0->flags = M_SRC_PRIO_NORM;
    evt_priv_t *e0 = new_evt(s0); VF_ASSUME(e0 != NULL);
    m_queue_enqueue(mod->stashed, m_mem_ref(e0));

    ev_src_t *s1 = m_mem_new(sizeof(ev_src_t), NULL); VF_ASSUME(s1 != NULL);
    s1->type = M_SRC_TYPE_TMR;
    VF_PICK(pb, 3);
    /* descriptor sources carry the default NORMAL bit AND the implicit HIGH bit: any word with HIGH set is high priority */
    s1->flags = (m_src_flags)((1u << pb) | (nondet_uint() & (M_SRC_ONESHOT | M_SRC_AUTOFREE | M_SRC_DUP | M_SRC_PRIO_HIGH)));
    evt_priv_t *e1 = new_evt(s1); VF_ASSUME(e1 != NULL);
    uint64_t tok = nondet_u64();
    mod->tb.tokens = tok;

#ifdef VF_OP
    unsigned char op = VF_OP;
#else
    VF_PICK(op, 3);
#endif
    if (op == 0) {
        int r = m_mod_stash(mod, &e1->evt);
        _Bool ok = mod->state == M_MOD_RUNNING && !(s1->flags & M_SRC_PRIO_HIGH) && tok > 0;
        VF_CHECK((r == 0) == ok, "stash succeeds exactly for a RUNNING module, a non-high-priority event and a token");
        VF_CHECK(r <= 0, "stash returns 0 or a negative code");
        VF_CHECK(m_queue_len(mod->stashed) == (ok ? 2 : 1), "refused stash changes nothing");
    } else if (op == 1) {
        ssize_t n = m_mod_unstash(mod, nondet_size_t());
        if (mod->state != M_MOD_RUNNING || tok == 0) {
            VF_CHECK(n < 0 && calls == 0 && m_queue_len(mod->stashed) == 1, "unstash refused unless RUNNING with a token: no effect");
        }
    } else {
        /* the module stops: everything still stashed is discarded, never delivered */
        VF_RESET_MODULE(mod);
        VF_CHECK(m_queue_len(mod->stashed) == 0, "stop discards stashed events");
        mod->state = M_MOD_RUNNING;   /* restarted */
        ssize_t n = m_mod_unstash(mod, SIZE_MAX);
        VF_CHECK(n == 0 && calls == 0, "nothing comes back after a stop/start cycle");
    }
    VF_WITNESS("end");
    return 0;
}
