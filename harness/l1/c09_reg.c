/* C09 registry unit, inductive-step form: ONE public operation with fully symbolic arguments on an arbitrary
 * registry state of a fixed shape, then observation.
 *
 * Real code: src.c (m_mod_src_register_X / m_mod_src_deregister_X with their parameter checks, register_mod_src,
 * deregister_mod_src, create_src, init_src + the kind's comparator, src_priv_dtor, m_mod_src_len), bst.c (included
 * textually so that the harness can lay out a pre-state directly), mem.c, mod.c (m_mod_is, static manage_srcs =
 * pause / resume / stop), map.c.
 * Stubs (the layer below the registry): poll_set_new_evt (returns 0, counts ADD / RM per source and, like epoll.c,
 * stores an arbitrary private descriptor in a polled non-descriptor source / resets it to -1), m_thpool_new /
 * m_thpool_add below the real start_task (count), close (counts per descriptor number), m_ctx(), fetch_ms, memhook._free = counting wrapper around free().
 *
 * Why this form (measured): every parameter / state / flag check of the API on a symbolic value forks the heap
 * shape (source created or not, node linked or not); a second API call after such a fork did not finish in 600 s
 * (two registrations with symbolic state OR flags OR keys), fully concrete 4 s.  So the pre-state is built directly:
 * NPRE (0..2) sources made by the real create_src, linked into the kind's real tree in the one shape the key order
 * allows (-DSHAPE: 0 second key greater = right child, 1 smaller = left child), polled or not according to a
 * symbolic module state, with arbitrary stored flag words.  Each job re-establishes the representation invariant
 * (search-tree order under key order, parent links, len) for the post-state, so the jobs chain: histories that keep
 * at most 2 sources before an operation are covered step by step from the empty registry (job NPRE=0) for the key
 * classes enumerated; arbitrary key values are the comparator contract of c09_cmp.c, larger trees C11's subject.
 *
 * -DOP: 0 register(k)   k = K2 (any class incl. invalid values) or NULL, any flag word (also two priorities), any
 *                       token count: rejected without trace, EEXIST, or inserted
 *       1 deregister(k) same freedom: rejected, absent, or exactly that source removed (task: always refused)
 *       2 stop          real manage_srcs(mod, ctx, RM, true): everything dropped
 *       3 pause         manage_srcs(RM, false);  4 resume  manage_srcs(ADD, false): set unchanged, polling only
 *       5 one-shot      a present source fired: recv_events() holds a reference and calls
 *                       m_bst_remove(mod->srcs[p->type], p)
 *       6 count         m_mod_src_len with an arbitrary subset of the sources flagged library-internal
 * Symbolic: secondary key fields (clock id, event masks, task function), module state (IDLE /
 * RUNNING / PAUSED / STOPPED), flag words, token count, private descriptor numbers.  Per-job constants: the shape,
 * the identifying values K0, K1, K2 (one job per order class), NULL parameters (-DBAD), which source fires. */
#include "l1.h"
#include <regex.h>
#include <structs/bst.c>
#ifdef VF_NATIVE
#include <core/mod.c>               /* native replay: statics reached by textual inclusion */
#include <core/src.c>
#define VF_MANAGE_SRCS manage_srcs
#define VF_CREATE_SRC create_src
#define VF_RESET_MODULE reset_module
bool str_not_empty(const char *str) { return str && str[0] != '\0'; }
#else
void VF_RESET_MODULE(m_mod_t *mod);                                      /* static reset_module() of mod.c */
int VF_MANAGE_SRCS(m_mod_t *mod, m_ctx_t *c, int flag, bool stop);     /* static manage_srcs() of mod.c */
ev_src_t *VF_CREATE_SRC(m_mod_t *mod, m_src_types type, process_cb proc, const void *src_data, m_src_flags flags, const void *userptr);
#endif
#ifndef KIND
#define KIND 2
#endif
#ifndef NPRE
#define NPRE 2
#endif
#ifndef SHAPE
#define SHAPE 0
#endif
#ifndef OP
#define OP 0
#endif
#ifndef BAD     /* 0: none; 1: NULL key pointer; 2: NULL path / NULL task function; 3: empty event mask (path registration) */
#define BAD 0
#endif

m_ctx_t *vf_the_ctx;
m_ctx_t *m_ctx(void) { return vf_the_ctx; }
void fetch_ms(uint64_t *val, uint64_t *ctr) { *val = nondet_u64(); if (ctr) (*ctr)++; }

/* ---- observation: one user block per source slot (0, 1: pre-state; 2: the operation's own) ---- */
#define NSLOT 3
static char *ublk[NSLOT];
static int n_freed[NSLOT], n_add[NSLOT], n_rm[NSLOT], n_task[NSLOT], n_other;
static int fdkey[NSLOT] = { -2, -2, -2 }, n_close[NSLOT], n_close_other;
static int priv_fd[NSLOT];
static int slot_of(const void *up) { for (int i = 0; i < NSLOT; i++) if (up == (const void *)ublk[i]) return i; return -1; }
void vf_free(void *p) { int s = p ? slot_of(p) : -1; if (s >= 0) n_freed[s]++; free(p); }
int close(int fd) {
    _Bool any = 0;
    for (int i = 0; i < NSLOT; i++) if (fd == fdkey[i]) { n_close[i]++; any = 1; }
    if (!any) n_close_other++;
    return 0;
}
int poll_set_new_evt(poll_priv_t *priv, ev_src_t *tmp, const enum op_type flag) {
    (void)priv;
    int s = slot_of(tmp->userptr);
    if (s < 0) { n_other++; return 0; }
    if (flag == ADD) { n_add[s]++; if (tmp->type > M_SRC_TYPE_FD) tmp->fd_src.fd = priv_fd[s]; }
    else { n_rm[s]++; if (tmp->type > M_SRC_TYPE_FD) tmp->fd_src.fd = -1; }
    return 0;
}
/* thread pool below start_task(): one pool, m_thpool_add counts the task per source */
static int the_pool;
m_thpool_t *m_thpool_new(uint8_t n, m_thpool_flags f) { (void)n; (void)f; return (m_thpool_t *)&the_pool; }
int m_thpool_add(m_thpool_t *pool, m_thpool_task fn, void *arg) {
    (void)pool; (void)fn;
    int s = slot_of(((ev_src_t *)arg)->userptr);
    if (s >= 0) n_task[s]++; else n_other++;
    return 0;
}
/* M_SRC_DUP is never set by this harness: create_src's dup() branch is dead, proven by the check below.  Returning the
 * argument keeps the stored descriptor number a constant for symbolic execution (the branch condition is a masked
 * symbolic flag word that the simplifier does not fold). */
int dup(int fd) { VF_CHECK(0, "dup() is not reached: M_SRC_DUP is never passed"); return fd; }
ev_src_t *dummy_proc(ev_src_t *t, m_ctx_t *c, int i, evt_priv_t *e) { (void)c; (void)i; (void)e; return t; }

#if KIND == 0
/* =====================================================================================================================
 * Topic subscriptions (-DKIND=0): m_mod_ps_subscribe / m_mod_ps_unsubscribe (ps.c) on the real map.c, reset_module
 * (mod.c, what a stop does to them), m_mod_src_len.  regcomp / regfree accept everything (glibc's regex engine is
 * outside the claim).  Pre-state: NPRE (0..2) subscriptions made by the real m_mod_ps_subscribe on an IDLE module
 * (all concrete), then module state, token count and the AUTOFREE bit of every stored subscription become symbolic.
 * One operation: -DOP 0 subscribe(topic, any flag word, new user block), 1 unsubscribe(topic), 2 stop, 6 count
 * (with one descriptor source next to the subscriptions).  -DTOPIC: 0 / 1 = the topic of subscription 0 / 1 spelled
 * in ANOTHER buffer, 2 = a new topic, 3 = NULL.  -DVF_DUP: subscriptions made with M_SRC_DUP. */
int regcomp(regex_t *preg, const char *regex, int cflags) { (void)regex; (void)cflags; memset(preg, 0, sizeof(*preg)); return 0; }
void regfree(regex_t *preg) { (void)preg; }
#ifndef TOPIC
#define TOPIC 0
#endif
static const char *const tname[3] = { "alpha", "beta", "gamma" };
static char tbuf[3][8], tcopy[3][8];
static m_src_flags sfl[NSLOT];
static _Bool in_set[NSLOT];
static ev_src_t *sub_of(m_mod_t *mod, int i) { return mod->subscriptions ? m_map_get(mod->subscriptions, tcopy[i]) : NULL; }

int vf_main(void) {
    memhook._free = vf_free;
    vf_the_ctx = vf_l1_ctx();
    m_mod_t *mod = vf_l1_mod(vf_the_ctx, NULL);
    for (int t = 0; t < M_SRC_TYPE_END; t++) { int r0 = init_src(mod, (m_src_types)t); VF_ASSUME(r0 == 0); }
    for (int i = 0; i < NSLOT; i++) { ublk[i] = malloc(1); VF_ASSUME(ublk[i] != NULL); strcpy(tbuf[i], tname[i]); strcpy(tcopy[i], tname[i]); }
    int r;
#ifdef VF_DUP
    const m_src_flags base = (m_src_flags)(M_SRC_PRIO_NORM | M_SRC_DUP);
#else
    const m_src_flags base = M_SRC_PRIO_NORM;
#endif
    for (int i = 0; i < 2; i++) if (i < NPRE) {
        r = m_mod_ps_subscribe(mod, tbuf[i], base, ublk[i]);
        VF_ASSUME(r == 0);
        in_set[i] = 1;
        ev_src_t *sb = sub_of(mod, i);
        VF_ASSUME(sb != NULL);
        sfl[i] = (m_src_flags)(sb->flags | (nondet_bool() ? M_SRC_AUTOFREE : 0));
        sb->flags = sfl[i];
    }
    for (int i = 0; i < NSLOT; i++) n_freed[i] = 0;
    { VF_PICK(sb, 4); mod->state = (m_mod_states)(1u << sb); }
    uint64_t tokens = nondet_u64();
    mod->tb.tokens = tokens;
    (void)tokens;

#if OP == 0
    sfl[2] = (m_src_flags)(nondet_uint() & (M_SRC_PRIO_LOW | M_SRC_PRIO_NORM | M_SRC_PRIO_HIGH | M_SRC_AUTOFREE | M_SRC_ONESHOT) | (base & M_SRC_DUP));
    unsigned prio = sfl[2] & 7u;
    _Bool valid = TOPIC != 3 && (prio == 0 || prio == 1 || prio == 2 || prio == 4) && tokens > 0;
    int dup = (TOPIC < 2 && TOPIC < NPRE) ? TOPIC : -1;
    ev_src_t *old = dup >= 0 ? sub_of(mod, dup) : NULL;
    m_src_flags eff = (m_src_flags)(prio ? sfl[2] : (sfl[2] | M_SRC_PRIO_NORM));
    r = m_mod_ps_subscribe(mod, TOPIC == 3 ? NULL : tcopy[TOPIC == 2 ? 2 : TOPIC], sfl[2], ublk[2]);
    if (!valid) {
        VF_CHECK(r < 0, "subscription with bad parameters (or without a token) is rejected");
        VF_CHECK(n_freed[0] + n_freed[1] + n_freed[2] == 0, "rejected subscription leaves no trace");
    } else {
        VF_CHECK(r == 0, "subscribing succeeds, for a new topic and for a repeated one");
        if (dup < 0) in_set[2] = 1;
        ev_src_t *now = sub_of(mod, dup >= 0 ? dup : 2);
        VF_CHECK(now != NULL && now->userptr == (void *)ublk[2], "the subscription carries the new user pointer");
        if (dup >= 0) {
            if (eff == sfl[dup]) VF_CHECK(now == old && n_freed[dup] == 0, "same flags: updated in place");
            else VF_CHECK(n_freed[dup] == ((sfl[dup] & M_SRC_AUTOFREE) ? 1 : 0), "other flags: the old subscription is destroyed once, its AUTOFREE block with it");
            VF_CHECK(n_freed[1 - dup] == 0 && n_freed[2] == 0, "nothing else is freed");
        } else VF_CHECK(n_freed[0] + n_freed[1] + n_freed[2] == 0, "a new subscription frees nothing");
    }
#elif OP == 1
    _Bool valid = TOPIC != 3 && tokens > 0;
    int hit = (TOPIC < 2 && TOPIC < NPRE) ? TOPIC : -1;
    r = m_mod_ps_unsubscribe(mod, TOPIC == 3 ? NULL : tcopy[TOPIC == 2 ? 2 : TOPIC]);
    if (valid && hit >= 0) {
        VF_CHECK(r == 0, "unsubscribing a present topic succeeds");
        in_set[hit] = 0;
        VF_CHECK(n_freed[hit] == ((sfl[hit] & M_SRC_AUTOFREE) ? 1 : 0), "removed subscription: user block freed exactly once iff AUTOFREE");
        VF_CHECK(n_freed[1 - hit] == 0, "the other subscription is not touched");
    } else {
        VF_CHECK(r < 0, "unsubscribing an absent topic (or NULL, or without a token) fails");
        VF_CHECK(n_freed[0] + n_freed[1] == 0, "failed unsubscription has no effect");
    }
#elif OP == 2
    VF_RESET_MODULE(mod);       /* what stop() does to the subscriptions */
    for (int i = 0; i < 2; i++) if (i < NPRE) { in_set[i] = 0; VF_CHECK(n_freed[i] == ((sfl[i] & M_SRC_AUTOFREE) ? 1 : 0), "stop: user block freed exactly once iff AUTOFREE"); }
#elif OP == 6
    { int fd = 5; r = m_mod_src_register_fd(mod, fd, 0, NULL); VF_ASSUME(tokens > 0); VF_CHECK(r == 0, "descriptor source next to the subscriptions"); in_set[2] = 1; }
#endif
    /* ---- post-state: the set of subscriptions and the reported count ---- */
    for (int i = 0; i < NSLOT; i++) {
#if OP == 6
        if (i == 2) continue;
#endif
        ev_src_t *sb = sub_of(mod, i);
        VF_CHECK((sb != NULL) == in_set[i], "post-state: subscribed topics equal the model set");
        if (sb) VF_CHECK(sb->type == M_SRC_TYPE_PS && sb->mod == mod && strcmp(sb->ps_src.topic, tname[i]) == 0, "post-state: subscription records its topic and module");
    }
    VF_CHECK(m_mod_src_len(mod, M_SRC_TYPE_END) == in_set[0] + in_set[1] + in_set[2], "reported count equals the number of subscriptions (plus sources)");
    VF_WITNESS("end");
    return 0;
}
#else   /* KIND != 0 */
/* ---- keys.  The identifying values are per-job constants K0, K1 (pre-state) and K2 (the operation's key), chosen
 *      by the spec per order class; everything that does not steer the search stays symbolic (clock id, event
 *      masks, task function).  Measured: with a symbolic identifying value the comparator's answer is symbolic, the
 *      node found / the insertion point becomes a symbolic pointer and the destructor chain behind it
 *      (m_mem_unref -> get_header: pointer arithmetic with a shift read through that pointer) does not finish:
 *      one deregistration 109 s symex + >9 GB, one registration >160 s + 16 GB; with constant keys 2 s.  All key
 *      values at full width are quantified in c09_cmp.c. ---- */
#ifndef K0
#define K0 5
#endif
#ifndef K1
#define K1 9
#endif
#ifndef K2
#define K2 7
#endif
#define KV(i) ((i) == 0 ? (K0) : (i) == 1 ? (K1) : (K2))
#if KIND == 1
typedef int key_t_;
#define ID(i) ((int64_t)KV(i))
#define VALID(i) (KV(i) >= 0)
static void mk_key(key_t_ *k, int i) { *k = (int)KV(i); }
static int k_reg(m_mod_t *m, key_t_ *k, m_src_flags f, const void *up) { return m_mod_src_register_fd(m, *k, f, up); }
static int k_dereg(m_mod_t *m, key_t_ *k) { return m_mod_src_deregister_fd(m, *k); }
#elif KIND == 2
typedef m_src_tmr_t key_t_;
#define ID(i) ((uint64_t)KV(i))
#define VALID(i) (KV(i) > 0)
/* the clock id is a constant here (symbolic in c09_cmp.c): the unrepaired comparator reads it as the period when a
 * source is inserted, and a symbolic value there turns the insertion point into a symbolic pointer (no verdict) */
static void mk_key(key_t_ *k, int i) { memset(k, 0, sizeof(*k)); k->clock_id = CLOCK_MONOTONIC; k->ns = (uint64_t)KV(i); }
static int k_reg(m_mod_t *m, key_t_ *k, m_src_flags f, const void *up) { return m_mod_src_register_tmr(m, k, f, up); }
static int k_dereg(m_mod_t *m, key_t_ *k) { return m_mod_src_deregister_tmr(m, k); }
#elif KIND == 3
typedef m_src_sgn_t key_t_;
#define ID(i) ((uint64_t)KV(i))
#define VALID(i) (KV(i) > 0)
static void mk_key(key_t_ *k, int i) { k->signo = (unsigned)KV(i); }
static int k_reg(m_mod_t *m, key_t_ *k, m_src_flags f, const void *up) { return m_mod_src_register_sgn(m, k, f, up); }
static int k_dereg(m_mod_t *m, key_t_ *k) { return m_mod_src_deregister_sgn(m, k); }
#elif KIND == 4
typedef m_src_path_t key_t_;
static char pbuf[NSLOT][3];
/* K = first character * 256 + second character (0: one-character string; K == 0: empty string, invalid) */
#define ID(i) ((uint64_t)KV(i))
#define VALID(i) (KV(i) >= 256)
static void mk_key(key_t_ *k, int i) {
    { int a = (int)(KV(i) / 256), b = (int)(KV(i) % 256); pbuf[i][0] = (char)(a < 128 ? a : a - 256); pbuf[i][1] = (char)(b < 128 ? b : b - 256); pbuf[i][2] = 0; }
    k->path = pbuf[i]; k->events = nondet_uint();
    VF_ASSUME(k->events > 0);
}
static int k_reg(m_mod_t *m, key_t_ *k, m_src_flags f, const void *up) { return m_mod_src_register_path(m, k, f, up); }
static int k_dereg(m_mod_t *m, key_t_ *k) { return m_mod_src_deregister_path(m, k); }
#elif KIND == 5
typedef m_src_pid_t key_t_;
#define ID(i) ((int64_t)KV(i))
#define VALID(i) (KV(i) > 0)
static void mk_key(key_t_ *k, int i) { k->pid = (pid_t)KV(i); k->events = nondet_uint(); }
static int k_reg(m_mod_t *m, key_t_ *k, m_src_flags f, const void *up) { return m_mod_src_register_pid(m, k, f, up); }
static int k_dereg(m_mod_t *m, key_t_ *k) { return m_mod_src_deregister_pid(m, k); }
#elif KIND == 6
typedef m_src_task_t key_t_;
#define ID(i) ((int64_t)KV(i))
#define VALID(i) 1
int task_fn(void *p) { (void)p; return 0; }
int task_fn2(void *p) { (void)p; return 1; }
static void mk_key(key_t_ *k, int i) { k->tid = (int)KV(i); k->fn = nondet_bool() ? task_fn : task_fn2; }
static int k_reg(m_mod_t *m, key_t_ *k, m_src_flags f, const void *up) { return m_mod_src_register_task(m, k, f, up); }
static int k_dereg(m_mod_t *m, key_t_ *k) { return m_mod_src_deregister_task(m, k); }
#define IS_TASK 1
#elif KIND == 7
typedef m_src_thresh_t key_t_;
/* K = inactive_ms, F = activity_freq in half units (so that keys can differ by a fraction); the pair identifies */
#ifndef F0
#define F0 0
#endif
#ifndef F1
#define F1 0
#endif
#ifndef F2
#define F2 0
#endif
#define FV(i) ((i) == 0 ? (F0) : (i) == 1 ? (F1) : (F2))
#define ID(i) ((uint64_t)KV(i) * (1ull << 22) + (uint64_t)FV(i))     /* ordered like the pair (ms, freq) */
#define VALID(i) (KV(i) > 0 || FV(i) > 0)
static void mk_key(key_t_ *k, int i) { k->inactive_ms = (uint64_t)KV(i); k->activity_freq = (double)FV(i) / 2.0; }
static int k_reg(m_mod_t *m, key_t_ *k, m_src_flags f, const void *up) { return m_mod_src_register_thresh(m, k, f, up); }
static int k_dereg(m_mod_t *m, key_t_ *k) { return m_mod_src_deregister_thresh(m, k); }
#else
#error "KIND"
#endif

static key_t_ key[NSLOT];           /* 0, 1: pre-state; 2: the operation's key */
static m_src_flags kfl[NSLOT];
static ev_src_t *src[NSLOT];
static bst_node *node[2];
static _Bool in_set[NSLOT], internal[2];

static m_src_flags stored_flags(m_src_flags made) {
    /* what register_mod_src / create_src leave in a registered source: exactly one priority, the kind-implied bits
     * (kept from `made`, the word create_src produced from a bare NORM priority), any ownership / one-shot bits */
    VF_PICK(pb, 3);
    unsigned f = 1u << pb;
    unsigned opt = M_SRC_ONESHOT | M_SRC_AUTOFREE;
#if KIND == 1
    f = M_SRC_PRIO_HIGH | (nondet_bool() ? M_SRC_PRIO_NORM : 0); opt |= M_SRC_FD_AUTOCLOSE;    /* create_src ORs HIGH onto the default */
#elif KIND == 2
    opt |= M_SRC_TMR_ABSOLUTE;
#endif
    f |= nondet_uint() & opt;
    f |= (unsigned)made & ~7u;
    return (m_src_flags)f;
}

/* ---- representation invariant of the kind's tree, checked on the post-state: in-order walk gives strictly
 *      increasing keys, parent links and len are right; returns the slots found ---- */
static int walk_n, walk_bad;
static int walk_slot[4];
static void walk(bst_node *n, bst_node *parent, int depth) {
    if (!n) return;
    if (depth > 3) { walk_bad++; return; }
    if (n->parent != parent) walk_bad++;
    walk(n->left, n, depth + 1);
    ev_src_t *s = n->userptr;
    int sl = s ? slot_of(s->userptr) : -1;
    if (sl < 0 || s != src[sl] || s->type != KIND) walk_bad++;
    else {
        if (walk_n > 0 && walk_n < 4 && walk_slot[walk_n - 1] >= 0 && !(ID(walk_slot[walk_n - 1]) < ID(sl))) walk_bad++;
    }
    if (walk_n < 4) walk_slot[walk_n] = sl;
    walk_n++;
    walk(n->right, n, depth + 1);
}
static void check_tree(m_mod_t *mod) {
    m_bst_t *t = mod->srcs[KIND];
    walk_n = 0; walk_bad = 0;
    walk(t->root, NULL, 0);
    int expect = in_set[0] + in_set[1] + in_set[2];
    VF_CHECK(walk_bad == 0, "post-state: search-tree order under key order, parent links, only own sources");
    VF_CHECK(walk_n == expect && t->len == (size_t)expect, "post-state: tree holds exactly the model's number of sources");
    for (int s = 0; s < NSLOT; s++) {
        _Bool found = 0;
        for (int i = 0; i < 4; i++) if (i < walk_n && walk_slot[i] == s) found = 1;
        VF_CHECK(found == in_set[s], "post-state: membership equals the model set");
    }
    for (int k = M_SRC_TYPE_PS; k < M_SRC_TYPE_END; k++) if (k != KIND) VF_CHECK(m_bst_len(mod->srcs[k]) == 0, "other kinds' sets untouched");
}

static void check_removed(int s, _Bool running) {
    VF_CHECK(n_freed[s] == ((kfl[s] & M_SRC_AUTOFREE) ? 1 : 0), "removed source: user block freed exactly once iff AUTOFREE");
    /* the poll layer ignores a removal request for a source it does not hold, so a request for a non-RUNNING module is harmless */
    VF_CHECK(n_rm[s] <= 1 && (!running || n_rm[s] == 1), "removed source: taken out of the poll set, once, when the module is RUNNING");
#if KIND == 1
    VF_CHECK(n_close[s] == ((kfl[s] & M_SRC_FD_AUTOCLOSE) ? 1 : 0), "removed source: descriptor closed exactly once iff FD_AUTOCLOSE");
#endif
}
static void check_untouched(int s) {
    VF_CHECK(n_freed[s] == 0 && n_rm[s] == 0 && n_add[s] == 0 && n_task[s] == 0 && n_close[s] == 0, "other registered sources are not touched");
}

int vf_main(void) {
    memhook._free = vf_free;
    vf_the_ctx = vf_l1_ctx();
    m_mod_t *mod = vf_l1_mod(vf_the_ctx, NULL);
    for (int t = 0; t < M_SRC_TYPE_END; t++) { int r0 = init_src(mod, (m_src_types)t); VF_ASSUME(r0 == 0); }   /* as m_mod_register */
    for (int i = 0; i < NSLOT; i++) {
        ublk[i] = malloc(1); VF_ASSUME(ublk[i] != NULL);
#if OP == 5     /* the search key of a one-shot removal is the source itself: constants keep the search concrete */
        priv_fd[i] = 40 + i;
#else
        priv_fd[i] = nondet_int(); VF_ASSUME(priv_fd[i] >= 0);
#endif
    }

    /* ---- pre-state ---- */
    for (int i = 0; i < NSLOT; i++) mk_key(&key[i], i);
    for (int i = 0; i < 2; i++) if (i < NPRE) VF_ASSUME(VALID(i));
#if NPRE == 2
    if (SHAPE == 0) VF_ASSUME(ID(0) < ID(1)); else VF_ASSUME(ID(0) > ID(1));
#endif
    m_bst_t *tree = mod->srcs[KIND];
    for (int i = 0; i < 2; i++) if (i < NPRE) {
        src[i] = VF_CREATE_SRC(mod, (m_src_types)KIND, dummy_proc, &key[i], M_SRC_PRIO_NORM, ublk[i]);
        VF_ASSUME(src[i] != NULL);
        kfl[i] = stored_flags(src[i]->flags);
        src[i]->flags = kfl[i];
        node[i] = calloc(1, sizeof(bst_node)); VF_ASSUME(node[i] != NULL);
        node[i]->userptr = src[i];
        in_set[i] = 1;
#if KIND == 1
        fdkey[i] = key[i];
#endif
    }
#if NPRE >= 1
    tree->root = node[0];
#endif
#if NPRE == 2
    if (SHAPE == 0) node[0]->right = node[1]; else node[0]->left = node[1];
    node[1]->parent = node[0];
#endif
    tree->len = NPRE;
#if OP == 3 || OP == 5
    mod->state = M_MOD_RUNNING;         /* pause and event delivery happen to RUNNING modules */
#elif OP == 4
    mod->state = M_MOD_PAUSED;
#else
    { VF_PICK(sb, 4); mod->state = (m_mod_states)(1u << sb); }      /* IDLE, RUNNING, PAUSED, STOPPED */
#endif
    _Bool running = mod->state == M_MOD_RUNNING;
#if KIND > 1
    for (int i = 0; i < 2; i++) if (i < NPRE && running) src[i]->fd_src.fd = priv_fd[i];      /* polled */
#endif
    uint64_t tokens = nondet_u64();
    mod->tb.tokens = tokens;
    int r;
    (void)r; (void)tokens;

#if OP == 0
    /* ================= register(k) ================= */
    kfl[2] = (m_src_flags)(nondet_uint() & (M_SRC_PRIO_LOW | M_SRC_PRIO_NORM | M_SRC_PRIO_HIGH | M_SRC_AUTOFREE | M_SRC_ONESHOT
                                            | M_SRC_FD_AUTOCLOSE | M_SRC_TMR_ABSOLUTE));
    _Bool null_key = BAD == 1;
    unsigned prio = kfl[2] & 7u;
    _Bool prio_ok = prio == 0 || prio == 1 || prio == 2 || prio == 4;
#if KIND == 1
    prio_ok = prio == 0 || prio == 4;
    fdkey[2] = key[2];
#endif
    _Bool extra_invalid = BAD >= 2;
#if KIND == 4 && BAD == 2
    key[2].path = NULL;
#elif KIND == 4 && BAD == 3
    key[2].events = 0;
#elif KIND == 6 && BAD == 2
    key[2].fn = NULL;
#endif
    _Bool valid = !null_key && !extra_invalid && VALID(2) && prio_ok && tokens > 0;
    int dup = -1;
    if (!null_key && !extra_invalid && VALID(2)) for (int i = 0; i < 2; i++) if (i < NPRE && ID(2) == ID(i)) dup = i;
#if defined(VF_KF_C09_eexist_owner) && KIND == 1
    if (dup >= 0) VF_ASSUME(!(kfl[2] & M_SRC_FD_AUTOCLOSE));      /* known finding: excluded class */
#endif
    r = k_reg(mod, null_key ? NULL : &key[2], kfl[2], ublk[2]);
    if (!valid) {
        VF_CHECK(r < 0, "registration with bad parameters (or without a token) is rejected");
        VF_CHECK(n_freed[2] == 0 && n_add[2] == 0 && n_rm[2] == 0 && n_task[2] == 0 && n_other == 0
                 && n_close[0] + n_close[1] + n_close[2] + n_close_other == 0, "rejected registration leaves no trace");
        check_untouched(0); check_untouched(1);
    } else if (dup >= 0) {
        VF_CHECK(r == -EEXIST, "registering a key that is already present fails with EEXIST");
        VF_CHECK(n_add[2] == 0 && n_task[2] == 0, "rejected duplicate is never polled");
        VF_CHECK(n_freed[dup] == 0 && n_rm[dup] == 0 && n_close[dup] == 0, "rejected duplicate leaves the registered source intact (its descriptor stays open)");
    } else {
        VF_CHECK(r == 0, "registering a new key succeeds");
        in_set[2] = 1;
        VF_CHECK(n_add[2] == (running ? 1 : 0), "new source polled at once iff the module is RUNNING");
#ifdef IS_TASK
        VF_CHECK(n_task[2] == (running ? 1 : 0), "task started at once iff the module is RUNNING");
#endif
        VF_CHECK(n_freed[2] == 0 && n_rm[2] == 0 && n_close[2] == 0 && n_close_other == 0, "registration destroys nothing");
        check_untouched(0); check_untouched(1);
        /* locate the new source for the tree walk */
        m_bst_t *t = mod->srcs[KIND];
        bst_node *cand[5] = { t->root, t->root ? t->root->left : NULL, t->root ? t->root->right : NULL, NULL, NULL };
        if (NPRE == 2) { cand[3] = node[1]->left; cand[4] = node[1]->right; }
        for (int i = 0; i < 5; i++) if (cand[i] && cand[i]->userptr && ((ev_src_t *)cand[i]->userptr)->userptr == (void *)ublk[2]) src[2] = cand[i]->userptr;
        VF_CHECK(src[2] != NULL, "the new source is in the tree");
        if (src[2]) {
            VF_CHECK(src[2]->mod == mod && src[2]->type == KIND && (src[2]->flags & (M_SRC_AUTOFREE | M_SRC_FD_AUTOCLOSE)) == (kfl[2] & (M_SRC_AUTOFREE | M_SRC_FD_AUTOCLOSE)),
                     "the new source records module, kind and ownership flags");
        }
    }
    check_tree(mod);
    VF_CHECK(m_mod_src_len(mod, M_SRC_TYPE_END) == in_set[0] + in_set[1] + in_set[2], "reported count equals the size of the set");
#elif OP == 1
    /* ================= deregister(k) ================= */
    _Bool null_key = BAD == 1;
    _Bool extra_invalid = BAD >= 2;
#if KIND == 4 && BAD == 2
    key[2].path = NULL;
#endif
    _Bool valid = !null_key && !extra_invalid && VALID(2) && tokens > 0;
    int hit = -1;
    if (!null_key && !extra_invalid && VALID(2)) for (int i = 0; i < 2; i++) if (i < NPRE && ID(2) == ID(i)) hit = i;
    r = k_dereg(mod, null_key ? NULL : &key[2]);
#ifdef IS_TASK
    VF_CHECK(r < 0 && (null_key || r == -EPERM), "task sources cannot be deregistered");
    check_untouched(0); check_untouched(1);
    (void)valid; (void)hit;
#else
    if (valid && hit >= 0) {
        VF_CHECK(r == 0, "deregistering a present key succeeds");
        in_set[hit] = 0;
        check_removed(hit, running);
        check_untouched(1 - hit);
    } else {
        VF_CHECK(r < 0, "deregistering an absent key (or with bad parameters, or without a token) fails");
        check_untouched(0); check_untouched(1);
    }
#endif
    VF_CHECK(n_close_other == 0 && n_other == 0, "nothing else is closed or polled");
    check_tree(mod);
    VF_CHECK(m_mod_src_len(mod, M_SRC_TYPE_END) == in_set[0] + in_set[1], "reported count equals the size of the set");
#elif OP == 2
    /* ================= stop ================= */
    r = VF_MANAGE_SRCS(mod, vf_the_ctx, RM, true);
    VF_CHECK(r == 0, "stop removes the sources");
    for (int i = 0; i < 2; i++) if (i < NPRE) { in_set[i] = 0; check_removed(i, running); }
    check_tree(mod);
    VF_CHECK(m_mod_src_len(mod, M_SRC_TYPE_END) == 0, "no source survives a stop");
#elif OP == 3 || OP == 4
    /* ================= pause / resume ================= */
    r = VF_MANAGE_SRCS(mod, vf_the_ctx, OP == 3 ? RM : ADD, false);
    VF_CHECK(r == 0, "pause / resume succeed");
    for (int i = 0; i < 2; i++) if (i < NPRE) {
        VF_CHECK(n_freed[i] == 0 && n_close[i] == 0, "pause / resume destroy nothing");
        VF_CHECK(n_rm[i] == (OP == 3 ? 1 : 0) && n_add[i] == (OP == 4 ? 1 : 0), "pause stops polling every source once, resume restarts it once");
#if KIND > 1
        VF_CHECK(src[i]->fd_src.fd == (OP == 3 ? -1 : priv_fd[i]), "private descriptor released on pause, recreated on resume");
#endif
    }
    check_tree(mod);
    VF_CHECK(m_mod_src_len(mod, M_SRC_TYPE_END) == NPRE, "sources survive pause / resume");
#elif OP == 5
    /* ================= a one-shot source fired ================= */
    {
#ifndef W
#define W 0
#endif
        int w = W;          /* which source fires: per-job constant (keeps the search path concrete) */
        ev_src_t *p = src[w];
        m_mem_ref(p);                                   /* the event keeps the source alive (new_evt) */
        r = m_bst_remove(mod->srcs[p->type], p);        /* ctx.c:recv_events */
        VF_CHECK(r == 0, "a fired one-shot source is found in its set and removed");
        in_set[w] = 0;
        VF_CHECK(n_freed[w] == 0, "the source object lives on while its event references it");
        if (NPRE == 2) check_untouched(1 - w);
        check_tree(mod);
        VF_CHECK(m_mod_src_len(mod, M_SRC_TYPE_END) == NPRE - 1, "exactly the fired source left the set");
        m_mem_unref(p);
        check_removed(w, 1);
    }
#elif OP == 6
    /* ================= count ================= */
    for (int i = 0; i < 2; i++) if (i < NPRE) { internal[i] = nondet_bool(); if (internal[i]) src[i]->flags = (m_src_flags)(src[i]->flags | M_SRC_INTERNAL); }
    {
        int users = 0;
        for (int i = 0; i < 2; i++) if (i < NPRE && !internal[i]) users++;
        VF_CHECK(m_mod_src_len(mod, M_SRC_TYPE_END) == users, "reported count = size of the set, library-internal sources excluded");
        VF_CHECK(m_mod_src_len(NULL, M_SRC_TYPE_END) < 0, "no module, no count");
    }
#endif
    VF_WITNESS("end");
    return 0;
}
#endif  /* KIND */
