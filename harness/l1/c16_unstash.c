/* C16: m_mod_stash / m_mod_unstash on the real evts.c + ps.c:call_pubsub_cb + queue.c + stack.c + mem.c.
 * Stubs: m_ctx() (returns the harness context), fetch_ms (clock: arbitrary value).
 * The stashed events are shaped like direct-tell messages (source pointer NULL, as process_ps leaves them for a
 * tell/broadcast) with the real evt_dtor: an event that references a source block makes every later m_mem_unref on
 * a merged pointer fan out over all blocks (measured: 190 k symex steps for ONE stashed event, no verdict in 300 s);
 * events with a source and their priority flags are decided in c16_guard.c.
 * Symbolic: number of stashed events ns <= NS (or fixed by -DNS_FIXED), n (full size_t), whether a become()
 * handler is installed, whether a second unstash follows.
 * Oracle: the current handler receives, in ONE invocation, exactly the min(n, ns) oldest stashed events in stash
 * order with their original content; the return value is that number; the rest stays stashed in order and is
 * redelivered by a later unstash; nothing is delivered twice. */
#include "l1.h"
#ifdef VF_NATIVE
#include <core/evts.c>            /* native replay: the static destructor is reached by textual inclusion */
#define VF_EVT_DTOR evt_dtor
#endif
#ifndef NS
#define NS 3
#endif
m_ctx_t *vf_the_ctx;
m_ctx_t *m_ctx(void) { return vf_the_ctx; }
void fetch_ms(uint64_t *val, uint64_t *ctr) { *val = nondet_u64(); if (ctr) (*ctr)++; }

static evt_priv_t *evs[NS];
void VF_EVT_DTOR(void *);          /* = static evt_dtor() of evts.c */
static char udata[NS];
static int seen[2 * NS + 2], nseen, calls[2], bad_content;
static m_mod_t *the_mod; static int restashed, restash_r;
static void record(int h, const m_queue_t *const q) {
    calls[h]++;
    m_itr_foreach(q, {
        m_evt_t *e = m_itr_get(m_itr);
        int id = -1;
        for (int i = 0; i < NS; i++) if ((void *)e == (void *)evs[i]) id = i;
        if (nseen < 2 * NS + 2) seen[nseen++] = id;
#ifdef VF_NESTED
        /* re-entrant use: the handler asks for one more stashed event while the outer unstash is delivering */
        if (id == 0 && !restashed) { restashed = 1; restash_r = (int)m_mod_unstash(the_mod, 1); }
#endif
#ifdef VF_RESTASH
        /* re-entrant use: the handler puts the oldest event back on the stash while the unstash is delivering it */
        if (id == 0 && !restashed) { restashed = 1; restash_r = m_mod_stash(the_mod, e); }
#endif
        if (id >= 0 && (e->userdata != &udata[id] || e->type != M_SRC_TYPE_PS || ((evt_priv_t *)e)->src != NULL)) bad_content++;
    });
}
void on_evt(m_mod_t *m, const m_queue_t *const q) { record(0, q); }
void on_evt2(m_mod_t *m, const m_queue_t *const q) { record(1, q); }

int vf_main(void) {
    vf_the_ctx = vf_l1_ctx();
    m_mod_t *mod = vf_l1_mod(vf_the_ctx, on_evt);
    mod->state = M_MOD_RUNNING; the_mod = mod;
#ifdef NS_FIXED
    unsigned char ns = NS_FIXED;
#else
    unsigned char ns = nondet_uchar(); VF_ASSUME(ns <= NS);
#endif
    for (int i = 0; i < NS; i++) if (i < ns) {
        evs[i] = m_mem_new(sizeof(evt_priv_t), VF_EVT_DTOR); VF_ASSUME(evs[i] != NULL);
        evs[i]->evt.type = M_SRC_TYPE_PS;
        evs[i]->evt.userdata = &udata[i];
        int r = m_mod_stash(mod, &evs[i]->evt);
        VF_CHECK(r == 0, "stash of a non-high-priority event by a RUNNING module succeeds");
        m_mem_unref(evs[i]);   /* the loop drops its own reference after the handler returned: the stash keeps it alive */
    }
#ifdef VF_BECOME
    _Bool became = nondet_bool();
#else
    _Bool became = 0;
#endif
    if (became) { int r = m_mod_become(mod, on_evt2); VF_CHECK(r == 0, "become in RUNNING"); }
    int h = became ? 1 : 0;

#ifdef VF_NESTED
    /* outer unstash(2) of NS >= 3 events whose handler unstashes 1 more: deliveries 0,1 (outer) and 2 (nested), each once */
    {
        ssize_t r0 = m_mod_unstash(mod, 2);
        VF_CHECK(r0 == 2 && restash_r == 1, "outer unstash returns 2, the nested one 1");
        VF_CHECK(nseen == 3, "three events delivered so far, none twice");
        int cnt[NS]; for (int i = 0; i < NS; i++) cnt[i] = 0;
        for (int i = 0; i < 2 * NS + 2; i++) if (i < nseen && seen[i] >= 0 && seen[i] < NS) cnt[seen[i]]++;
        VF_CHECK(cnt[0] == 1 && cnt[1] == 1 && cnt[2] == 1, "events 0, 1 and 2 exactly once each");
        ssize_t r1 = m_mod_unstash(mod, SIZE_MAX);
        VF_CHECK(r1 == (ssize_t)ns - 3 && nseen == ns, "the rest comes back afterwards: nothing lost, nothing redelivered");
    }
#else
    size_t n = nondet_size_t(); VF_ASSUME(n > 0);
    ssize_t r = m_mod_unstash(mod, n);
    size_t exp = n < ns ? n : ns;
    VF_CHECK(r == (ssize_t)exp, "unstash(n) returns min(n, stashed)");
    VF_CHECK(calls[h] == (exp ? 1 : 0) && calls[1 - h] == 0, "one invocation of the current handler (none if nothing was stashed)");
    VF_CHECK(nseen == (int)exp, "handler got exactly min(n, stashed) events");
    for (int i = 0; i < NS; i++) if (i < nseen) VF_CHECK(seen[i] == i, "oldest first, in stash order");
    VF_CHECK(bad_content == 0, "events are redelivered with their original content");
#ifdef VF_RESTASH
    int extra = (ns > 0) ? 1 : 0;          /* event 0 was delivered (n >= 1) and went back on the stash */
    if (extra) VF_CHECK(restashed && restash_r == 0, "stash from inside the handler accepted");
#else
    int extra = 0;
#endif
    VF_CHECK(m_queue_len(mod->stashed) == (ssize_t)(ns - exp) + extra, "the others stay stashed (plus what the handler stashed again)");

#ifdef VF_SECOND
    /* the remainder comes back with a later unstash, still in order, nothing twice */
    ssize_t r2 = m_mod_unstash(mod, SIZE_MAX);
    VF_CHECK(r2 == (ssize_t)(ns - exp) + extra, "second unstash returns the remainder");
    VF_CHECK(nseen == ns + extra, "every stashed event was redelivered exactly once per time it was stashed");
    for (int i = 0; i < NS; i++) if (i < ns) VF_CHECK(seen[i] == i, "overall order is stash order");
    if (extra) VF_CHECK(seen[ns] == 0, "the event stashed again comes back last");
    VF_CHECK(calls[h] == (exp ? 1 : 0) + ((ns - exp) + extra ? 1 : 0), "second invocation only if something was left");
    VF_CHECK(m_queue_len(mod->stashed) == 0, "stash empty at the end");
    VF_CHECK(bad_content == 0, "content intact (2)");
#endif
#endif
    VF_WITNESS("end");
    return 0;
}
