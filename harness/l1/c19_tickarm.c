/* C19 (tick rate): the timer that produces LIBMODULE_CTX_TICK is armed with exactly the configured period, for EVERY
 * period (the whole-core tick jobs use a few constant periods: a symbolic period forks the source block's fields).
 * Unit: poll/cmn_linux.c create_priv_fd() -> create_timerfd() on a timer source with an arbitrary period / flags /
 * clock; timerfd_create and timerfd_settime are recorders.  m_ctx_set_tick(ns) stores ns in tick.tmr.ns and
 * register_ctx_src() copies that struct into the source (whole-core jobs); "arrives no more often than the period" is
 * then the kernel's timerfd contract (first expiry after it_value, then every it_interval). */
#include "vf.h"
#include "ps.h"
#include "src.h"
#include "ctx.h"
#include "poll.h"
#include <sys/timerfd.h>
#ifdef VF_NATIVE
#error "libc's timerfd functions are replaced in this harness: no native build"
#endif
extern void create_priv_fd(ev_src_t *tmp);

static int n_create, n_set, the_clock, set_fd, set_flags;
static struct itimerspec armed;
int timerfd_create(int clockid, int flags) { (void)flags; n_create++; the_clock = clockid; return 7; }
int timerfd_settime(int fd, int flags, const struct itimerspec *n, struct itimerspec *o) {
    (void)o; n_set++; set_fd = fd; set_flags = flags; armed = *n; return 0;
}

int vf_main(void) {
    ev_src_t src;
    memset(&src, 0, sizeof(src));
    src.type = M_SRC_TYPE_TMR;
    src.flags = (m_src_flags)nondet_uint();
    uint64_t ns = nondet_u64();
    int clk = nondet_int();
    src.tmr_src.its.ns = ns; src.tmr_src.its.clock_id = clk;
    src.tmr_src.f.fd = -1;

    create_priv_fd(&src);

    VF_CHECK(n_create == 1 && n_set == 1, "one timer created and armed once");
    VF_CHECK(the_clock == clk, "on the configured clock");
    VF_CHECK(src.tmr_src.f.fd == 7 && set_fd == 7, "the armed descriptor is the source's descriptor");
    VF_CHECK(armed.it_value.tv_sec >= 0 && armed.it_value.tv_nsec >= 0 && armed.it_value.tv_nsec < 1000000000L, "a valid timespec");
    VF_CHECK((uint64_t)armed.it_value.tv_sec * 1000000000ull + (uint64_t)armed.it_value.tv_nsec == ns, "first expiry after exactly the configured period");
    if (src.flags & M_SRC_ONESHOT) VF_CHECK(armed.it_interval.tv_sec == 0 && armed.it_interval.tv_nsec == 0, "one-shot: no interval");
    else VF_CHECK(armed.it_interval.tv_sec == armed.it_value.tv_sec && armed.it_interval.tv_nsec == armed.it_value.tv_nsec, "periodic: interval = the configured period (the tick source is not one-shot)");
    VF_CHECK((set_flags == TFD_TIMER_ABSTIME) == ((src.flags & M_SRC_TMR_ABSOLUTE) != 0) && (set_flags == 0 || set_flags == TFD_TIMER_ABSTIME), "relative unless the absolute flag is given");
    VF_WITNESS("end");
    return 0;
}
