/* C14 (independence): what a context observes must not depend on what a context of another thread does.
 * 2-safety / non-interference at unit level on the loop path of ctx.c: recv_events() (static, real) is run for
 * context A on "thread 0" either alone (solo) or interleaved call-by-call with recv_events() of an unrelated context B
 * on "thread 1" (mixed).  The k-th clock reading of a thread is the same value in both runs (per-thread symbolic,
 * non-decreasing clocks).  The whole observable state of A (its statistics, state, quit flag/code) must be equal in
 * both runs for all clock values.  Any mutable object shared between contexts that feeds an observation makes the
 * query SAT.
 * Stubs: fetch_ms = per-thread symbolic clock, poll_wait = nothing ready (the interference searched for does not need
 * events), m_map_iterate = 0. */
#include "l1.h"
#ifndef ROUNDS
#define ROUNDS 3
#endif
int VF_RECV_EVENTS(m_ctx_t *c, int timeout);      /* = static recv_events() of ctx.c */
#define NCLK (3 * ROUNDS + 2)
static uint64_t T[2][NCLK];
static int ti[2], cur, overflow;
void fetch_ms(uint64_t *val, uint64_t *ctr) {
    if (ti[cur] < NCLK) *val = T[cur][ti[cur]++]; else { overflow = 1; *val = T[cur][NCLK - 1]; }
    if (ctr) (*ctr)++;
}
int poll_wait(poll_priv_t *priv, const int timeout) { (void)priv; (void)timeout; return 0; }
int m_map_iterate(const m_map_t *m, m_map_cb fn, void *up) { (void)m; (void)fn; (void)up; return 0; }
m_ctx_t *vf_the_ctx;

typedef struct { ctx_stats_t stats; m_ctx_states state; bool quit; uint8_t quit_code; int rets[ROUNDS]; } obs_t;

static obs_t run(_Bool mixed, uint64_t a_seen, uint64_t b_seen) {
    m_ctx_t *A = vf_l1_ctx(), *B = vf_l1_ctx();
    A->state = B->state = M_CTX_LOOPING;
    A->stats.recv_msgs = a_seen; B->stats.recv_msgs = b_seen;       /* how much traffic each has seen so far */
    ti[0] = ti[1] = 0;
    obs_t o;
    for (int k = 0; k < ROUNDS; k++) {
        cur = 0; o.rets[k] = VF_RECV_EVENTS(A, 0);
        if (mixed) { cur = 1; VF_RECV_EVENTS(B, 0); }
    }
    o.stats = A->stats; o.state = A->state; o.quit = A->quit; o.quit_code = A->quit_code;
    return o;
}

int vf_main(void) {
    for (int t = 0; t < 2; t++) for (int i = 0; i < NCLK; i++) {
        T[t][i] = nondet_u64(); VF_ASSUME(T[t][i] < (1ull << 40));
        if (i) VF_ASSUME(T[t][i] >= T[t][i - 1]);
    }
    uint64_t a_seen = nondet_u64(), b_seen = nondet_u64();
    obs_t solo = run(0, a_seen, b_seen), mixed = run(1, a_seen, b_seen);
    VF_ASSUME(!overflow);
    VF_CHECK(solo.stats.idle_time == mixed.stats.idle_time, "idle time of a context does not depend on another thread's context");
    VF_CHECK(solo.stats.recv_msgs == mixed.stats.recv_msgs && solo.stats.looping_start_time == mixed.stats.looping_start_time
             && solo.stats.running_modules == mixed.stats.running_modules, "other statistics do not depend on it either");
    VF_CHECK(solo.state == mixed.state && solo.quit == mixed.quit && solo.quit_code == mixed.quit_code, "loop state does not depend on it");
    for (int k = 0; k < ROUNDS; k++) VF_CHECK(solo.rets[k] == mixed.rets[k], "return values do not depend on it");
    VF_WITNESS("end");
    return 0;
}
