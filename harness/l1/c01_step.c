/* C01 (a): ONE lifecycle call from an ARBITRARY module state on the real mod.c (m_mod_start/pause/resume/stop/
 * m_mod_deregister, start(), stop(), optional_hook(), mod_deregister(), reset_module()), real map.c/list.c/stack.c/
 * queue.c/mem.c.  Stubs: manage_srcs -> 0 and init_pubsub_fd -> 0 (polling layer; their real bodies run in the
 * whole-core scenarios), pthread_getspecific (the thread's TLS slot; m_ctx() of ctx.c is real), fetch_ms, tell_system_pubsub_msg (recorder: this is also C19's emission table),
 * m_ctx_deregister (recorder).
 * Symbolic: state bit (5), flags word, tokens, ctx LOOPING/IDLE, number of other running modules, the op, the result
 * of on_start, and a re-entrant action performed by on_start (none / pause self / stop self / deregister self). */
#include "l1.h"
#ifdef VF_NATIVE
#error "statics of mod.c are replaced in this harness: no native build"
#endif
m_ctx_t *vf_the_ctx;
#include <pthread.h>
void *pthread_getspecific(pthread_key_t k) { return vf_the_ctx; }   /* TLS slot of this thread; ctx.c:m_ctx() is real */
int pthread_once(pthread_once_t *o, void (*fn)(void)) { (void)o; (void)fn; return 0; }   /* the key exists (m_ctx() creates it on first use) */
void fetch_ms(uint64_t *val, uint64_t *ctr) { *val = nondet_u64(); if (ctr) (*ctr)++; }
int VF_MANAGE_SRCS(m_mod_t *mod, m_ctx_t *c, int flag, bool stop) { return 0; }
int VF_INIT_PUBSUB_FD(m_mod_t *mod) { return 0; }
static int ctx_dereg;
int m_ctx_deregister(void) { ctx_dereg++; return 0; }
int fs_cleanup(m_mod_t *mod) { return 0; }

static m_mod_t *the_mod;
static int told_started, told_stopped, told_other, told_wrong_sender;
int tell_system_pubsub_msg(const m_mod_t *r, m_ctx_t *c, m_mod_t *s, const char *topic) {
    if (s != the_mod || r != NULL || c != vf_the_ctx) told_wrong_sender++;
    if (strcmp(topic, M_PS_MOD_STARTED) == 0) told_started++;
    else if (strcmp(topic, M_PS_MOD_STOPPED) == 0) told_stopped++;
    else told_other++;
    return 0;
}

static int n_start, n_stop, n_evt, n_eval;
static _Bool start_ret;
static unsigned char inner;          /* 0 none, 1 pause self, 2 stop self, 3 deregister self */
static int inner_r;
static m_mod_t *self_ref;            /* the reference the user (callback) deregisters with */
static m_mod_states state_in_start, state_in_stop;
bool on_start(m_mod_t *m) {
    n_start++; state_in_start = m->state;
    switch (inner) {
    case 1: inner_r = m_mod_pause(m); break;
    case 2: inner_r = m_mod_stop(m); break;
    case 3: inner_r = m_mod_deregister(&self_ref); break;
    default: break;
    }
    return start_ret;
}
#ifdef VF_INNER_STOP
static int restart_r = 1;            /* result of the (single) m_mod_start(self) made from inside on_stop */
void on_stop(m_mod_t *m) { n_stop++; state_in_stop = m->state; if (n_stop == 1) restart_r = m_mod_start(m); }
#else
void on_stop(m_mod_t *m) { n_stop++; state_in_stop = m->state; }
#endif
void on_evt(m_mod_t *m, const m_queue_t *const e) { n_evt++; }
bool on_eval(m_mod_t *m) { n_eval++; return true; }

static _Bool has_tok_pre(uint64_t t) { return t > 0; }
int vf_main(void) {
    m_ctx_t *c = vf_the_ctx = vf_l1_ctx();
    c->modules = m_map_new(0, mem_dtor); VF_ASSUME(c->modules != NULL);
    m_mod_t *mod = the_mod = vf_l1_mod(c, on_evt);
    mod->hook.on_start = on_start; mod->hook.on_stop = on_stop; mod->hook.on_eval = on_eval;
    mod->bound_mods = m_list_new(NULL, mem_dtor); VF_ASSUME(mod->bound_mods != NULL);
    self_ref = m_mem_ref(mod);                     /* user reference from m_mod_register(&ref) */
    m_mem_ref(mod);                                /* harness keeps the block alive for inspection */
    VF_PICK(sb, 5);
    m_mod_states pre = (m_mod_states)(1u << sb);
    mod->state = pre;
    if (pre != M_MOD_ZOMBIE) { int r = m_map_put(c->modules, mod->name, mod); VF_ASSUME(r == 0); }
    else m_mem_unref(mod);                         /* a zombie is no longer held by the context */
    mod->flags = (m_mod_flags)(nondet_uint() & (M_MOD_PERSIST | M_MOD_ALLOW_REPLACE | M_MOD_DENY_PUB | M_MOD_DENY_SUB | M_MOD_DENY_CTX));
    uint64_t tok = nondet_u64(); mod->tb.tokens = tok;
    size_t others = nondet_size_t(); VF_ASSUME(others < 3);
    c->stats.running_modules = others + (pre == M_MOD_RUNNING);
    _Bool looping = nondet_bool();
    c->state = looping ? M_CTX_LOOPING : M_CTX_IDLE;
    c->flags = nondet_bool() ? M_CTX_PERSIST : 0;
    start_ret = nondet_bool();
#ifdef VF_INNER
    inner = nondet_uchar(); VF_ASSUME(inner < 4);
#endif
    _Bool denied_ctx_inside = 0;                   /* M_MOD_DENY_CTX only matters while curr_mod is set: nested calls */

    VF_PICK(op, 5);
#ifdef VF_INNER_STOP
    /* C01.step.restartinstop: the stop callback restarts its own module (STOPPED -> RUNNING is a documented edge, so
     * the nested call is legal whenever the module is really STOPPED).  Only the two calls that run on_stop from a
     * live module are explored, with an accepting start callback; the oracle is implementation-agnostic. */
    VF_ASSUME(op >= 3 && start_ret);
    int r2 = 0;
    if (op == 3) r2 = m_mod_stop(mod); else r2 = m_mod_deregister(&self_ref);
    if (op == 4 && pre != M_MOD_ZOMBIE && !((mod->flags & M_MOD_PERSIST) && looping)) {
        VF_CHECK(r2 == 0, "deregister succeeds from any live state");
#ifdef VF_KF_C01_restart_in_deregister
        VF_ASSUME(restart_r != 0);   /* known finding: excluded = the restart from on_stop was accepted during a deregistration */
#endif
        VF_CHECK(mod->state == M_MOD_ZOMBIE, "deregistration is final, whatever on_stop did");
        VF_CHECK(c->stats.running_modules == others, "running-module count equals the number of RUNNING modules (a zombie is not running)");
        VF_CHECK(n_stop >= n_start + ((pre & (M_MOD_RUNNING | M_MOD_PAUSED)) ? 1 : 0), "every start callback of a deregistered module was followed by its stop callback");
        VF_WITNESS("dereg");
    } else if (op == 3 && (pre & (M_MOD_RUNNING | M_MOD_PAUSED)) && has_tok_pre(tok)) {
        VF_CHECK(r2 == 0, "stop from RUNNING/PAUSED succeeds");
        VF_CHECK(n_stop == 1, "stop callback exactly once");
        if (restart_r == 0) {
            VF_CHECK(mod->state == M_MOD_RUNNING && n_start == 1, "restarted from on_stop: RUNNING again, start callback once");
            VF_CHECK(c->stats.running_modules == others + 1, "running-module count equals the number of RUNNING modules");
        } else {
            VF_CHECK(mod->state == M_MOD_STOPPED && n_start == 0, "restart refused: STOPPED");
            VF_CHECK(c->stats.running_modules == others, "running-module count equals the number of RUNNING modules");
        }
        VF_WITNESS("stop");
    } else {
        VF_CHECK(r2 < 0 && mod->state == pre && n_stop == 0 && n_start == 0, "refused call changes nothing");
    }
    VF_WITNESS("end_restartinstop");
    return 0;
#else
    int r = 0;
    m_mod_states exp = pre;
    int e_start = 0, e_stop = 0, e_tstart = 0, e_tstop = 0;
    _Bool refused = 0;
    _Bool has_tok = tok > 0;
    switch (op) {
    case 0: r = m_mod_start(mod);
        if ((pre & (M_MOD_IDLE | M_MOD_STOPPED)) && has_tok) {
            e_start = 1;
            VF_CHECK(n_start == 1 && state_in_start == M_MOD_RUNNING, "start callback runs once, module already RUNNING");
            if (inner == 0) {
                VF_CHECK(r == 0, "start from IDLE/STOPPED succeeds");
                if (start_ret) { exp = M_MOD_RUNNING; e_tstart = 1; } else { exp = M_MOD_STOPPED; e_stop = 1; }
            } else if (mod->flags & M_MOD_DENY_CTX) {
                /* the nested call is a context-level call made from a callback of a deny-ctx module: refused (C15) */
                VF_CHECK(inner_r < 0, "nested call refused for a deny-ctx module");
                if (start_ret) { exp = M_MOD_RUNNING; e_tstart = 1; } else { exp = M_MOD_STOPPED; e_stop = 1; }
            } else if (inner == 1) {
                if (tok > 1) { VF_CHECK(inner_r == 0, "pause from inside on_start"); exp = start_ret ? M_MOD_PAUSED : M_MOD_STOPPED; e_stop = start_ret ? 0 : 1; }
                else { exp = start_ret ? M_MOD_RUNNING : M_MOD_STOPPED; e_stop = start_ret ? 0 : 1; }
            } else if (inner == 2) {
                /* a start callback that stops its own module AND refuses: the module was stopped once, so on_stop runs once */
                if (tok > 1) { VF_CHECK(inner_r == 0, "stop from inside on_start"); exp = M_MOD_STOPPED; e_stop = 1; }
                else { exp = start_ret ? M_MOD_RUNNING : M_MOD_STOPPED; e_stop = start_ret ? 0 : 1; }
            } else {
                if ((mod->flags & M_MOD_PERSIST) && looping) { VF_CHECK(inner_r < 0, "persistent module not deregistered while looping"); if (start_ret) exp = M_MOD_RUNNING; else { exp = M_MOD_STOPPED; e_stop = 1; } }
                else { VF_CHECK(inner_r == 0, "deregister from inside on_start"); exp = M_MOD_ZOMBIE; e_stop = 1; }
            }
        } else refused = 1;
        break;
    case 1: r = m_mod_pause(mod);
        if (pre == M_MOD_RUNNING && has_tok) { VF_CHECK(r == 0, "pause from RUNNING succeeds"); exp = M_MOD_PAUSED; e_tstop = 1; } else refused = 1;
        break;
    case 2: r = m_mod_resume(mod);
        if (pre == M_MOD_PAUSED && has_tok) { VF_CHECK(r == 0, "resume from PAUSED succeeds"); exp = M_MOD_RUNNING; e_tstart = 1; } else refused = 1;
        break;
    case 3: r = m_mod_stop(mod);
        if ((pre & (M_MOD_RUNNING | M_MOD_PAUSED)) && has_tok) { VF_CHECK(r == 0, "stop from RUNNING/PAUSED succeeds"); exp = M_MOD_STOPPED; e_stop = 1; if (pre == M_MOD_RUNNING) e_tstop = 1; } else refused = 1;
        break;
    default: r = m_mod_deregister(&self_ref);
        if (pre == M_MOD_ZOMBIE || ((mod->flags & M_MOD_PERSIST) && looping)) refused = 1;
        else {
            VF_CHECK(r == 0, "deregister succeeds from any live state");
            VF_CHECK(self_ref == NULL, "the user's handle is cleared");
            exp = M_MOD_ZOMBIE;
            if (pre & (M_MOD_RUNNING | M_MOD_PAUSED)) e_stop = 1;
            if (pre == M_MOD_RUNNING) e_tstop = 1;
            VF_CHECK(m_map_len(c->modules) == 0, "a deregistered module is gone from the context");
            VF_CHECK(ctx_dereg == ((!looping && !(c->flags & M_CTX_PERSIST)) ? 1 : 0), "non-persistent idle context released with its last module, otherwise kept");
        }
        break;
    }
    if (refused) {
        VF_CHECK(r < 0, "a state-changing call in a wrong state / without a token returns a negative code");
        VF_CHECK(mod->state == pre && n_start == 0 && n_stop == 0 && n_evt == 0, "... and changes nothing");
        VF_CHECK(told_started == 0 && told_stopped == 0, "... and notifies nobody");
        VF_CHECK(c->stats.running_modules == others + (pre == M_MOD_RUNNING), "... running count unchanged");
        if (pre != M_MOD_ZOMBIE) VF_CHECK(m_map_len(c->modules) == 1, "... still registered");
    } else {
        VF_CHECK(mod->state == exp, "state after the call follows the documented edge");
        VF_CHECK(n_start == e_start, "start callback exactly once per entry into RUNNING from IDLE/STOPPED, never otherwise");
        if (e_stop) VF_CHECK(n_stop >= 1, "stop callback runs when a RUNNING/PAUSED module is stopped or deregistered");
        if ((pre & (M_MOD_RUNNING | M_MOD_PAUSED)) || op == 0) VF_CHECK(n_stop == e_stop, "stop callback exactly once, and not for pause/resume");
        if (op == 1 || op == 2) VF_CHECK(n_stop == 0 && n_start == 0, "pause and resume run neither callback");
        VF_CHECK(n_evt == 0 && n_eval == 0, "no event handler / eval runs as part of a state change");
        VF_CHECK(c->stats.running_modules == others + (exp == M_MOD_RUNNING), "running-module count equals the number of RUNNING modules");
        VF_CHECK(told_wrong_sender == 0 && told_other == 0, "only MOD_STARTED/MOD_STOPPED notifications, naming this module as sender");
        if (inner == 0) {
            VF_CHECK(told_started == e_tstart, "exactly one MOD_STARTED per entry into RUNNING that sticks");
            if (pre == M_MOD_RUNNING) VF_CHECK(told_stopped == 1, "exactly one MOD_STOPPED when a RUNNING module leaves RUNNING");
            if (op == 2) VF_CHECK(told_stopped == 0, "resume sends no MOD_STOPPED");
        }
    }
    VF_WITNESS("end");
    return 0;
#endif
}
