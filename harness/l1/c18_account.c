/* C18 (b) accounting: the real M_MOD_CONSUME_TOKEN through representative rate-limited entry points and the real refill
 * branch of push_evt (ctx.c, static, reached by its exported name), from ANY bucket state.
 *
 * Inductive formulation: the bucket is constructed directly - burst any uint64_t, tokens any value <= burst (that
 * invariant is assumed before and asserted after every step, so histories of any length are covered) - then the steps of
 * the job's pattern VF_PAT run (with the bucket constructed directly a solver-chosen pattern finishes in seconds; with
 * the configuration call in the same query it did not, DESIGN.md 4/C18):
 *   'C' one rate-limited call of the job's entry point (VF_ENTRY)
 *   'T' one tick of the refill timer (an event of an INTERNAL timer source whose user pointer is &mod->tb)
 *   'B' one tick of a different internal timer (the batch timer: user pointer &mod->batch) - must not refill
 *   '?' any of the three, chosen by the solver
 * Entry points (VF_ENTRY): 0 m_mod_set_batch_size, 1 m_mod_become, 2 m_mod_src_register_tmr (real register_mod_src and
 * create_src, ideal keyed registry below), 3 m_mod_src_deregister_tmr of pre-registered timers, 4 m_mod_pause /
 * m_mod_resume alternating, 5 m_mod_set_batch_timeout (deregisters the previous batch timer and registers the new one).
 * With VF_RATE (and VF_BURST) defined the bucket is first configured by the real m_mod_set_tokenbucket(mod, VF_RATE,
 * VF_BURST) and the refill source is the one that call put into the registry (end-to-end variant with constants; tokens
 * then start anywhere between 0 and what the configuration left).
 * Oracle:
 *   - successes in every prefix <= tokens at its start + refill ticks in it  (<= burst + ticks);
 *   - a call made with no token returns -EAGAIN and changes nothing (tokens, the entry point's own state, statistics);
 *   - a call made with a token and valid arguments succeeds (a throttled module can act again after a tick);
 *   - a refill tick adds exactly one token while tokens < burst, nothing at burst; other internal ticks add nothing;
 *   - tokens <= burst throughout.
 * Stubs: m_ctx(), fetch_ms, poll_set_new_evt (counts), m_bst_insert / m_bst_remove = ideal set keyed by the period
 * (the tree: C11, its keying: C09), for entry 4 also manage_srcs and tell_system_pubsub_msg (count). */
#include "l1.h"
#include <time.h>
#ifdef VF_NATIVE
#define m_ctx vf_unused_real_m_ctx
#include <core/ctx.c>             /* native replay: static push_evt() by textual inclusion */
#undef m_ctx
#define VF_PUSH_EVT push_evt
#endif
#ifndef VF_PAT
#define VF_PAT "CTCC"
#endif
#ifndef VF_ENTRY
#define VF_ENTRY 0
#endif

m_ctx_t *vf_the_ctx;
m_ctx_t *m_ctx(void) { return vf_the_ctx; }
void fetch_ms(uint64_t *val, uint64_t *ctr) { *val = nondet_u64(); if (ctr) (*ctr)++; }
void VF_PUSH_EVT(m_mod_t *mod, evt_priv_t *evt);    /* = static push_evt() of ctx.c */

static int poll_calls;
int poll_set_new_evt(poll_priv_t *priv, ev_src_t *tmp, const enum op_type flag) { poll_calls++; return 0; }

#if VF_ENTRY == 4
static int manage_calls, sys_msgs;
int VF_MANAGE_SRCS(m_mod_t *mod, m_ctx_t *c, int flag, bool stop) { manage_calls++; return 0; }
int tell_system_pubsub_msg(const m_mod_t *recipient, m_ctx_t *c, m_mod_t *sender, const char *topic) { sys_msgs++; return 0; }
#endif

/* ideal registry of timer sources keyed by the period */
#define NR 8
static ev_src_t *reg[NR];
static int nreg;
int m_bst_insert(m_bst_t *l, void *data) {
    ev_src_t *s = data;
    for (int i = 0; i < NR; i++) if (reg[i] && reg[i]->tmr_src.its.ns == s->tmr_src.its.ns) return -EEXIST;
    for (int i = 0; i < NR; i++) if (!reg[i]) { reg[i] = s; nreg++; return 0; }
    return -ENOMEM;
}
int m_bst_remove(m_bst_t *l, void *data) {
    ev_src_t *k = data;      /* deregister_mod_src() wraps the user key in a source (src.c:fill_src) */
    for (int i = 0; i < NR; i++) if (reg[i] && reg[i]->tmr_src.its.ns == k->tmr_src.its.ns) { m_mem_unref(reg[i]); reg[i] = NULL; nreg--; return 0; }
    return -ENOENT;
}

/* x <= a + b without wrap-around */
static _Bool le_sum(uint64_t x, uint64_t a, uint64_t b) { return x <= b || x - b <= a; }

static int handler_calls;
void on_evt(m_mod_t *m, const m_queue_t *const q) { handler_calls++; }
void h1(m_mod_t *m, const m_queue_t *const q) { handler_calls++; }

static ev_src_t *internal_timer(m_mod_t *mod, const void *up, uint64_t ns) {
    ev_src_t *s = m_mem_new(sizeof(ev_src_t), NULL);
    VF_ASSUME(s != NULL);
    s->type = M_SRC_TYPE_TMR;
    s->flags = (m_src_flags)(M_SRC_INTERNAL | M_SRC_PRIO_HIGH);
    s->userptr = up;
    s->mod = mod;
    s->tmr_src.its.clock_id = CLOCK_MONOTONIC;
    s->tmr_src.its.ns = ns;
    return s;
}

/* what one delivery of a timer event does in recv_events: new_evt(src), then push_evt */
static void tick(m_mod_t *mod, ev_src_t *src) {
    evt_priv_t *e = new_evt(src);
    VF_ASSUME(e != NULL);
    VF_PUSH_EVT(mod, e);
}

int vf_main(void) {
    static const char pat[] = VF_PAT;
    vf_the_ctx = vf_l1_ctx();
    m_mod_t *mod = vf_l1_mod(vf_the_ctx, on_evt);
    mod->state = M_MOD_RUNNING;
    vf_the_ctx->stats.running_modules = 1;
    mod->srcs[M_SRC_TYPE_TMR] = (m_bst_t *)&reg;          /* opaque handle of the registry model */

#ifdef VF_BURST
    uint64_t burst = VF_BURST;     /* end-to-end variant: a symbolic burst makes the registration's own token check, and
                                    * with it the heap shape, symbolic (no verdict under 12 GB) */
#else
    uint64_t burst = nondet_u64();
#endif
    ev_src_t *tb_src;
#ifdef VF_RATE
    VF_ASSUME(burst >= 1);                                 /* burst 0: the registration itself is refused, c18_reconf.c */
    int r0 = m_mod_set_tokenbucket(mod, VF_RATE, burst);
    VF_CHECK(r0 == 0 && nreg == 1 && reg[0] != NULL, "configuration registers the refill timer");
    tb_src = reg[0];
    VF_CHECK((tb_src->flags & M_SRC_INTERNAL) && tb_src->userptr == (const void *)&mod->tb, "the registered timer is the refill timer");
    VF_CHECK(mod->tb.tokens <= burst, "tokens <= burst after configuration");
    /* calls made since the configuration */
    uint64_t used = nondet_u64();
    VF_ASSUME(used <= mod->tb.tokens);
    mod->tb.tokens -= used;
#else
    uint64_t tok0 = nondet_u64();
    VF_ASSUME(tok0 <= burst);
    mod->tb.burst = burst;
    mod->tb.tokens = tok0;
    uint64_t tb_ns = nondet_u64();
    VF_ASSUME(tb_ns >= 1 && tb_ns <= BILLION);
    tb_src = internal_timer(mod, &mod->tb, tb_ns);
#endif
    ev_src_t *batch_src = internal_timer(mod, &mod->batch, 5000);
    const uint64_t start_tokens = mod->tb.tokens;

#if VF_ENTRY == 3
    /* timers registered earlier, to be deregistered by the calls */
    for (int i = 0; i + 1 < (int)sizeof(pat) && i < NR - 1; i++) {      /* one per step: a key is never asked for twice */
        ev_src_t *u = m_mem_new(sizeof(ev_src_t), NULL); VF_ASSUME(u != NULL);
        u->type = M_SRC_TYPE_TMR; u->flags = M_SRC_PRIO_NORM; u->mod = mod; u->tmr_src.its.ns = 7000 + i;
        VF_ASSUME(m_bst_insert(mod->srcs[M_SRC_TYPE_TMR], u) == 0);
    }
#endif

    uint64_t ok = 0, ticks = 0;
    int ncall = 0;
    for (unsigned s = 0; s + 1 < sizeof(pat); s++) {
        const uint64_t before = mod->tb.tokens;
        char kind = pat[s];
        if (kind == '?') {                                 /* symbolic step (entry points that leave the heap shape alone) */
            VF_PICK(k, 3);
            kind = k == 0 ? 'C' : k == 1 ? 'T' : 'B';
        }
        if (kind == 'T') {
#if VF_ENTRY == 4
            if (mod->state != M_MOD_RUNNING) continue;     /* a paused module's timers are not polled */
#endif
            tick(mod, tb_src);
            ticks++;
            VF_CHECK(mod->tb.tokens == (before < burst ? before + 1 : before), "a refill tick adds one token up to burst");
        } else if (kind == 'B') {
            tick(mod, batch_src);
            VF_CHECK(mod->tb.tokens == before, "another internal timer does not refill");
        } else {
            const uint64_t actions = mod->stats.action_ctr;
            int r;
#if VF_ENTRY == 0
            const size_t len0 = mod->batch.len;
            const size_t want = nondet_size_t();
            r = m_mod_set_batch_size(mod, want);
            if (r == 0) VF_CHECK(mod->batch.len == want, "batch size set");
            else VF_CHECK(mod->batch.len == len0, "refused call leaves the batch size alone");
#elif VF_ENTRY == 1
            const size_t depth0 = m_stack_len(mod->recvs);
            r = m_mod_become(mod, h1);
            VF_CHECK(m_stack_len(mod->recvs) == depth0 + (r == 0 ? 1 : 0), "handler stack grows exactly on success");
#elif VF_ENTRY == 2
            const int n0 = nreg, p0 = poll_calls;
            m_src_tmr_t its = { CLOCK_MONOTONIC, 9000 + (uint64_t)ncall };
            r = m_mod_src_register_tmr(mod, &its, (m_src_flags)0, NULL);
            VF_CHECK(nreg == n0 + (r == 0 ? 1 : 0) && poll_calls == p0 + (r == 0 ? 1 : 0), "a timer is registered and armed exactly on success");
#elif VF_ENTRY == 3
            const int n0 = nreg;
            m_src_tmr_t its = { CLOCK_MONOTONIC, 7000 + (uint64_t)ncall };
            r = m_mod_src_deregister_tmr(mod, &its);
            VF_CHECK(nreg == n0 - (r == 0 ? 1 : 0), "a timer is removed exactly on success");
#elif VF_ENTRY == 5
            /* m_mod_set_batch_timeout: rate-limited through the timer deregistration + registration it performs (up to
             * two tokens) */
            const int n0 = nreg;
            const size_t len0 = mod->batch.len;
            const uint64_t bns0 = mod->batch.timer.ns;
            r = m_mod_set_batch_timeout(mod, 6000 + (uint64_t)ncall);
            if (r == -EAGAIN) {
                VF_CHECK(nreg == n0 && mod->batch.len == len0 && mod->batch.timer.ns == bns0,
                         "a batch timeout refused with EAGAIN changes nothing");
                VF_CHECK(mod->tb.tokens == before && mod->stats.action_ctr == actions, "a refused call changes neither tokens nor statistics");
            } else {
                VF_CHECK(r == 0 && mod->batch.timer.ns == 6000 + (uint64_t)ncall, "batch timeout set");
                VF_CHECK(mod->tb.tokens < before, "a successful call consumes");
                ok++;
            }
            if (before == 0) VF_CHECK(r == -EAGAIN, "a call without a token fails with EAGAIN");
            ncall++;
            goto bound;
#else
            const m_mod_states st0 = mod->state;
            const int m0 = manage_calls, y0 = sys_msgs;
            r = st0 == M_MOD_RUNNING ? m_mod_pause(mod) : m_mod_resume(mod);
            if (r == 0) VF_CHECK(mod->state == (st0 == M_MOD_RUNNING ? M_MOD_PAUSED : M_MOD_RUNNING), "state changed");
            else VF_CHECK(mod->state == st0 && manage_calls == m0 && sys_msgs == y0, "refused state change has no effect");
#endif
            ncall++;
            if (before == 0) {
                VF_CHECK(r == -EAGAIN, "a call without a token fails with EAGAIN");
                VF_CHECK(mod->tb.tokens == 0 && mod->stats.action_ctr == actions, "a refused call changes neither tokens nor statistics");
            } else {
                VF_CHECK(r == 0, "a call with a token (valid arguments) succeeds");
                VF_CHECK(mod->tb.tokens < before, "a successful call consumes");
                ok++;
            }
        }
#if VF_ENTRY == 5
bound:
#endif
        VF_CHECK(le_sum(ok, start_tokens, ticks), "successes <= tokens at the start + refill ticks");
        VF_CHECK(le_sum(ok, burst, ticks), "successes <= burst + refill ticks");
        VF_CHECK(mod->tb.tokens <= burst, "tokens never exceed burst");
    }
    VF_CHECK(handler_calls == 0, "no handler invocation: nothing was pending");
    VF_WITNESS("end");
    return 0;
}
