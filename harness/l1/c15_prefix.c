/* C15 (d): publishing on the reserved system-topic prefix is always refused.  m_mod_ps_publish(D, topic, ...) on the
 * real ps.c with an ARBITRARY topic of up to 11 characters (symbolic buffer) or no topic at all (broadcast); module R
 * holds a subscription that matches everything (regexec stub says "match"), so any accepted publication is written
 * to R's mailbox.  Oracle: refused  <=>  the first 10 characters are "LIBMODULE_"; refused => negative result,
 * nothing written, sent counter / tokens untouched; accepted => 0 and exactly one message for R.
 * Stubs: pthread_getspecific, fetch_ms, write (recorder), regcomp -> 0, regexec -> match, regfree.
 * Symbolic: the topic bytes, topic NULL or not, D's flag bits outside the deny classes, state of D (not ZOMBIE). */
#include "l1.h"
#ifdef VF_NATIVE
#error "libc functions are replaced in this harness: no native build"
#endif
#include <pthread.h>
#include <regex.h>
#define TLEN 12
m_ctx_t *vf_the_ctx;
void *pthread_getspecific(pthread_key_t k) { (void)k; return vf_the_ctx; }
int pthread_once(pthread_once_t *o, void (*fn)(void)) { (void)o; (void)fn; return 0; }   /* the key exists (m_ctx() creates it on first use) */
void fetch_ms(uint64_t *val, uint64_t *ctr) { *val = nondet_u64(); if (ctr) (*ctr)++; }
int regcomp(regex_t *r, const char *p, int fl) { (void)r; (void)p; (void)fl; return 0; }
int regexec(const regex_t *r, const char *s, size_t n, regmatch_t *m, int fl) { (void)r; (void)s; (void)n; (void)m; (void)fl; return 0; }
void regfree(regex_t *r) { (void)r; }
static int n_write, w_fd;
ssize_t write(int fd, const void *b, size_t n) { (void)b; n_write++; w_fd = fd; return (ssize_t)n; }
void on_evt(m_mod_t *m, const m_queue_t *const q) { (void)m; (void)q; }

int vf_main(void) {
    m_ctx_t *c = vf_the_ctx = vf_l1_ctx();
    c->modules = m_map_new(0, mem_dtor); VF_ASSUME(c->modules != NULL);
    m_mod_t *D = vf_l1_mod(c, on_evt), *R = vf_l1_mod(c, on_evt);
    D->name = "d"; R->name = "r";
    { int r0 = m_map_put(c->modules, D->name, m_mem_ref(D)); VF_ASSUME(r0 == 0); r0 = m_map_put(c->modules, R->name, m_mem_ref(R)); VF_ASSUME(r0 == 0); }
    R->state = M_MOD_RUNNING; R->pubsub_fd[0] = 4; R->pubsub_fd[1] = 5;
    D->state = M_MOD_RUNNING;
    { int r0 = m_mod_ps_subscribe(R, "x", 0, NULL); VF_ASSUME(r0 == 0 && R->subscriptions != NULL); }
    VF_PICK(sb, 4);
    D->state = (m_mod_states)(1u << sb);               /* IDLE / RUNNING / PAUSED / STOPPED */
    D->flags = (m_mod_flags)(nondet_uint() & ~(unsigned)(M_MOD_DENY_PUB | M_MOD_DENY_CTX));
    uint64_t tok = nondet_u64(); VF_ASSUME(tok > 0); D->tb.tokens = tok;

    char topic[TLEN];
    for (int i = 0; i < TLEN - 1; i++) topic[i] = (char)nondet_uchar();
    topic[TLEN - 1] = 0;
    _Bool none = nondet_bool();
    static const char pfx[] = "LIBMODULE_";
    _Bool reserved = !none;
    for (int i = 0; i < 10; i++) if (topic[i] != pfx[i]) reserved = 0;
    static char payload;
    uint64_t sent0 = D->stats.sent_msgs;

    int r = m_mod_ps_publish(D, none ? NULL : topic, &payload, 0);

    if (reserved) {
        VF_CHECK(r < 0, "publishing on the reserved prefix is refused");
        VF_CHECK(n_write == 0 && D->stats.sent_msgs == sent0 && D->tb.tokens == tok, "... and nothing is sent or accounted");
    } else {
        VF_CHECK(r == 0, "any other topic (or a broadcast) is accepted");
        if (!none) VF_CHECK(n_write == 1 && w_fd == 5, "... and reaches the matching subscriber once");
        else VF_CHECK(n_write == 1 + ((D->state & (M_MOD_RUNNING | M_MOD_PAUSED)) ? 1 : 0), "... a broadcast reaches every RUNNING/PAUSED module once");
    }
    VF_WITNESS("end");
    return 0;
}
