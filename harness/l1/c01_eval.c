/* C01 (b): the evaluation pass - real m_map_iterate(ctx->modules, evaluate_module) + evaluate_module + start() +
 * optional_hook() on a real map of NM modules in arbitrary states.  Stubs as in c01_step.c plus
 * poll_notify_userevent (threshold sources absent).
 * Symbolic: every module's state (IDLE/RUNNING/PAUSED/STOPPED), presence and result of its on_eval, result of its
 * on_start.  Oracle: after ONE pass every IDLE module whose eval is absent or true has been started (exactly one
 * on_start; RUNNING, or STOPPED if on_start refused) regardless of the other modules' eval results; nobody else is
 * touched; eval only runs for IDLE modules; running count exact. */
#include "l1.h"
#ifndef NM
#define NM 3
#endif
m_ctx_t *vf_the_ctx;
#include <pthread.h>
void *pthread_getspecific(pthread_key_t k) { return vf_the_ctx; }   /* TLS slot of this thread; ctx.c:m_ctx() is real */
int pthread_once(pthread_once_t *o, void (*fn)(void)) { (void)o; (void)fn; return 0; }   /* the key exists (m_ctx() creates it on first use) */
void fetch_ms(uint64_t *val, uint64_t *ctr) { *val = nondet_u64(); if (ctr) (*ctr)++; }
int VF_MANAGE_SRCS(m_mod_t *mod, m_ctx_t *c, int flag, bool stop) { return 0; }
int VF_INIT_PUBSUB_FD(m_mod_t *mod) { return 0; }
int tell_system_pubsub_msg(const m_mod_t *r, m_ctx_t *c, m_mod_t *s, const char *topic) { return 0; }
int poll_notify_userevent(poll_priv_t *priv, ev_src_t *src) { return 0; }
int m_ctx_deregister(void) { return 0; }
int fs_cleanup(m_mod_t *mod) { return 0; }

static m_mod_t *mods[NM];
static _Bool has_eval[NM], eval_ret[NM], start_ret[NM];
static int evals[NM], starts[NM], stops[NM];
static int idx(m_mod_t *m) { for (int i = 0; i < NM; i++) if (m == mods[i]) return i; return 0; }
bool on_eval(m_mod_t *m) { evals[idx(m)]++; return eval_ret[idx(m)]; }
bool on_start(m_mod_t *m) { starts[idx(m)]++; return start_ret[idx(m)]; }
void on_stop(m_mod_t *m) { stops[idx(m)]++; }
void on_evt(m_mod_t *m, const m_queue_t *const e) { }
static const char *names[4] = { "a", "b", "c", "d" };

int vf_main(void) {
    m_ctx_t *c = vf_the_ctx = vf_l1_ctx();
    c->modules = m_map_new(0, mem_dtor); VF_ASSUME(c->modules != NULL);
    c->state = M_CTX_LOOPING;
    m_mod_states pre[NM];
    for (int i = 0; i < NM; i++) {
        mods[i] = vf_l1_mod(c, on_evt);
        mods[i]->name = names[i];
        VF_PICK(sb, 4);
        pre[i] = mods[i]->state = (m_mod_states)(1u << sb);
        if (pre[i] == M_MOD_RUNNING) c->stats.running_modules++;
        has_eval[i] = nondet_bool(); eval_ret[i] = nondet_bool(); start_ret[i] = nondet_bool();
        mods[i]->hook.on_eval = has_eval[i] ? on_eval : NULL;
        mods[i]->hook.on_start = on_start; mods[i]->hook.on_stop = on_stop;
        int r = m_map_put(c->modules, names[i], m_mem_ref(mods[i])); VF_ASSUME(r == 0);
    }
    m_map_iterate(c->modules, evaluate_module, NULL);      /* what loop_start() and recv_events() do after a batch */
    size_t running = 0;
    for (int i = 0; i < NM; i++) {
        if (pre[i] == M_MOD_IDLE && (!has_eval[i] || eval_ret[i])) {
            VF_CHECK(starts[i] == 1, "every IDLE module whose eval is absent/true is started in the pass, whatever other modules' evals return");
            VF_CHECK(mods[i]->state == (start_ret[i] ? M_MOD_RUNNING : M_MOD_STOPPED), "started module is RUNNING, or STOPPED if its start callback refused");
            VF_CHECK(stops[i] == (start_ret[i] ? 0 : 1), "refusing start: stop callback once");
        } else {
            VF_CHECK(starts[i] == 0 && stops[i] == 0, "modules that are not IDLE / whose eval says no are not started");
            VF_CHECK(mods[i]->state == pre[i], "... and keep their state");
        }
        if (pre[i] != M_MOD_IDLE) VF_CHECK(evals[i] == 0, "eval runs only for IDLE modules");
        VF_CHECK(evals[i] <= 1, "eval at most once per pass");
        running += mods[i]->state == M_MOD_RUNNING;
    }
    VF_CHECK(c->stats.running_modules == running, "running-module count equals the number of RUNNING modules");
    VF_WITNESS("end");
    return 0;
}
