/* C13 (c): "descriptor events always are" high priority.  A descriptor source is registered through the public
 * m_mod_src_register_fd() (real src.c: parameter checks, register_mod_src, M_SRC_ASSERT_PRIO_FLAGS, create_src), then one
 * event of that source arrives (real push_evt, call_pubsub_cb, evt_dtor, queue.c, mem.c) while K events are pending.
 * Stubs: m_bst_insert (records the source block instead of the per-module tree: the registry is C09's subject),
 * poll_set_new_evt -> 0 (polling layer), m_ctx(), fetch_ms.
 * The flags word of the registration is a per-job constant (VF_FLAGS: the allocation-free user flags with the priority
 * left unspecified or HIGH - anything else is rejected by the wrapper) and so is the descriptor number; symbolic: batch
 * size (size_t), batch timeout (u64), clock.
 * Oracle: the registration succeeds and an event of that source is handed to the handler at once, together with the K
 * pending events, in order - whatever batch size / timeout is configured. */
#include "l1.h"
#ifdef VF_NATIVE
#error "m_bst_insert is replaced in this harness: no native build"
#endif
#ifndef K
#define K 1
#endif
#ifndef VF_FLAGS
#define VF_FLAGS 0
#endif
m_ctx_t *vf_the_ctx;
m_ctx_t *m_ctx(void) { return vf_the_ctx; }
void fetch_ms(uint64_t *val, uint64_t *ctr) { *val = nondet_u64(); if (ctr) (*ctr)++; }
void VF_PUSH_EVT(m_mod_t *mod, evt_priv_t *evt);
void VF_EVT_DTOR(void *);

static ev_src_t *captured;
static int inserts;
int m_bst_insert(m_bst_t *l, void *data) { captured = data; inserts++; return 0; }
int poll_set_new_evt(poll_priv_t *priv, ev_src_t *tmp, const enum op_type flag) { return 0; }
int dup(int fd) { return fd + 1; }            /* M_SRC_DUP: the duplicate is another descriptor number */

static void *ident[K + 2];
static int calls, nseen, seen[K + 3];
void on_evt(m_mod_t *m, const m_queue_t *const q) {
    calls++;
    m_itr_foreach(q, {
        void *e = m_itr_get(m_itr);
        int id = -1;
        for (int i = 0; i < K + 1; i++) if (e == ident[i]) id = i;
        if (nseen < K + 3) seen[nseen] = id;
        nseen++;
    });
}
static char user;

int vf_main(void) {
    vf_the_ctx = vf_l1_ctx();
    m_mod_t *mod = vf_l1_mod(vf_the_ctx, on_evt);
    mod->state = M_MOD_RUNNING;
    mod->batch.len = nondet_size_t();
    mod->batch.timer.ns = nondet_u64();
    for (int i = 0; i < K; i++) {
        evt_priv_t *e = m_mem_new(sizeof(evt_priv_t), VF_EVT_DTOR); VF_ASSUME(e != NULL);
        e->evt.type = M_SRC_TYPE_PS;
        int r = m_queue_enqueue(mod->batch.events, e); VF_ASSUME(r == 0);
        ident[i] = e;
    }

    const int fd = 7;            /* concrete: a symbolic number makes the parameter check a symbolic early return (heap shape) */
    int r = m_mod_src_register_fd(mod, fd, (m_src_flags)(VF_FLAGS), &user);
    VF_CHECK(r == 0 && inserts == 1 && captured != NULL, "a descriptor source with unspecified or HIGH priority is accepted");
    VF_CHECK(captured->type == M_SRC_TYPE_FD && captured->fd_src.fd == (((VF_FLAGS) & M_SRC_DUP) ? fd + 1 : fd) && captured->mod == mod, "the source block describes the descriptor");

    evt_priv_t *nw = new_evt(captured); VF_ASSUME(nw != NULL);
    nw->evt.fd_evt = m_mem_new(sizeof(m_evt_fd_t), NULL); VF_ASSUME(nw->evt.fd_evt != NULL);   /* as process_fd */
    nw->evt.fd_evt->fd = fd;
    ident[K] = nw;
    VF_PUSH_EVT(mod, nw);

    VF_CHECK(calls == 1, "a descriptor event is handed over at once, whatever the batch settings");
    VF_CHECK(nseen == K + 1, "together with everything that was pending");
    for (int i = 0; i < K + 1; i++) if (i < nseen) VF_CHECK(seen[i] == i, "in arrival order");
    VF_CHECK(m_queue_len(mod->batch.events) == 0, "nothing stays behind");
    VF_WITNESS("end");
    return 0;
}
