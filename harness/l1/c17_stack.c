/* C17: m_mod_become / m_mod_unbecome / handler selection in call_pubsub_cb on the real evts.c, ps.c, stack.c, queue.c,
 * mem.c; stop = the real static reset_module() of mod.c.  Stubs: m_ctx(), fetch_ms.
 * Symbolic: a script of L operations over { become(h1), become(h2), unbecome, deliver one event, stop+start,
 * pause (state -> PAUSED) / resume }, and for every delivery the action the invoked handler performs re-entrantly
 * (nothing / become(h1|h2) / unbecome).  Oracle: an explicit stack model. */
#include "l1.h"
#ifdef VF_NATIVE
#include <core/mod.c>
#define VF_RESET_MODULE reset_module
#endif
#ifndef L
#define L 4
#endif
#define DEPTH (2 * L + 1)
m_ctx_t *vf_the_ctx;
m_ctx_t *m_ctx(void) { return vf_the_ctx; }
void fetch_ms(uint64_t *val, uint64_t *ctr) { *val = nondet_u64(); if (ctr) (*ctr)++; }
void VF_RESET_MODULE(m_mod_t *mod);

static int model[DEPTH], depth;            /* handler ids: 0 = registration-time handler, 1, 2 */
static int last_invoked, invocations, inner_action, inner_ret;
void h0(m_mod_t *m, const m_queue_t *const q);
void h1(m_mod_t *m, const m_queue_t *const q);
void h2(m_mod_t *m, const m_queue_t *const q);
static void inner(m_mod_t *m) {
    /* a change made inside a handler takes effect from the next invocation */
    switch (inner_action) {
    case 1: inner_ret = m_mod_become(m, h1); break;
    case 2: inner_ret = m_mod_become(m, h2); break;
    case 3: inner_ret = m_mod_unbecome(m); break;
    default: break;
    }
}
void h0(m_mod_t *m, const m_queue_t *const q) { last_invoked = 0; invocations++; inner(m); }
void h1(m_mod_t *m, const m_queue_t *const q) { last_invoked = 1; invocations++; inner(m); }
void h2(m_mod_t *m, const m_queue_t *const q) { last_invoked = 2; invocations++; inner(m); }

static void model_apply(int a, int r) {
    if (a == 1 || a == 2) { VF_CHECK(r == 0, "become in RUNNING succeeds"); if (depth < DEPTH) model[depth] = a; depth++; }
    else if (a == 3) {
        if (depth == 0) VF_CHECK(r < 0, "unbecome on an empty handler stack fails");
        else { VF_CHECK(r == 0, "unbecome removes the top handler"); depth--; }
    }
}

int vf_main(void) {
    vf_the_ctx = vf_l1_ctx();
    m_mod_t *mod = vf_l1_mod(vf_the_ctx, h0);
    mod->state = M_MOD_RUNNING;
    for (int step = 0; step < L; step++) {
        VF_PICK(op, 7);
        int r;
        _Bool running = mod->state == M_MOD_RUNNING;
        switch (op) {
        case 0: case 1:
            r = m_mod_become(mod, op == 0 ? h1 : h2);
            if (running) model_apply(op + 1, r);
            else VF_CHECK(r < 0 && m_stack_len(mod->recvs) == depth, "become refused unless RUNNING, no effect");
            break;
        case 2:
            r = m_mod_unbecome(mod);
            if (running) model_apply(3, r);
            else VF_CHECK(r < 0 && m_stack_len(mod->recvs) == depth, "unbecome refused unless RUNNING, no effect");
            break;
        case 3: {   /* one event is delivered (the loop only does this for a RUNNING module) */
            if (!running) break;
            m_queue_t *q = m_queue_new(mem_dtor); VF_ASSUME(q != NULL);
            evt_priv_t *e = m_mem_new(sizeof(evt_priv_t), NULL); VF_ASSUME(e != NULL);
            m_queue_enqueue(q, e);
            VF_PICK(ia, 4); inner_action = ia; inner_ret = 0;
            int before = invocations;
            int expect = depth ? model[depth - 1] : 0;
            call_pubsub_cb(mod, q);
            VF_CHECK(invocations == before + 1, "exactly one handler invocation per delivery");
            VF_CHECK(last_invoked == expect, "delivery goes to the most recently installed handler still on the stack, else to the registration-time handler");
            model_apply(ia, inner_ret);
            inner_action = 0;
            break; }
        case 4:     /* stop then start again: the stack is emptied */
            if (mod->state & (M_MOD_RUNNING | M_MOD_PAUSED)) {
                VF_RESET_MODULE(mod);
                mod->state = M_MOD_RUNNING;
                depth = 0;
            }
            break;
        case 5: if (running) mod->state = M_MOD_PAUSED; break;      /* pause keeps the stack */
        default: if (mod->state == M_MOD_PAUSED) mod->state = M_MOD_RUNNING; break;
        }
        VF_CHECK(m_stack_len(mod->recvs) == depth, "handler stack depth follows the model");
    }
    /* final observation: who gets the next event */
    if (mod->state == M_MOD_PAUSED) mod->state = M_MOD_RUNNING;
    {
        m_queue_t *q = m_queue_new(mem_dtor); VF_ASSUME(q != NULL);
        evt_priv_t *e = m_mem_new(sizeof(evt_priv_t), NULL); VF_ASSUME(e != NULL);
        m_queue_enqueue(q, e);
        inner_action = 0;
        call_pubsub_cb(mod, q);
        VF_CHECK(last_invoked == (depth ? model[depth - 1] : 0), "final delivery goes to the model's top handler");
    }
    VF_WITNESS("end");
    return 0;
}
