/* C09 comparator contract, one job per source kind (-DKIND=<m_src_types value>).
 *
 * Real code: src.c (public m_mod_src_register_X / m_mod_src_deregister_X wrappers with their parameter checks,
 * register_mod_src, deregister_mod_src, create_src, init_src and the kind's comparator out of src_cmp_map), mem.c.
 * Replaced: the search tree.  bst.c calls the comparator in exactly one form, bst_find(): `l->comp(data,
 * node->userptr)` where `data` is the pointer handed to m_bst_insert / m_bst_remove / m_bst_find; the mock below does
 * the same against EVERY stored element and records the signs, accepts every insert and removes nothing - so the
 * harness sees what the comparator answers for the three ways the core hands data to the tree:
 *   ins  m_bst_insert(tree, <what register_mod_src passes>)          (registration)
 *   rm   m_bst_remove(tree, <what deregister_mod_src passes>)        (deregistration by key)
 *   os   m_bst_remove(mod->srcs[p->type], p)                         (ctx.c:recv_events, one-shot source that fired;
 *                                                                      by then the poll layer has stored its private
 *                                                                      descriptor in the source: arbitrary value)
 * Contract (what keyed-set behaviour of ANY search tree needs, see C11 for the tree itself): the answers form one
 * strict weak order whose equivalence is key equality, the same in all three forms.
 * Symbolic: three keys at full width within the documented parameter preconditions (fd >= 0, ns > 0, signo > 0,
 * non-empty path, pid > 0, any task id, thresholds see below), secondary fields (clock id, event masks), flags,
 * private descriptor values.  Stubs: m_ctx(), fetch_ms, poll_set_new_evt (not reached: module IDLE). */
#include "l1.h"
#ifndef KIND
#define KIND 2
#endif
#ifndef NK
#define NK 3
#endif
m_ctx_t *vf_the_ctx;
m_ctx_t *m_ctx(void) { return vf_the_ctx; }
void fetch_ms(uint64_t *val, uint64_t *ctr) { *val = nondet_u64(); if (ctr) (*ctr)++; }
int poll_set_new_evt(poll_priv_t *priv, ev_src_t *tmp, const enum op_type flag) { (void)priv; (void)tmp; (void)flag; return 0; }

/* ---- mock of the tree: records sign(comp(data, element)) for every stored element ---- */
struct _bst { m_bst_cmp comp; void *el[NK]; int n; };
static struct _bst the_tree;
static int (*rec)[NK];          /* row that the next tree call fills */
static int sgn(int x) { return (x > 0) - (x < 0); }
m_bst_t *m_bst_new(m_bst_cmp comp, m_bst_dtor fn) { (void)fn; the_tree.comp = comp; the_tree.n = 0; return &the_tree; }
static void probe(m_bst_t *l, void *data) {
    for (int i = 0; i < NK; i++) if (i < l->n) (*rec)[i] = sgn(l->comp(data, l->el[i]));
}
int m_bst_insert(m_bst_t *l, void *data) {
    probe(l, data);
    if (l->n < NK) l->el[l->n++] = data;
    return 0;
}
int m_bst_remove(m_bst_t *l, void *data) { probe(l, data); return 0; }
ssize_t m_bst_len(const m_bst_t *l) { return l->n; }

/* ---- keys per kind ---- */
#if KIND == 1       /* descriptor */
typedef int key_t_;
static void mk_key(key_t_ *k, int i) { (void)i; *k = nondet_int(); VF_ASSUME(*k >= 0); }
static _Bool k_same(const key_t_ *a, const key_t_ *b) { return *a == *b; }
static _Bool k_diff(const key_t_ *a, const key_t_ *b) { return *a != *b; }
static int k_reg(m_mod_t *m, key_t_ *k, m_src_flags f) { return m_mod_src_register_fd(m, *k, f & ~(M_SRC_PRIO_LOW | M_SRC_PRIO_NORM), NULL); }
static int k_dereg(m_mod_t *m, key_t_ *k, int i) { (void)i; return m_mod_src_deregister_fd(m, *k); }
#elif KIND == 2     /* timer: the period identifies it; same period + same clock is certainly the same timer */
typedef m_src_tmr_t key_t_;
static void mk_key(key_t_ *k, int i) { (void)i; memset(k, 0, sizeof(*k)); k->clock_id = nondet_int(); k->ns = nondet_u64(); VF_ASSUME(k->ns > 0); }
static _Bool k_same(const key_t_ *a, const key_t_ *b) { return a->ns == b->ns && a->clock_id == b->clock_id; }
static _Bool k_diff(const key_t_ *a, const key_t_ *b) { return a->ns != b->ns; }
static int k_reg(m_mod_t *m, key_t_ *k, m_src_flags f) { return m_mod_src_register_tmr(m, k, f, NULL); }
static int k_dereg(m_mod_t *m, key_t_ *k, int i) { (void)i; return m_mod_src_deregister_tmr(m, k); }
#elif KIND == 3     /* signal */
typedef m_src_sgn_t key_t_;
static void mk_key(key_t_ *k, int i) { (void)i; k->signo = nondet_uint(); VF_ASSUME(k->signo > 0); }
static _Bool k_same(const key_t_ *a, const key_t_ *b) { return a->signo == b->signo; }
static _Bool k_diff(const key_t_ *a, const key_t_ *b) { return a->signo != b->signo; }
static int k_reg(m_mod_t *m, key_t_ *k, m_src_flags f) { return m_mod_src_register_sgn(m, k, f, NULL); }
static int k_dereg(m_mod_t *m, key_t_ *k, int i) { (void)i; return m_mod_src_deregister_sgn(m, k); }
#elif KIND == 4     /* path: strings of 1..2 characters, compared by content */
typedef m_src_path_t key_t_;
static char pbuf[2 * NK][3];
static void mk_key(key_t_ *k, int i) {
    for (int c = 0; c < 2; c++) { int v = nondet_uchar(); pbuf[i][c] = (char)(v < 128 ? v : v - 256); }   /* any char value */
    pbuf[i][2] = 0;
    VF_ASSUME(pbuf[i][0] != 0);
    k->path = pbuf[i]; k->events = nondet_uint(); VF_ASSUME(k->events > 0);
}
static _Bool k_same(const key_t_ *a, const key_t_ *b) { return a->path[0] == b->path[0] && a->path[1] == b->path[1]; }
static _Bool k_diff(const key_t_ *a, const key_t_ *b) { return !k_same(a, b); }
static int k_reg(m_mod_t *m, key_t_ *k, m_src_flags f) { return m_mod_src_register_path(m, k, f, NULL); }
static int k_dereg(m_mod_t *m, key_t_ *k, int i) {
    /* deregistration names the path by content: another buffer, other event mask */
    (void)k;
    memcpy(pbuf[NK + i], pbuf[i], 3);
    m_src_path_t d = { pbuf[NK + i], nondet_uint() };
    return m_mod_src_deregister_path(m, &d);
}
#elif KIND == 5     /* pid */
typedef m_src_pid_t key_t_;
static void mk_key(key_t_ *k, int i) { (void)i; k->pid = nondet_int(); k->events = nondet_uint(); VF_ASSUME(k->pid > 0); }
static _Bool k_same(const key_t_ *a, const key_t_ *b) { return a->pid == b->pid; }
static _Bool k_diff(const key_t_ *a, const key_t_ *b) { return a->pid != b->pid; }
static int k_reg(m_mod_t *m, key_t_ *k, m_src_flags f) { return m_mod_src_register_pid(m, k, f, NULL); }
static int k_dereg(m_mod_t *m, key_t_ *k, int i) { (void)i; return m_mod_src_deregister_pid(m, k); }
#elif KIND == 6     /* task: "unique task id", any int; tasks cannot be deregistered by key */
typedef m_src_task_t key_t_;
int task_fn(void *p) { (void)p; return 0; }
int task_fn2(void *p) { (void)p; return 1; }
static void mk_key(key_t_ *k, int i) { (void)i; k->tid = nondet_int(); k->fn = nondet_bool() ? task_fn : task_fn2; }
static _Bool k_same(const key_t_ *a, const key_t_ *b) { return a->tid == b->tid; }
static _Bool k_diff(const key_t_ *a, const key_t_ *b) { return a->tid != b->tid; }
static int k_reg(m_mod_t *m, key_t_ *k, m_src_flags f) { return m_mod_src_register_task(m, k, f, NULL); }
#define NO_DEREG 1
#elif KIND == 7     /* threshold: the (inactive_ms, activity_freq) pair */
typedef m_src_thresh_t key_t_;
#ifndef VF_THR
#define VF_THR 0
#endif
static void mk_key(key_t_ *k, int i) {
    /* class A: inactivity threshold only, below 2^40 ms (34 years); class B: activity threshold only, integer-valued
     * frequency up to 2^20; VF_THR 0: all A, 1: all B, 2: first A, second B, third either,
     * 3: any inactive_ms together with any finite frequency >= 0 (not both zero) */
    _Bool a = VF_THR == 0 || (VF_THR == 2 && (i == 0 || (i == 2 && nondet_bool())));
#if VF_THR == 3
    union { uint64_t u; double d; } cv; cv.u = nondet_u64();
    k->inactive_ms = nondet_u64(); k->activity_freq = cv.d;
    VF_ASSUME(cv.d >= 0.0 && cv.d <= 1.7e308);
    VF_ASSUME(k->inactive_ms > 0 || cv.d > 0.0);
    (void)a;
#else
    if (a) { k->inactive_ms = nondet_u64(); k->activity_freq = 0.0; VF_ASSUME(k->inactive_ms > 0 && k->inactive_ms < (1ull << 40)); }
    else { unsigned f = nondet_uint(); VF_ASSUME(f > 0 && f <= (1u << 20)); k->inactive_ms = 0; k->activity_freq = (double)f; }
#endif
}
static _Bool k_same(const key_t_ *a, const key_t_ *b) { return a->inactive_ms == b->inactive_ms && a->activity_freq == b->activity_freq; }
static _Bool k_diff(const key_t_ *a, const key_t_ *b) { return !k_same(a, b); }
static int k_reg(m_mod_t *m, key_t_ *k, m_src_flags f) { return m_mod_src_register_thresh(m, k, f, NULL); }
static int k_dereg(m_mod_t *m, key_t_ *k, int i) { (void)i; return m_mod_src_deregister_thresh(m, k); }
#else
#error "KIND"
#endif

static key_t_ key[NK];
static int ins[NK][NK], rm[NK][NK], os[NK][NK];

int vf_main(void) {
    vf_the_ctx = vf_l1_ctx();
    m_mod_t *mod = vf_l1_mod(vf_the_ctx, NULL);
    int r = init_src(mod, (m_src_types)KIND);
    VF_CHECK(r == 0 && mod->srcs[KIND] == &the_tree, "init_src creates the kind's tree");

    /* registration: what does m_bst_insert see */
    for (int j = 0; j < NK; j++) {
        mk_key(&key[j], j);
        VF_PICK(pb, 4);
        m_src_flags fl = (m_src_flags)((pb ? (1u << (pb - 1)) : 0) | (nondet_bool() ? M_SRC_ONESHOT : 0));
        rec = &ins[j];
        r = k_reg(mod, &key[j], fl);
        VF_CHECK(r == 0 && the_tree.n == j + 1, "registration reaches the tree");
    }
    ev_src_t *src[NK];
    for (int j = 0; j < NK; j++) src[j] = the_tree.el[j];

#ifndef NO_DEREG
    /* deregistration by key: what does m_bst_remove see */
    for (int j = 0; j < NK; j++) {
        rec = &rm[j];
        r = k_dereg(mod, &key[j], j);
        VF_CHECK(r == 0, "deregistration reaches the tree");
    }
#endif
    /* one-shot removal as in recv_events(): the source itself is the search key.  It has been polled, so the
     * private descriptor of the non-descriptor kinds holds whatever the kernel returned. */
    for (int j = 0; j < NK; j++) {
#if KIND != 1
        int pfd = nondet_int(); VF_ASSUME(pfd >= 0);
        src[j]->fd_src.fd = pfd;
#endif
    }
    for (int j = 0; j < NK; j++) {
        rec = &os[j];
        m_bst_remove(mod->srcs[src[j]->type], src[j]);
    }

    /* ---- the contract ---- */
#ifndef NO_DEREG
#define REF rm
#else
#define REF os      /* tasks: the one-shot form is the only removal there is */
#endif
    for (int j = 0; j < NK; j++) for (int i = 0; i < NK; i++) {
        if (k_same(&key[j], &key[i])) VF_CHECK(REF[j][i] == 0, "lookup: equal keys compare equal");
        if (k_diff(&key[j], &key[i])) VF_CHECK(REF[j][i] != 0, "lookup: different keys never compare equal");
        VF_CHECK(REF[j][i] == -REF[i][j], "lookup: order is antisymmetric");
    }
    for (int a = 0; a < NK; a++) for (int b = 0; b < NK; b++) for (int c = 0; c < NK; c++)
        if (REF[a][b] <= 0 && REF[b][c] <= 0) VF_CHECK(REF[a][c] <= 0, "lookup: order is transitive");
    for (int j = 0; j < NK; j++) for (int i = 0; i < j; i++)
        VF_CHECK(ins[j][i] == REF[j][i], "insertion orders a new source exactly like a later lookup of its key");
#ifndef NO_DEREG
    for (int j = 0; j < NK; j++) for (int i = 0; i < NK; i++)
        VF_CHECK(os[j][i] == rm[j][i], "one-shot removal looks the fired source up exactly like its key");
#endif
    VF_WITNESS("end");
    return 0;
}
