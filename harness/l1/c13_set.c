/* C13 (b): changes of the batch settings interleaved with pause/resume, then one normal-priority arrival decided by
 * the real push_evt(); or stop + start and then the arrival.
 * Real: evts.c m_mod_set_batch_size / m_mod_set_batch_timeout, mod.c m_mod_pause / m_mod_resume,
 * start(), stop(), reset_module(), optional_hook(), ctx.c push_evt, ps.c call_pubsub_cb, queue.c, stack.c,
 * list.c, mem.c.
 * Stubs: the timer registry (src.c is not linked: m_mod_src_register_tmr / m_mod_src_deregister_tmr are recording
 * stubs that succeed for a valid timer, as the real ones do when a token is left), mod.c:manage_srcs -> 0 and
 * mod.c:init_pubsub_fd -> 0 (polling layer), tell_system_pubsub_msg -> 0, m_ctx(), fetch_ms.
 * Symbolic: a script of NOPS operations over { set_batch_size(n), set_batch_timeout(t), pause, resume } with n over
 * size_t and t over u64, the initial state RUNNING/PAUSED, the token count.  K events are already accumulated while the
 * script runs (K per-job constant).
 * Oracle: a model of the CONFIGURED settings (cfg_size, cfg_tmo; 0 = not configured; a refused call changes nothing):
 *  - exactly one batch timer is registered iff a timeout is configured, with that period, recognisable by push_evt
 *    (INTERNAL flag, user pointer &mod->batch);
 *  - VF_FINAL 0: a normal-priority event arrives: the handler gets all K+1 events at once iff
 *    (cfg_size != 0 ? K+1 >= cfg_size : cfg_tmo == 0); otherwise nothing is invoked and K+1 events stay accumulated;
 *  - VF_FINAL 1: the module is stopped and started again: the accumulated events are gone, never delivered; the
 *    settings are back to "nothing configured": the next normal event is delivered at once, alone. */
#include "l1.h"
#ifdef VF_NATIVE
#error "statics of mod.c are replaced in this harness: no native build (repro/C13_*.c are the native reproducers)"
#endif
#ifndef K
#define K 1
#endif
#ifndef NOPS
#define NOPS 3
#endif
#ifndef VF_FINAL
#define VF_FINAL 0
#endif
#define KA (K + 1)
m_ctx_t *vf_the_ctx;
m_ctx_t *m_ctx(void) { return vf_the_ctx; }
void fetch_ms(uint64_t *val, uint64_t *ctr) { *val = nondet_u64(); if (ctr) (*ctr)++; }
int VF_MANAGE_SRCS(m_mod_t *mod, m_ctx_t *c, int flag, bool stop) { return 0; }
int VF_INIT_PUBSUB_FD(m_mod_t *mod) { return 0; }
int tell_system_pubsub_msg(const m_mod_t *r, m_ctx_t *c, m_mod_t *s, const char *topic) { return 0; }
void VF_PUSH_EVT(m_mod_t *mod, evt_priv_t *evt);   /* = static push_evt() of ctx.c */
void VF_EVT_DTOR(void *);                          /* = static evt_dtor() of evts.c */

/* ---- timer registry stub (stands for src.c m_mod_src_(de)register_tmr + the BST behind them) ---- */
#define NREG (NOPS + 1)
static struct { uint64_t ns; unsigned flags; const void *userptr; _Bool live; } reg[NREG];
static int nreg, bad_dereg, reg_overflow;
int m_mod_src_register_tmr(m_mod_t *mod, const m_src_tmr_t *its, m_src_flags flags, const void *userptr) {
    if (!(its && its->ns > 0)) return -EINVAL;
    if (nreg < NREG) { reg[nreg].ns = its->ns; reg[nreg].flags = flags; reg[nreg].userptr = userptr; reg[nreg].live = 1; nreg++; }
    else reg_overflow++;
    return 0;
}
int m_mod_src_deregister_tmr(m_mod_t *mod, const m_src_tmr_t *its) {
    if (!(its && its->ns > 0)) return -EINVAL;
    for (int i = 0; i < NREG; i++) if (i < nreg && reg[i].live && reg[i].ns == its->ns) { reg[i].live = 0; return 0; }
    bad_dereg++;
    return -ENOENT;
}

static evt_priv_t *pre[KA], *nw;
static int calls, nseen, seen[KA + 2], stops;
void on_evt(m_mod_t *m, const m_queue_t *const q) {
    calls++;
    m_itr_foreach(q, {
        void *e = m_itr_get(m_itr);
        int id = -1;
        for (int i = 0; i < K; i++) if (e == (void *)pre[i]) id = i;
        if (e == (void *)nw) id = K;
        if (nseen < KA + 2) seen[nseen] = id;
        nseen++;
    });
}
bool on_start(m_mod_t *m) { return true; }
void on_stop(m_mod_t *m) { stops++; }
static char user;

int vf_main(void) {
    m_ctx_t *c = vf_the_ctx = vf_l1_ctx();
    c->state = M_CTX_LOOPING;
    m_mod_t *mod = vf_l1_mod(c, on_evt);
    mod->hook.on_start = on_start; mod->hook.on_stop = on_stop;
    mod->bound_mods = m_list_new(NULL, mem_dtor); VF_ASSUME(mod->bound_mods != NULL);
#ifdef VF_OPS
    mod->state = M_MOD_RUNNING;
#else
    mod->state = nondet_bool() ? M_MOD_RUNNING : M_MOD_PAUSED;
#endif
    c->stats.running_modules = mod->state == M_MOD_RUNNING ? 1 : 0;
    mod->tb.tokens = nondet_u64();

    for (int i = 0; i < K; i++) {                      /* accumulated earlier (e.g. low-priority events) */
        pre[i] = m_mem_new(sizeof(evt_priv_t), VF_EVT_DTOR); VF_ASSUME(pre[i] != NULL);
        pre[i]->evt.type = M_SRC_TYPE_PS;
        int r = m_queue_enqueue(mod->batch.events, pre[i]); VF_ASSUME(r == 0);
    }

    size_t cfg_size = 0; uint64_t cfg_tmo = 0;         /* as registered: nothing configured */
    for (int step = 0; step < NOPS; step++) {
#ifdef VF_OPS
        /* concrete companion: the script is a per-job constant (a change that frees events on one of these paths
         * makes the symbolic-script job run out of memory instead of failing: L1_NOTES "heap shape") */
        static const unsigned char ops_fixed[NOPS] = VF_OPS; const unsigned op = ops_fixed[step];
#else
        VF_PICK(op, 4);
#endif
        int r;
        switch (op) {
        case 0: { size_t n = nondet_size_t(); r = m_mod_set_batch_size(mod, n); if (r == 0) cfg_size = n; break; }
        case 1: { uint64_t t = nondet_u64(); r = m_mod_set_batch_timeout(mod, t); if (r == 0) cfg_tmo = t; break; }
        case 2: m_mod_pause(mod); break;               /* refused unless RUNNING (C01) */
        default: m_mod_resume(mod); break;             /* refused unless PAUSED */
        }
        VF_CHECK(m_queue_len(mod->batch.events) == K, "setting changes and pause/resume neither deliver nor drop accumulated events");
    }
    VF_CHECK(calls == 0, "no invocation without an arrival");

    /* the registered batch timer mirrors the configured timeout */
    int live = 0, good = 0;
    for (int i = 0; i < NREG; i++) if (i < nreg && reg[i].live) {
        live++;
        if (reg[i].ns == cfg_tmo && (reg[i].flags & M_SRC_INTERNAL) && reg[i].userptr == &mod->batch) good++;
    }
    VF_CHECK(reg_overflow == 0, "harness: registry stub large enough");
    VF_CHECK(live == (cfg_tmo != 0 ? 1 : 0) && good == live, "a batch timer with the configured period exists exactly while a timeout is configured");

    /* events only arrive for a RUNNING module */
    if (mod->state == M_MOD_PAUSED) { int r = m_mod_resume(mod); VF_ASSUME(r == 0); }
    VF_ASSUME(mod->state == M_MOD_RUNNING);

#if VF_FINAL == 1
    /* stop(mod, true) is what m_mod_stop, a poison pill and deregistration all run (their guards are C01's subject);
     * calling it directly keeps the release of the accumulated events on an unconditional path (L1_NOTES) */
    mod->state = M_MOD_RUNNING;                        /* no-op after the assumption; gives symex the constant */
    { int r = stop(mod, true); VF_CHECK(r == 0, "stop succeeds"); }
    VF_CHECK(stops == 1 && mod->state == M_MOD_STOPPED, "stopped");
    VF_CHECK(m_queue_len(mod->batch.events) == 0 && calls == 0, "events still accumulated at stop are discarded, not delivered");
    VF_CHECK(mod->batch.len == 0 && mod->batch.timer.ns == 0, "batch settings are reset by stop");
    { int r = start(mod, true); VF_CHECK(r == 0, "start succeeds"); }
    VF_CHECK(mod->state == M_MOD_RUNNING, "running again");
    cfg_size = 0; cfg_tmo = 0;
    const size_t have = 0;
#else
    const size_t have = K;
#endif

    ev_src_t *src = m_mem_new(sizeof(ev_src_t), NULL); VF_ASSUME(src != NULL);
    src->type = M_SRC_TYPE_TMR;
    src->mod = mod;
    src->flags = M_SRC_PRIO_NORM;
    src->userptr = &user;
    nw = new_evt(src); VF_ASSUME(nw != NULL);
    VF_PUSH_EVT(mod, nw);

    size_t count = have + 1;
    _Bool trigger = cfg_size != 0 ? count >= cfg_size : cfg_tmo == 0;
    VF_CHECK(calls == (trigger ? 1 : 0), "a normal event is delivered exactly when the configured batch size is reached, at once when nothing is configured");
    if (calls > 0) {
        VF_CHECK(nseen == (int)count, "the invocation carries every accumulated event and nothing else");
#if VF_FINAL == 1
        VF_CHECK(seen[0] == K, "after stop/start only the new event is delivered");
#else
        for (int i = 0; i < KA; i++) if (i < nseen) VF_CHECK(seen[i] == i, "arrival order");
#endif
        VF_CHECK(m_queue_len(mod->batch.events) == 0, "nothing stays behind");
    } else {
        VF_CHECK(m_queue_len(mod->batch.events) == (ssize_t)count, "otherwise the event is retained");
    }
    VF_WITNESS("end");
    return 0;
}
