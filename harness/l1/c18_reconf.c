/* C18 (c) reconfiguration: the real m_mod_set_tokenbucket (mod.c) on the real register_mod_src / deregister_mod_src /
 * create_src / src_priv_dtor (src.c, with their own M_MOD_CONSUME_TOKEN), the timer tree replaced by an ideal set keyed
 * by the period (NR slots; the tree itself: C11, its keying: C09), stop = the real static reset_module().
 *
 * One user timer with a symbolic period is registered.  The bucket state before the call under test is, per job (VF_PRE):
 *   0  never configured
 *   1  configured earlier: ANY state a successful configuration followed by any number of rate-limited calls and refill
 *      ticks can leave (c18_period.c, c18_account.c): one INTERNAL timer with user pointer &mod->tb and a symbolic
 *      period p1 in the registry, mod->tb.timer = its key, burst b1 and tokens t1 <= b1 symbolic (t1 = 0 included)
 *   2  as 1, then the module was stopped (every source leaves the registry - manage_srcs(RM, stop) in mod.c, modelled
 *      here by emptying the registry model - then the real reset_module()), started again, and the user registered
 *      the timer again
 *   3  configured by a real first call m_mod_set_tokenbucket(mod, VF_R1, VF_B1) with constants, tokens then symbolic
 * Then ONE call m_mod_set_tokenbucket(mod, rate, burst) with rate and burst symbolic over their whole types.
 * Oracle on the end state (an invariant: it is what state 1 assumes, so sequences of any length are covered):
 *   - no refill timer of an earlier configuration survives (every INTERNAL timer with user pointer &mod->tb in the
 *     registry has the period the bucket remembers in mod->tb.timer) - two refill timers refill at r_old + r_new;
 *   - rate >= 1, burst >= 1: exactly one refill timer is registered (tokens are replenished) and tokens <= burst;
 *   - rate 0: no refill timer is left, tokens = burst = UINT64_MAX;
 *   - the user's timer is still registered, same object, same period, same flags / user pointer, never disarmed.
 * Stubs: m_ctx(), fetch_ms, poll_set_new_evt (records), m_bst_insert / m_bst_remove (ideal keyed set). */
#include "l1.h"
#include <time.h>
#ifdef VF_NATIVE
#include <core/mod.c>
#define VF_RESET_MODULE reset_module
#endif
#ifndef VF_PRE
#define VF_PRE 1
#endif

m_ctx_t *vf_the_ctx;
m_ctx_t *m_ctx(void) { return vf_the_ctx; }
void fetch_ms(uint64_t *val, uint64_t *ctr) { *val = 0; if (ctr) (*ctr)++; }
void VF_RESET_MODULE(m_mod_t *mod);

static ev_src_t *user_src;
static int user_disarmed, user_armed;
int poll_set_new_evt(poll_priv_t *priv, ev_src_t *tmp, const enum op_type flag) {
    if (tmp == user_src) { if (flag == RM) user_disarmed++; else user_armed++; }
    return 0;
}

#define NR 4
static ev_src_t *reg[NR];
static int nreg;
int m_bst_insert(m_bst_t *l, void *data) {
    ev_src_t *s = data;
    for (int i = 0; i < NR; i++) if (reg[i] && reg[i]->tmr_src.its.ns == s->tmr_src.its.ns) return -EEXIST;
    for (int i = 0; i < NR; i++) if (!reg[i]) { reg[i] = s; nreg++; return 0; }
    return -ENOMEM;
}
int m_bst_remove(m_bst_t *l, void *data) {
    /* deregister_mod_src() looks a source up through a key wrapped in a source (src.c:fill_src); the element destructor
     * of the modules' registries (src.c:mod_src_dtor) takes the source off the poll set and drops the registry's reference */
    ev_src_t *k = data;
    for (int i = 0; i < NR; i++) if (reg[i] && reg[i]->tmr_src.its.ns == k->tmr_src.its.ns) {
        poll_set_new_evt(&vf_the_ctx->ppriv, reg[i], RM);
        m_mem_unref(reg[i]); reg[i] = NULL; nreg--;
        return 0;
    }
    return -ENOENT;
}

static int cookie;

/* the user's timer (registered with unlimited tokens: concrete path), its period then made symbolic */
static void add_user_timer(m_mod_t *mod, uint64_t u_ns) {
    m_src_tmr_t uits = { CLOCK_MONOTONIC, 77 };
    int r = m_mod_src_register_tmr(mod, &uits, (m_src_flags)0, &cookie);
    VF_ASSUME(r == 0 && reg[0] != NULL);
    user_src = reg[0];
    user_src->tmr_src.its.ns = u_ns;
    user_armed = user_disarmed = 0;
}

int vf_main(void) {
    int r;
    vf_the_ctx = vf_l1_ctx();
    m_mod_t *mod = vf_l1_mod(vf_the_ctx, NULL);
    mod->state = M_MOD_RUNNING;
    mod->srcs[M_SRC_TYPE_TMR] = (m_bst_t *)&reg;

    uint64_t u_ns = nondet_u64();
    VF_ASSUME(u_ns >= 1);
    add_user_timer(mod, u_ns);
    const m_src_flags user_flags = user_src->flags;

#if VF_PRE == 1 || VF_PRE == 2
    /* an earlier successful configuration, whatever its rate and burst were, and whatever was consumed since */
    m_src_tmr_t pits = { CLOCK_MONOTONIC, 78 };
    r = m_mod_src_register_tmr(mod, &pits, (m_src_flags)(M_SRC_INTERNAL | M_SRC_PRIO_HIGH), &mod->tb);
    VF_ASSUME(r == 0 && reg[1] != NULL);
    uint64_t p1 = nondet_u64(), b1 = nondet_u64(), t1 = nondet_u64();
    VF_ASSUME(p1 >= 1 && p1 <= BILLION && p1 != u_ns && b1 >= 1 && t1 <= b1);
    reg[1]->tmr_src.its.ns = p1;
    mod->tb.timer.clock_id = CLOCK_MONOTONIC;
    mod->tb.timer.ns = p1;
    mod->tb.burst = b1;
    mod->tb.tokens = t1;
#elif VF_PRE == 3
    r = m_mod_set_tokenbucket(mod, VF_R1, VF_B1);
    VF_ASSUME(r == 0);
    VF_ASSUME(mod->tb.timer.ns != u_ns);
    uint64_t t1 = nondet_u64();
    VF_ASSUME(t1 <= mod->tb.tokens);
    mod->tb.tokens = t1;
#endif
#if VF_PRE == 2
    /* stop: "stopping the module removes the limit"; then start again */
    for (int i = 0; i < NR; i++) if (reg[i]) { m_mem_unref(reg[i]); reg[i] = NULL; nreg--; }   /* manage_srcs(RM, stop) */
    mod->state = M_MOD_STOPPED;
    VF_RESET_MODULE(mod);
    VF_CHECK(mod->tb.tokens == UINT64_MAX && mod->tb.burst == UINT64_MAX, "stopping the module removes the limit");
    mod->state = M_MOD_RUNNING;
    add_user_timer(mod, u_ns);
#endif

    /* the call under test */
#ifdef VF_R2
    uint32_t rate = VF_R2;               /* concrete second rate: lets the period-vs-rate test below fold */
#else
    uint32_t rate = nondet_uint();
#endif
    uint64_t burst = nondet_u64();
    VF_ASSUME(rate <= 1000000000u);
    r = m_mod_set_tokenbucket(mod, rate, burst);
    const uint64_t cur = mod->tb.timer.ns;
#ifdef VF_KF_C18_tmrkey_shared
    /* known finding: the refill timer lives in the user's key space (period); excluded: the new period equals the
     * period of the user's timer */
    VF_ASSUME(rate == 0 || cur != u_ns);
#endif

    int refill = 0, stale = 0, user_present = 0;
    for (int i = 0; i < NR; i++) {
        ev_src_t *s = reg[i];
        if (!s) continue;
        if (s == user_src) { user_present++; continue; }
        if ((s->flags & M_SRC_INTERNAL) && s->userptr == (const void *)&mod->tb) {
            refill++;
            if (s->tmr_src.its.ns != cur) stale++;
        }
    }
    VF_CHECK(stale == 0, "no refill timer of an earlier configuration survives a reconfiguration");
    VF_CHECK(refill <= 1, "never two refill timers");
    if (rate == 0) {
        VF_CHECK(r == 0, "rate 0 succeeds");
        VF_CHECK(refill == 0 && cur == 0, "rate 0 leaves no refill timer");
        VF_CHECK(mod->tb.tokens == UINT64_MAX && mod->tb.burst == UINT64_MAX, "rate 0 removes the limit");
#ifndef VF_R2
        VF_WITNESS("rate0");
#endif
    } else {
        VF_CHECK(mod->tb.burst == burst && mod->tb.tokens <= burst, "the new burst is in force, tokens <= burst");
        if (burst >= 1) VF_CHECK(refill == 1, "exactly one refill timer is registered: tokens are replenished");
#ifdef VF_R2
        if (r == 0) VF_CHECK(cur * (uint64_t)rate >= BILLION && cur <= BILLION, "the refill period in force belongs to the NEW rate: no more than rate refills per second");
#endif
        VF_WITNESS("configured");
    }
    VF_CHECK(user_present == 1, "the user's timer is still registered");
    if (user_present == 1)
        VF_CHECK(user_src->tmr_src.its.ns == u_ns && user_src->flags == user_flags
                 && user_src->userptr == (const void *)&cookie, "the user's timer is unchanged");
    VF_CHECK(user_disarmed == 0, "the user's timer is never disarmed");
    VF_WITNESS("end");
    return 0;
}
