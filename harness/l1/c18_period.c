/* C18 (a) period kernel: the REAL m_mod_set_tokenbucket (mod.c) on a module block, the timer registry replaced by
 * recording stubs (src.c is not linked: m_mod_src_register_tmr / m_mod_src_deregister_tmr are defined here and record
 * the key, flags and user pointer they are given).  rate ranges over the whole uint32_t, burst over the whole uint64_t,
 * the module is either never configured before or carries an arbitrary earlier configuration.
 * Oracle (what "rate r per second" needs from this function):
 *   - rate > 10^9 is rejected without any effect;
 *   - the refill timer it registers has period_ns * rate >= 10^9  (at most r refills per second) and is the shortest
 *     whole-nanosecond period with that property (replenished AT rate r, not slower than the ns grid forces);
 *   - that timer is INTERNAL with user pointer &mod->tb (this is how push_evt recognises a refill tick) and its key
 *     is remembered in mod->tb.timer (this is how the next reconfiguration finds it);
 *   - the bucket holds at most `burst` tokens afterwards;
 *   - an earlier refill timer is deregistered (by its key) before the new one is registered;
 *   - rate 0 removes the limit: tokens = burst = UINT64_MAX, no timer registered, key forgotten.
 * Two jobs from this file: -DVF_ARITH keeps only the two multiplication facts about the period (no SAT back end, z3 or
 * plain cvc5 decides them in 60 s; cvc5 --solve-bv-as-int=sum does in ~25 s per query), the other job has everything else.
 * Stubs: m_ctx(), fetch_ms, the two registry entry points (their token cost and the registry are c18_reconf.c's subject). */
#include "l1.h"
#include <time.h>

m_ctx_t *vf_the_ctx;
m_ctx_t *m_ctx(void) { return vf_the_ctx; }
void fetch_ms(uint64_t *val, uint64_t *ctr) { *val = 0; if (ctr) (*ctr)++; }

static int n_reg, n_dereg, order_bad;
static m_src_tmr_t reg_its, dereg_its;
static m_src_flags reg_flags;
static const void *reg_up;
static int reg_ret;
static uint64_t tokens_at_reg;

int m_mod_src_register_tmr(m_mod_t *mod, const m_src_tmr_t *its, m_src_flags flags, const void *userptr) {
    n_reg++;
    reg_its = *its;
    reg_flags = flags;
    reg_up = userptr;
    tokens_at_reg = mod->tb.tokens;
    return reg_ret;
}

int m_mod_src_deregister_tmr(m_mod_t *mod, const m_src_tmr_t *its) {
    if (n_reg) order_bad = 1;      /* the old timer must go before the new one comes */
    n_dereg++;
    dereg_its = *its;
    return 0;
}

int vf_main(void) {
    /* rate is drawn first: --slice-formula drops the inputs the arithmetic checks do not depend on from the trace, the
     * native replay feeds values back in call order */
    uint32_t rate = nondet_uint();
    vf_the_ctx = vf_l1_ctx();
    m_mod_t *mod = vf_l1_mod(vf_the_ctx, NULL);
    VF_PICK(sb, 4);                                  /* IDLE, RUNNING, PAUSED, STOPPED */
    mod->state = (m_mod_states)(1u << sb);

    /* earlier configuration, if any */
    _Bool had = nondet_bool();
    uint64_t old_ns = 0, old_burst = UINT64_MAX, old_tokens = UINT64_MAX;
    if (had) {
        old_ns = nondet_u64(); old_burst = nondet_u64(); old_tokens = nondet_u64();
        VF_ASSUME(old_ns >= 1 && old_ns <= BILLION && old_tokens <= old_burst);
        mod->tb.timer.clock_id = CLOCK_MONOTONIC;
        mod->tb.timer.ns = old_ns;
        mod->tb.burst = old_burst;
        mod->tb.tokens = old_tokens;
    }
    reg_ret = nondet_bool() ? 0 : -EEXIST;

    uint64_t burst = nondet_u64();
    int r = m_mod_set_tokenbucket(mod, rate, burst);

#ifdef VF_ARITH
    /* the division kernel only (decided by cvc5 with the integer encoding; the structural half runs on SAT) */
    if (rate >= 1 && rate <= 1000000000u) {
        uint64_t period = reg_its.ns;
        VF_CHECK(n_reg == 1, "exactly one refill timer is registered");
        VF_CHECK(period >= 1, "the refill period is not zero");
        VF_CHECK(period * (uint64_t)rate >= 1000000000ull, "period_ns * rate >= 10^9: at most `rate` refills per second");
#ifndef VF_NO_TIGHT
        VF_CHECK((period - 1) * (uint64_t)rate < 1000000000ull, "the period is the shortest whole number of ns with at most `rate` refills per second");
#endif
        VF_WITNESS("configured");
    }
    return 0;
#else
    if (rate > 1000000000u) {
        VF_CHECK(r < 0, "a rate above 10^9 per second is rejected");
        VF_CHECK(n_reg == 0 && n_dereg == 0 && mod->tb.burst == old_burst && mod->tb.tokens == old_tokens
                 && mod->tb.timer.ns == old_ns, "a rejected configuration changes nothing");
        VF_WITNESS("rejected");
        return 0;
    }
    VF_CHECK(n_dereg == (had ? 1 : 0), "an earlier refill timer is deregistered exactly once, none otherwise");
    if (had) VF_CHECK(dereg_its.ns == old_ns && !order_bad, "the earlier refill timer is removed by its own key, before the new one is registered");
    if (rate == 0) {
        VF_CHECK(r == 0, "rate 0 succeeds");
        VF_CHECK(n_reg == 0, "rate 0 registers no refill timer");
        VF_CHECK(mod->tb.tokens == UINT64_MAX && mod->tb.burst == UINT64_MAX, "rate 0 removes the limit");
        VF_CHECK(mod->tb.timer.ns == 0, "rate 0 forgets the refill timer key");
        VF_WITNESS("rate0");
        return 0;
    }
    VF_CHECK(n_reg == 1, "exactly one refill timer is registered");
    VF_CHECK(r == reg_ret, "the result of the registration is reported");
    uint64_t period = reg_its.ns;
    VF_CHECK(period >= 1 && period <= 1000000000u, "the refill period is between 1 ns and one second");
    VF_CHECK((reg_flags & M_SRC_INTERNAL) != 0, "the refill timer is an internal source");
    VF_CHECK(reg_up == (const void *)&mod->tb, "the refill timer carries &mod->tb (recognised by push_evt)");
    VF_CHECK(mod->tb.timer.ns == period, "the key of the registered timer is remembered for the next reconfiguration");
    VF_CHECK(mod->tb.burst == burst, "burst is stored");
    VF_CHECK(mod->tb.tokens <= burst && tokens_at_reg <= burst, "never more than `burst` tokens after configuration");
    VF_WITNESS("configured");
    return 0;
#endif
}
