/* C17 guards: one become/unbecome call from ANY module state and token count with a handler stack of DEPTH entries
 * (per job): refused unless RUNNING and a token is available, and a refused call changes nothing.
 * Stubs: m_ctx(), fetch_ms. */
#include "l1.h"
#ifndef DEPTH
#define DEPTH 1
#endif
m_ctx_t *vf_the_ctx;
m_ctx_t *m_ctx(void) { return vf_the_ctx; }
void fetch_ms(uint64_t *val, uint64_t *ctr) { *val = nondet_u64(); if (ctr) (*ctr)++; }
void h0(m_mod_t *m, const m_queue_t *const q) { }
void h1(m_mod_t *m, const m_queue_t *const q) { }
void h2(m_mod_t *m, const m_queue_t *const q) { }
int vf_main(void) {
    vf_the_ctx = vf_l1_ctx();
    m_mod_t *mod = vf_l1_mod(vf_the_ctx, h0);
    mod->state = M_MOD_RUNNING;
    for (int i = 0; i < DEPTH; i++) { int r = m_mod_become(mod, i ? h2 : h1); VF_ASSUME(r == 0); }
    void *top_before = m_stack_peek(mod->recvs);
    VF_PICK(sb, 5);
    mod->state = (m_mod_states)(1u << sb);
    uint64_t tok = nondet_u64(); mod->tb.tokens = tok;
    _Bool ok = mod->state == M_MOD_RUNNING && tok > 0;
    int r;
    if (nondet_bool()) {
        r = m_mod_become(mod, h2);
        VF_CHECK((r == 0) == ok, "become succeeds exactly for a RUNNING module with a token");
        VF_CHECK(m_stack_len(mod->recvs) == DEPTH + (ok ? 1 : 0), "a refused become leaves the handler stack alone");
        if (!ok) VF_CHECK(m_stack_peek(mod->recvs) == top_before && mod->tb.tokens == tok, "... top handler and tokens unchanged");
    } else {
        r = m_mod_unbecome(mod);
        VF_CHECK((r == 0) == (ok && DEPTH > 0), "unbecome succeeds exactly for a RUNNING module with a token and a non-empty stack");
        VF_CHECK(m_stack_len(mod->recvs) == DEPTH - ((ok && DEPTH > 0) ? 1 : 0), "a refused unbecome removes nothing");
        if (!ok) VF_CHECK(m_stack_peek(mod->recvs) == top_before && mod->tb.tokens == tok, "... top handler and tokens unchanged");
    }
    VF_WITNESS("end");
    return 0;
}
