/* C13 (whole core): the priority an event is classified with is the one REQUESTED by the latest successful
 * subscription of its topic.  B subscribes "t" with priority P1 (per job: 0 low, 1 normal, 2 high), batch size 3;
 * one message is accumulated; B subscribes "t" again with priority P2; a second message arrives:
 *   P2 high   -> the handler runs at once with both messages in order;
 *   P2 normal -> nothing yet (2 < 3); a third message completes the batch: one invocation, three messages in order;
 *   P2 low    -> nothing, also after a third low message (low events never trigger).
 * Symbolic: errno left by callbacks. */
#include "vf.h"
#include "vf_os.h"
#include <module/mod.h>
#include <module/ctx.h>
#include "l2.h"
#ifndef P1
#define P1 1
#endif
#ifndef P2
#define P2 2
#endif
static const m_src_flags prio[3] = { M_SRC_PRIO_LOW, M_SRC_PRIO_NORM, M_SRC_PRIO_HIGH };
static char p[3], u1, u2;
int vf_main(void) {
    vf_set_errno = true; vf_errno_after_cb = nondet_int();
    vf_ctx(M_CTX_PERSIST);
    m_mod_t *A = vf_mod(0, 0, NULL), *B = vf_mod(1, 0, NULL);
    int r = m_mod_start(A); VF_CHECK(r == 0, "start A");
    r = m_mod_start(B); VF_CHECK(r == 0, "start B");
    r = m_mod_set_batch_size(B, 3); VF_CHECK(r == 0, "batch size 3");
    r = m_mod_ps_subscribe(B, "t", prio[P1], &u1); VF_CHECK(r == 0, "first subscription");
    r = m_ctx_dispatch(); VF_CHECK(r == 0, "loop starts");
    r = m_mod_ps_publish(A, "t", &p[0], 0); VF_CHECK(r == 0, "publish 1");
    r = m_ctx_dispatch();
#if P1 == 2
    VF_CHECK(vf_ncalls[1] == 1 && vf_nlog[1] == 1, "high priority: delivered at once");
    const int base = 1;
#else
    VF_CHECK(vf_ncalls[1] == 0, "accumulated, not delivered (1 < 3)");
    const int base = 0;
#endif
    r = m_mod_ps_subscribe(B, "t", prio[P2], &u2); VF_CHECK(r == 0, "second subscription of the same topic, other priority");
    VF_CHECK(m_mod_src_len(B, M_SRC_TYPE_PS) == 1, "still one subscription");
    r = m_mod_ps_publish(A, "t", &p[1], 0); VF_CHECK(r == 0, "publish 2");
    r = m_ctx_dispatch();
#if P2 == 2
    VF_CHECK(vf_ncalls[1] == base + 1 && vf_nlog[1] == 2, "the event of the now HIGH-priority subscription invokes the handler at once, with everything pending");
    VF_CHECK(vf_log[1][0].data == &p[0] && vf_log[1][1].data == &p[1] && vf_log[1][1].userdata == &u2, "in arrival order, the new user data on the new event");
#else
    VF_CHECK(vf_ncalls[1] == base, "not high priority any more / yet: no invocation for it");
    r = m_mod_ps_publish(A, "t", &p[2], 0); VF_CHECK(r == 0, "publish 3");
    r = m_ctx_dispatch();
#if P2 == 1 && P1 != 2
    VF_CHECK(vf_ncalls[1] == base + 1 && vf_nlog[1] == 3, "normal priority: the batch completes with the third event");
    VF_CHECK(vf_log[1][0].data == &p[0] && vf_log[1][1].data == &p[1] && vf_log[1][2].data == &p[2], "in arrival order");
#elif P2 == 1
    VF_CHECK(vf_ncalls[1] == base && vf_nlog[1] == 1, "normal priority now: two events pending, batch of 3 not complete");
#else
    VF_CHECK(vf_ncalls[1] == base, "low-priority events never trigger an invocation by themselves");
#endif
#endif
    VF_WITNESS("end");
    return 0;
}
