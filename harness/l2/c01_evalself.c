/* C01 (whole core, re-entrancy from the evaluation callback): an IDLE module's on_eval() deregisters (ACT 1), stops
 * (ACT 2, refused: IDLE) or starts (ACT 3) its own module and returns RET.  ZOMBIE is final - a deregistered module is
 * never started, its start callback never runs, and the context's running count equals the number of RUNNING modules.
 * The user keeps a reference on the module so that its block stays inspectable.
 * Symbolic: errno left by callbacks, quit code. */
#include "vf.h"
#include "vf_os.h"
#include <module/mod.h>
#include <module/ctx.h>
#define VF_ACTION my_action
#include "l2.h"
#ifndef ACT
#define ACT 1
#endif
#ifndef RET
#define RET 1
#endif
static int act_r = 1, acted;
static void my_action(int who, int kind, m_mod_t *m, const m_queue_t *q) {
    (void)q;
    if (who != 1 || kind != VF_CB_EVAL || acted) return;
    acted = 1;
    m_mod_t *ref = m;
    switch (ACT) {
    case 1: act_r = m_mod_deregister(&ref); break;
    case 2: act_r = m_mod_stop(m); break;
    default: act_r = m_mod_start(m); break;
    }
}
int vf_main(void) {
    unsigned char code = nondet_uchar();
    vf_set_errno = true; vf_errno_after_cb = nondet_int();
    for (int i = 0; i < VF_NMOD; i++) { vf_start_ret[i] = true; vf_eval_ret[i] = true; }
    vf_eval_ret[1] = RET;
    vf_ctx(M_CTX_PERSIST);
    m_mod_t *A = vf_mod(0, 0, NULL), *X = vf_mod(1, 0, NULL);
    m_mod_t *keep = m_mem_ref(X);
    int r = m_mod_start(A); VF_CHECK(r == 0, "start A");
    errno = 0;
    r = m_ctx_dispatch(); VF_CHECK(r == 0, "loop starts: evaluation pass");
    r = m_ctx_dispatch();
    VF_CHECK(acted, "X was evaluated");
    m_ctx_stats_t st; r = m_ctx_stats(&st); VF_CHECK(r == 0, "stats");
    int running = m_mod_is(A, M_MOD_RUNNING) + m_mod_is(keep, M_MOD_RUNNING);
    VF_CHECK(st.running_modules == (size_t)running, "the running count equals the number of RUNNING modules");
#if ACT == 1
    VF_CHECK(act_r == 0, "deregistration from on_eval accepted");
    VF_CHECK(m_mod_is(keep, M_MOD_ZOMBIE), "ZOMBIE is final: the deregistered module is not started by the pass");
    VF_CHECK(vf_nstart[1] == 0, "no start callback for a module that was deregistered before it ever ran");
    VF_CHECK(m_ctx_len() == 1, "it left the context");
#elif ACT == 2
    VF_CHECK(act_r < 0, "stop of an IDLE module is refused");
    VF_CHECK(m_mod_is(keep, RET ? M_MOD_RUNNING : M_MOD_IDLE) && vf_nstart[1] == (RET ? 1 : 0) && vf_nstop[1] == 0, "the evaluation result decides as usual");
#else
    VF_CHECK(act_r == 0, "start from on_eval accepted (IDLE -> RUNNING)");
    VF_CHECK(m_mod_is(keep, M_MOD_RUNNING) && vf_nstart[1] == 1, "exactly one start callback for one entry into RUNNING");
#endif
    r = m_ctx_quit(code); VF_CHECK(r == 0, "quit");
    r = m_ctx_dispatch(); VF_CHECK(r == code, "loop ends");
    VF_WITNESS("end");
    return 0;
}
