/* C20: "a user-supplied descriptor is closed by the library exactly when it was registered with the auto-close flag -
 * once, when the source is deregistered or its module stops" - in particular NOT by a registration that is refused
 * (the same descriptor registered a second time: EEXIST) while the first source keeps using it.
 * Per job: AC1/AC2 (auto-close on the first / second registration), DUP2 (second registration asks for a duplicate),
 * RUN (module RUNNING or IDLE at that time).  Symbolic: errno left by callbacks. */
#include "vf.h"
#include "vf_os.h"
#include <module/mod.h>
#include <module/ctx.h>
#include "l2.h"
#include "c20_oracle.c"
#ifndef AC1
#define AC1 1
#endif
#ifndef AC2
#define AC2 1
#endif
#ifndef DUP2
#define DUP2 0
#endif
#ifndef RUN
#define RUN 1
#endif
int vf_main(void) {
    static char ud;
    vf_set_errno = true; vf_errno_after_cb = nondet_int();
    vf_ctx(0);
    m_mod_t *A = vf_mod(0, 0, NULL);
    int r;
#if RUN
    r = m_mod_start(A); VF_CHECK(r == 0, "start A");
#endif
    int fd = c20_user_fd(AC1);
    r = m_mod_src_register_fd(A, fd, AC1 ? M_SRC_FD_AUTOCLOSE : 0, &ud); VF_CHECK(r == 0, "first registration");
    int open_before = vf_lib_open();
    r = m_mod_src_register_fd(A, fd, (AC2 ? M_SRC_FD_AUTOCLOSE : 0) | (DUP2 ? M_SRC_DUP : 0), &ud);
#if !DUP2
    VF_CHECK(r == -EEXIST, "the same descriptor registered again is refused with EEXIST");
#endif
    if (r < 0) {
        VF_CHECK(vf_is_open(fd) && vf_user_close[fd] == 0, "a refused registration does not close the descriptor the registered source keeps using");
        VF_CHECK(vf_lib_open() == open_before, "... and leaves no descriptor of its own behind");
        VF_CHECK(m_mod_src_len(A, M_SRC_TYPE_FD) == 1, "... nor a trace in the registry");
#if RUN
        VF_CHECK(vf_fds[fd].ep_in, "the first source is still polled");
#endif
    }
    c20_untouched();
    r = m_mod_deregister(&vf_mods[0]); VF_CHECK(r == 0, "deregister A: the context goes with it");
    if (r == 0 && DUP2) { /* an accepted duplicate belongs to the library and is gone by now */ }
    c20_final();
    VF_WITNESS("end");
    return 0;
}
