/* C19: a RUNNING or PAUSED module subscribed (literal subscription, flags 0) to a system topic is sent exactly one
 * system-flagged, payload-less notification for each corresponding occurrence that happens while it is subscribed -
 * loop started / loop stopped (sender NULL), another module entered RUNNING (start, resume) or left it (pause, stop,
 * poison pill, deregistration), naming that module as sender - delivered under the ordinary message rules (C02), and
 * never one that corresponds to nothing that was performed.  Tick: system-flagged, at most one per timer expiry, the
 * timer armed with exactly the configured period.
 *
 * Modules: index 0 = S (subscriber), 1 = X, 2 = Y (second transitioning module, second subscriber, or the driver of the
 * blocking-mode scenarios).  The scenario is the per-job macro SCRIPT, a sequence of the step macros below (the call
 * order and everything that changes the heap shape is a per-job constant); in blocking mode (BLK) SCRIPT ends with BLOCK
 * and BSCRIPT lists what the driver's handler does in its k-th invocation (one per loop round); CBSTART / CBSTOP are
 * steps performed from inside X's on_start / on_stop callback (nested transitions).
 * Next to the real calls every step updates a ghost model (all concrete): state of each module, subscriptions, and per
 * subscriber w the number req[w][topic][sender] of notifications the property demands and perf[topic][sender] of
 * occurrences performed at all.  Oracle at the end, from the recording handler's log of every subscriber:
 *   every entry is system-flagged, payload-less, delivered while RUNNING, carries a system topic and a sender such that
 *   #entries(topic, sender) <= perf[topic][sender]   (no notification that corresponds to nothing performed)
 *   #entries(topic, sender) >= req[w][topic][sender] (none missing; with perf == req this is "exactly one")
 * Not demanded and not forbidden (property text): a module's own transitions, MOD_STOPPED for the stop / deregistration
 * of a module that was not RUNNING, both notifications of a start refused by on_start (REFUSE jobs: reported only),
 * occurrences while the subscriber was IDLE at loop start.  Discarded under the ordinary rules (lower bound void):
 * subscriber stopped / deregistered before reading, PAUSED when the loop ends.
 * Symbolic: errno left behind by callbacks, quit code, flag bits of X that leave the heap shape alone, tick period. */
#include "vf.h"
#include "vf_os.h"
#include <module/mod.h>
#include <module/ctx.h>
#define VF_LOGN 12
#define VF_ACTION my_action
static void my_action(int who, int kind, struct _mod *m, const m_queue_t *q);
#include "l2.h"

#ifndef SCRIPT
#define SCRIPT REG(S) REG(X) START(S) SUB(S, T_MS) LOOP START(X) DRAIN QUIT DISP
#endif
#ifndef BLK
#define BLK 0
#endif
#ifndef XFL
#define XFL 0
#endif
#ifndef CTX_FLAGS
#define CTX_FLAGS M_CTX_PERSIST
#endif

enum { S = 0, X = 1, Y = 2, CTXW = VF_NMOD };
enum { T_CS = 0, T_CX, T_MS, T_MX, T_TK, NT };
static const char *const tn[NT] = { M_PS_CTX_STARTED, M_PS_CTX_STOPPED, M_PS_MOD_STARTED, M_PS_MOD_STOPPED, M_PS_CTX_TICK };

/* ---- ghost model (concrete) ---- */
static int g_st[VF_NMOD];                       /* 0 = not registered, else the m_mod_states bit */
static _Bool g_sub[VF_NMOD][NT], g_eversub[VF_NMOD], g_void[VF_NMOD], g_pill[VF_NMOD];
static int g_req[VF_NMOD][NT][VF_NMOD + 1], g_perf[NT][VF_NMOD + 1], g_total;
static _Bool g_loop, g_quit, g_tick, g_fired;
static uint64_t g_tick_ns;
static unsigned char g_code;
static int g_round, r_;

#define ELIG(w) (g_st[w] & (M_MOD_RUNNING | M_MOD_PAUSED))
/* an occurrence the property lists: every eligible subscriber other than the module itself must be told once */
static void occ(int t, int who) {
    g_perf[t][who]++; g_total++;
    for (int w = 0; w < VF_NMOD; w++) if (w != who && g_sub[w][t] && ELIG(w)) g_req[w][t][who]++;
}
/* something a notification may correspond to, without the property demanding one */
static void may(int t, int who) { g_perf[t][who]++; g_total++; }
static void g_gone(int m, int st) {             /* m stopped / deregistered: subscriptions and unread messages are dropped */
    g_st[m] = st; g_void[m] = 1; g_pill[m] = 0;
    for (int t = 0; t < NT; t++) g_sub[m][t] = 0;
}
static int g_running(void) { int n = 0; for (int w = 0; w < VF_NMOD; w++) if (g_st[w] == M_MOD_RUNNING) n++; return n; }

static void g_started(int m) {
    if (!vf_start_ret[m]) {                      /* refused by on_start: enters and leaves RUNNING inside one call */
        g_gone(m, M_MOD_STOPPED); may(T_MS, m); may(T_MX, m);
    } else { g_st[m] = M_MOD_RUNNING; occ(T_MS, m); }
}
static void g_loop_start(void) {
    _Bool was_idle[VF_NMOD];
    for (int w = 0; w < VF_NMOD; w++) was_idle[w] = g_st[w] == M_MOD_IDLE && vf_eval_ret[w];   /* on_eval false: stays IDLE */
    /* IDLE modules are evaluated and started (in the map's order, which the property does not fix): modules that were
     * RUNNING/PAUSED before must hear about each; what a module started in the same pass hears is left open */
    for (int m = 0; m < VF_NMOD; m++) if (was_idle[m]) {
        if (!vf_start_ret[m]) { g_gone(m, M_MOD_STOPPED); may(T_MS, m); may(T_MX, m); continue; }
        g_perf[T_MS][m]++; g_total++;
        for (int w = 0; w < VF_NMOD; w++) if (w != m && !was_idle[w] && g_sub[w][T_MS] && ELIG(w)) g_req[w][T_MS][m]++;
        g_st[m] = M_MOD_RUNNING;
    }
    g_perf[T_CS][CTXW]++; g_total++;
    for (int w = 0; w < VF_NMOD; w++) if (!was_idle[w] && g_sub[w][T_CS] && ELIG(w)) g_req[w][T_CS][CTXW]++;
    g_loop = 1; g_quit = 0;
}
static void g_loop_stop(void) {
    g_perf[T_CX][CTXW]++; g_total++;
    for (int w = 0; w < VF_NMOD; w++) {
        if (g_st[w] == M_MOD_RUNNING && g_sub[w][T_CX]) g_req[w][T_CX][CTXW]++;   /* flushed to RUNNING modules */
        if (g_st[w] == M_MOD_PAUSED) g_void[w] = 1;                                /* PAUSED at loop end: discarded (C02) */
    }
    g_loop = 0; g_quit = 0; g_fired = 0;
}
/* effects of one loop round that received something */
static void g_round_effects(_Bool any) {
    for (int m = 0; m < VF_NMOD; m++) if (g_pill[m] && g_st[m] == M_MOD_RUNNING) { g_gone(m, M_MOD_STOPPED); occ(T_MX, m); }
    if (g_fired) { g_fired = 0; occ(T_TK, CTXW); }
    if (any) for (int m = 0; m < VF_NMOD; m++) if (g_st[m] == M_MOD_IDLE && vf_eval_ret[m]) g_started(m);
}
static void do_dispatch(void) {
    if (!g_loop) {
        r_ = m_ctx_dispatch(); VF_CHECK(r_ == 0, "first dispatch starts the loop");
        g_loop_start();
        if (g_tick) {
            int tf = vf_find_kind(VF_TIMER, 0);
            VF_CHECK(tf >= 0 && vf_find_kind(VF_TIMER, 1) < 0, "exactly one timer is armed for the tick");
            VF_CHECK(vf_fds[tf].period_ns == g_tick_ns, "the tick timer is armed with exactly the configured period");
        }
    } else if (g_quit || g_running() == 0) {
        r_ = m_ctx_dispatch();
        if (g_quit) VF_CHECK(r_ == g_code, "dispatch after quit stops the loop and returns the code");
        g_loop_stop();
    } else {
        r_ = m_ctx_dispatch(); VF_CHECK(r_ >= 0, "dispatch");
        g_round_effects(r_ > 0);
    }
}
static _Bool unread(void) {
    for (int w = 0; w < VF_NMOD; w++) if (g_eversub[w] && g_st[w] == M_MOD_RUNNING && vf_mods[w]->pubsub_fd[0] >= 0 && vf_fds[vf_mods[w]->pubsub_fd[0]].cnt > 0) return 1;
    return 0;
}

/* ---- steps ---- */
#define REG(m)        { vf_mod(m, 0, NULL); g_st[m] = M_MOD_IDLE; }
#define REGF(m)       { vf_mod(m, (m_mod_flags)(XFL), NULL); g_st[m] = M_MOD_IDLE; }   /* flags: per-job constant (a symbolic flags word forks the heap shape in m_mod_register / module_dtor) */
#define REFUSE(m)     { vf_start_ret[m] = false; }
#define NOEVAL(m)     { vf_eval_ret[m] = false; }     /* on_eval says no: the loop does not start the module by itself */
#define SUB(m, t)     { r_ = m_mod_ps_subscribe(vf_mods[m], tn[t], 0, NULL); VF_CHECK(r_ == 0, "subscription accepted"); g_sub[m][t] = 1; g_eversub[m] = 1; }
#define UNSUB(m, t)   { r_ = m_mod_ps_unsubscribe(vf_mods[m], tn[t]); VF_CHECK(r_ == 0, "unsubscription accepted"); g_sub[m][t] = 0; }
#define START(m)      { r_ = m_mod_start(vf_mods[m]); VF_CHECK(r_ == 0, "start accepted"); g_started(m); }
#define PAUSE(m)      { r_ = m_mod_pause(vf_mods[m]); VF_CHECK(r_ == 0, "pause accepted"); g_st[m] = M_MOD_PAUSED; occ(T_MX, m); }
#define RESUME(m)     { r_ = m_mod_resume(vf_mods[m]); VF_CHECK(r_ == 0, "resume accepted"); g_st[m] = M_MOD_RUNNING; occ(T_MS, m); }
#define STOP(m)       { int was = g_st[m]; r_ = m_mod_stop(vf_mods[m]); VF_CHECK(r_ == 0, "stop accepted"); g_gone(m, M_MOD_STOPPED); if (was == M_MOD_RUNNING) occ(T_MX, m); else may(T_MX, m); }
#define DEREG(m)      { int was = g_st[m]; m_mod_t *ref = m_mem_ref(vf_mods[m]); r_ = m_mod_deregister(&ref); VF_CHECK(r_ == 0 && ref == NULL, "deregistration accepted"); g_gone(m, M_MOD_ZOMBIE); if (was == M_MOD_RUNNING) occ(T_MX, m); else may(T_MX, m); }
#define PILL(f, m)    { r_ = m_mod_ps_poisonpill(vf_mods[f], vf_mods[m]); VF_CHECK(r_ == 0, "poison pill accepted"); g_pill[m] = 1; }
#define SETTICK       { g_tick_ns = nondet_u64(); VF_ASSUME(g_tick_ns != 0); r_ = m_ctx_set_tick(g_tick_ns); VF_CHECK(r_ == 0, "tick configured"); g_tick = 1; }
#define SETTICKC(ns)  { g_tick_ns = (ns); r_ = m_ctx_set_tick(g_tick_ns); VF_CHECK(r_ == 0, "tick configured"); g_tick = 1; }
#define TICKOFF       { r_ = m_ctx_set_tick(0); VF_CHECK(r_ == 0, "tick disabled"); g_tick = 0; g_fired = 0; VF_CHECK(vf_find_kind(VF_TIMER, 0) < 0, "no timer left armed once the tick is disabled"); }
#define FIRE          { vf_fire_timers(); if (g_loop && g_tick) g_fired = 1; }
#define LOOP          { VF_ASSUME(!g_loop); do_dispatch(); }
#define DISP          { do_dispatch(); }
#define DRAIN         { for (int k_ = 0; k_ < VF_LOGN; k_++) if (g_loop && unread()) do_dispatch(); }
#define QUIT          { r_ = m_ctx_quit(g_code); VF_CHECK(r_ == 0, "quit accepted"); g_quit = 1; }
/* blocking mode: Y owns a descriptor that is always ready, so every round of m_ctx_loop() runs Y's handler, which
 * performs the next step of BSCRIPT; the last step is QUIT (or stops every module) */
#define BLOCK         { int fd_ = vf_user_fd(); VF_ASSUME(fd_ >= 0); r_ = m_mod_src_register_fd(vf_mods[Y], fd_, 0, NULL); VF_CHECK(r_ == 0, "driver source"); \
                        vf_fds[fd_].ready = true; g_loop_start(); r_ = m_ctx_loop(); \
                        if (g_quit) VF_CHECK(r_ == g_code, "the loop returns the quit code"); else VF_CHECK(r_ == 0 && g_running() == 0, "the loop ends when nothing is RUNNING"); \
                        g_loop_stop(); }
#define B(k, act)     case k: act break;

static void my_action(int who, int kind, m_mod_t *m, const m_queue_t *q) {
    (void)m; (void)q;
    /* nesting: transitions performed from inside X's on_start / on_stop (per-job CBSTART / CBSTOP) */
#ifdef CBSTART
    if (who == X && kind == VF_CB_START) { CBSTART }
#endif
#ifdef CBSTOP
    if (who == X && kind == VF_CB_STOP) { CBSTOP }
#endif
#if BLK
    if (who == Y && kind == VF_CB_EVT && g_loop) {
        switch (g_round++) {
            BSCRIPT
        default: break;
        }
    }
#endif
}

static int topic_id(const char *t) {
    if (!t) return -1;
    for (int i = 0; i < NT; i++) if (strcmp(t, tn[i]) == 0) return i;
    return -1;
}
static int who_is(const m_mod_t *m) {
    if (!m) return CTXW;
    for (int i = 0; i < VF_NMOD; i++) if (vf_mods[i] == m) return i;
    return -1;
}

int vf_main(void) {
    g_code = nondet_uchar();
    vf_set_errno = true; vf_errno_after_cb = nondet_int();
    vf_ctx(CTX_FLAGS);

    SCRIPT

    VF_CHECK(g_total <= VF_PIPE_MAX && g_total <= VF_LOGN, "harness: the script stays within mailbox and log capacity");
#if defined(VF_NATIVE) && defined(VF_DEBUG)
    for (int w = 0; w < VF_NMOD; w++) {
        fprintf(stderr, "mod %d st=%d void=%d nlog=%d:", w, g_st[w], g_void[w], vf_nlog[w]);
        for (int k = 0; k < vf_nlog[w] && k < VF_LOGN; k++) fprintf(stderr, " [%s from %d sys=%d]", vf_log[w][k].topic ? vf_log[w][k].topic : "-", who_is(vf_log[w][k].sender), vf_log[w][k].system);
        fprintf(stderr, "\n");
        for (int t = 0; t < NT; t++) for (int s = 0; s <= VF_NMOD; s++) if (g_perf[t][s]) fprintf(stderr, "   %s sender %d: performed %d, demanded for this module %d\n", tn[t], s, g_perf[t][s], g_req[w][t][s]);
    }
#endif
    for (int w = 0; w < VF_NMOD; w++) {
        if (!g_eversub[w]) continue;
        int got[NT][VF_NMOD + 1] = { { 0 } };
        VF_CHECK(vf_nlog[w] <= VF_LOGN, "harness: log capacity");
        for (int k = 0; k < VF_LOGN; k++) if (k < vf_nlog[w]) {
            const vf_rec_t *e = &vf_log[w][k];
            if (w == Y && BLK && e->type == M_SRC_TYPE_FD) continue;          /* the driver's own descriptor events */
            VF_CHECK(e->type == M_SRC_TYPE_PS, "a subscriber of system topics receives pub/sub events only");
            VF_CHECK(e->system, "the notification is system-flagged");
            int t = topic_id(e->topic), s = who_is(e->sender);
            VF_CHECK(t >= 0, "the notification carries a system topic");
            VF_CHECK(s >= 0, "the sender is a module of this context or nobody");
            if (t != T_TK) VF_CHECK(e->data == NULL, "the notification has no payload");
            VF_CHECK(e->state == M_MOD_RUNNING, "delivered under the ordinary rules: handler runs while RUNNING");
            if (t >= 0 && s >= 0) got[t][s]++;
        }
        for (int t = 0; t < NT; t++) for (int s = 0; s <= VF_NMOD; s++) {
            VF_CHECK(got[t][s] <= g_perf[t][s], "no notification that corresponds to nothing performed (topic, sender, count)");
            if (!g_void[w]) VF_CHECK(got[t][s] >= g_req[w][t][s], "one notification for every occurrence while subscribed and RUNNING/PAUSED");
        }
    }
    VF_CHECK(vf_evt_not_running == 0, "no handler for a module that is not RUNNING");
    VF_WITNESS("end");
    return 0;
}
