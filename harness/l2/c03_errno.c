/* C03: errno (or any errno value) left behind by a user callback must neither drop another event of the same poll
 * batch nor end the loop; events reach the registering module's handler with the user data given at registration;
 * quit returns exactly the requested code.  Dispatch mode.
 * Symbolic: the errno value the handler leaves (full int) and the quit code; per job (heap-shape changing, see
 * DESIGN.md section 2): which of the NF descriptors are ready in the batch, the one-shot bit of the first source,
 * descending/ascending report order. */
#include "l2.h"
#ifndef VF_HUP
#define VF_HUP 0
#endif
#ifndef NF
#define NF 2
#endif
static char ud[NF];

int vf_main(void) {
    vf_ctx(M_CTX_PERSIST);
    m_mod_t *mod = vf_mod(0, 0, NULL);
    int r = m_mod_start(mod); VF_CHECK(r == 0, "start");
    int fds[NF];
#ifdef ONESHOT
    _Bool oneshot = ONESHOT;
#else
    _Bool oneshot = nondet_bool();
#endif
    for (int i = 0; i < NF; i++) {
        fds[i] = vf_user_fd(); VF_ASSUME(fds[i] >= 0);
        r = m_mod_src_register_fd(mod, fds[i], (i == 0 && oneshot) ? M_SRC_ONESHOT : 0, &ud[i]);
        VF_CHECK(r == 0, "register fd source");
    }
    r = m_ctx_dispatch(); VF_CHECK(r == 0, "first dispatch starts the loop");
#ifdef DESC
    vf_epoll_desc = DESC;
#else
    vf_epoll_desc = nondet_bool();
#endif
    vf_set_errno = true;
#ifdef ERRNO_FIXED
    vf_errno_after_cb = ERRNO_FIXED;     /* companion job: concrete value, so that a regression is reported quickly */
#else
    vf_errno_after_cb = nondet_int();
#endif
    _Bool ready[NF]; int nready = 0;
    for (int i = 0; i < NF; i++) { 
#ifdef READY_MASK
        ready[i] = (READY_MASK >> i) & 1;
#else
        ready[i] = nondet_bool();
#endif
        vf_fds[fds[i]].ready = ready[i]; nready += ready[i];
        vf_fds[fds[i]].hup = VF_HUP;         /* readable because the peer wrote and closed: still an event for the owner */
    }
    r = m_ctx_dispatch();
    VF_CHECK(r == nready, "dispatch reports every ready source of the batch");
    VF_CHECK(vf_nlog[0] == nready, "no event of the batch is dropped whatever errno the handler left");
    for (int i = 0; i < NF; i++) {
        int seen = 0;
        for (int k = 0; k < VF_LOGN; k++) if (k < vf_nlog[0] && vf_log[0][k].type == M_SRC_TYPE_FD && vf_log[0][k].ival == fds[i]) {
            seen++;
            VF_CHECK(vf_log[0][k].userdata == &ud[i], "event carries the user data given at registration");
        }
        VF_CHECK(seen == (ready[i] ? 1 : 0), "each ready source delivered exactly once, others not at all");
    }
    VF_CHECK(vf_evt_not_running == 0, "handler only runs for a RUNNING module");
    VF_CHECK(m_mod_src_len(mod, M_SRC_TYPE_FD) == NF - ((oneshot && ready[0]) ? 1 : 0), "a one-shot source that fired is no longer registered");
    /* the level-triggered descriptors stay ready; a fired one-shot source must not fire again */
    int before = vf_nlog[0];
    r = m_ctx_dispatch();
    int exp2 = nready - ((oneshot && ready[0]) ? 1 : 0);
    VF_CHECK(r == exp2 && vf_nlog[0] == before + exp2, "one-shot source fires at most once");
    unsigned char code = nondet_uchar();
    r = m_ctx_quit(code); VF_CHECK(r == 0, "quit accepted while looping");
    r = m_ctx_dispatch();
    VF_CHECK(r == code, "the dispatch after quit stops the loop and returns exactly the requested code");
    VF_WITNESS("end");
    return 0;
}
