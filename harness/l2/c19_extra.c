/* C19, two more routes: (SCEN 0) a module that deregisters itself from inside its own stop callback while it is being
 * stopped still yields exactly one MOD_STOPPED naming it; (SCEN 1) a subscriber holding two subscriptions that both
 * match a system topic (the literal one and a regular expression) still gets exactly one notification per occurrence.
 * Symbolic: errno left by callbacks. */
#include "vf.h"
#include "vf_os.h"
#include <module/mod.h>
#include <module/ctx.h>
#ifndef SCEN
#define SCEN 0
#endif
#define VF_CUSTOM_MATCH
#define VF_ACTION my_action
static void my_action(int who, int kind, struct _mod *m, const m_queue_t *q);
#ifndef VF_LOGN
#define VF_LOGN 8
#endif
#include "l2.h"
int vf_match(const void *reg, const char *topic) { (void)reg; return (topic && strncmp(topic, "LIBMODULE_MOD_", 14) == 0) ? 0 : REG_NOMATCH; }
static void my_action(int who, int kind, m_mod_t *m, const m_queue_t *q) {
#if SCEN == 2
    /* X pauses itself inside its own start callback and lets the start succeed: it DID enter RUNNING (one MOD_STARTED)
     * and left it again (one MOD_STOPPED) */
    static _Bool acted;
    if (who == 1 && kind == VF_CB_START && !acted) { acted = 1; int r = m_mod_pause(m); VF_CHECK(r == 0, "pause from the start callback"); }
#elif SCEN == 3
    /* X configures the context tick from its start callback, run by the loop's start-up evaluation pass */
    static _Bool acted;
    if (who == 1 && kind == VF_CB_START && !acted) { acted = 1; int r = m_ctx_set_tick(5000000); VF_CHECK(r == 0, "tick configured from a start callback"); }
#endif
#if SCEN == 4
    /* the first subscriber served by the loop-stop flush deregisters ANOTHER module (X): the flush must still reach
     * the remaining subscribers in this loop run */
    static _Bool acted;
    if ((who == 0 || who == 2) && kind == VF_CB_EVT && !acted) {
        _Bool stopped = 0;
        m_itr_foreach(q, { m_evt_t *e = m_itr_get(m_itr); if (e->type == M_SRC_TYPE_PS && e->ps_evt->topic && !strcmp(e->ps_evt->topic, M_PS_CTX_STOPPED)) stopped = 1; });
        if (stopped) { acted = 1; int r = m_mod_deregister(&vf_mods[1]); VF_CHECK(r == 0, "deregistration of another module from the flush"); }
    }
#endif
#if SCEN == 0
    static _Bool acted;      /* the deregistration stops the module again: its stop callback re-enters */
    if (who == 1 && kind == VF_CB_STOP && !acted) { acted = 1; int r = m_mod_deregister(&vf_mods[1]); VF_CHECK(r == 0, "self-deregistration inside the stop callback"); }
#endif
}
static int count(const char *topic, const m_mod_t *sender) {
    int n = 0;
    for (int k = 0; k < VF_LOGN; k++) if (k < vf_nlog[0] && vf_log[0][k].type == M_SRC_TYPE_PS && vf_log[0][k].system && vf_log[0][k].topic && strcmp(vf_log[0][k].topic, topic) == 0 && vf_log[0][k].sender == sender) n++;
    return n;
}
int vf_main(void) {
    vf_set_errno = true; vf_errno_after_cb = nondet_int();
    vf_ctx(M_CTX_PERSIST);
    m_mod_t *S = vf_mod(0, 0, NULL), *X = vf_mod(1, 0, NULL);
    m_mod_t *keep = m_mem_ref(X);
    int r = m_mod_start(S); VF_CHECK(r == 0, "start S");
    r = m_mod_ps_subscribe(S, M_PS_MOD_STOPPED, 0, NULL); VF_CHECK(r == 0, "S subscribes to MOD_STOPPED");
    r = m_mod_ps_subscribe(S, M_PS_MOD_STARTED, 0, NULL); VF_CHECK(r == 0, "S subscribes to MOD_STARTED");
#if SCEN == 1
    r = m_mod_ps_subscribe(S, "LIBMODULE_MOD_.*", 0, NULL); VF_CHECK(r == 0, "and to a pattern matching both");
#endif
#if SCEN == 3
    r = m_mod_ps_subscribe(S, M_PS_CTX_TICK, 0, NULL); VF_CHECK(r == 0, "S subscribes to the tick");
#endif
#if SCEN == 4
    {
        m_mod_t *T = vf_mod(2, 0, NULL);
        r = m_mod_start(T); VF_CHECK(r == 0, "start T");
        r = m_mod_start(X); VF_CHECK(r == 0, "start X");
        r = m_mod_ps_unsubscribe(S, M_PS_MOD_STOPPED); r = m_mod_ps_unsubscribe(S, M_PS_MOD_STARTED);
        r = m_mod_ps_subscribe(S, M_PS_CTX_STOPPED, 0, NULL); VF_CHECK(r == 0, "S subscribes to CTX_STOPPED");
        r = m_mod_ps_subscribe(T, M_PS_CTX_STOPPED, 0, NULL); VF_CHECK(r == 0, "T subscribes to CTX_STOPPED");
        r = m_ctx_dispatch(); VF_CHECK(r == 0, "loop starts");
        for (int d = 0; d < 3; d++) r = m_ctx_dispatch();
        r = m_ctx_quit(7); VF_CHECK(r == 0, "quit");
        r = m_ctx_dispatch(); VF_CHECK(r == 7, "loop stops");
        int ns = 0, nt = 0;
        for (int k = 0; k < VF_LOGN; k++) {
            if (k < vf_nlog[0] && vf_log[0][k].topic && strcmp(vf_log[0][k].topic, M_PS_CTX_STOPPED) == 0) ns++;
            if (k < vf_nlog[2] && vf_log[2][k].topic && strcmp(vf_log[2][k].topic, M_PS_CTX_STOPPED) == 0) nt++;
        }
        VF_CHECK(m_mod_is(keep, M_MOD_ZOMBIE), "X was deregistered by the first subscriber served");
        VF_CHECK(ns == 1 && nt == 1, "every subscriber gets CTX_STOPPED once, by the end of this loop run");
        m_mem_unref(keep);
        VF_WITNESS("end");
        return 0;
    }
#else
    r = m_ctx_dispatch(); VF_CHECK(r == 0, "loop starts");
#if SCEN == 2
    VF_CHECK(m_mod_is(X, M_MOD_PAUSED) && vf_nstart[1] == 1, "X was started by the evaluation pass and paused itself");
    for (int d = 0; d < 5; d++) r = m_ctx_dispatch();
#elif SCEN == 3
    VF_CHECK(m_mod_is(X, M_MOD_RUNNING) && vf_nstart[1] == 1, "X started");
    for (int d = 0; d < 3; d++) r = m_ctx_dispatch();
    VF_CHECK(vf_find_kind(VF_TIMER, 0) >= 0 && vf_find_kind(VF_TIMER, 1) < 0, "exactly one tick timer is armed");
    int before = vf_nlog[0];
    vf_fire_timers();
    for (int d = 0; d < 4; d++) r = m_ctx_dispatch();
    {
        int ticks = 0;
        for (int k = 0; k < VF_LOGN; k++) if (k >= before && k < vf_nlog[0] && vf_log[0][k].topic && strcmp(vf_log[0][k].topic, M_PS_CTX_TICK) == 0) ticks++;
        VF_CHECK(ticks == 1 && vf_nlog[0] == before + 1, "one expiry of the period, one tick notification");
    }
#else
    VF_CHECK(m_mod_is(X, M_MOD_RUNNING) && vf_nstart[1] == 1, "X, idle so far, is started by the loop's evaluation pass");
    r = m_mod_stop(X);
    for (int d = 0; d < 5; d++) r = m_ctx_dispatch();
#endif
#if SCEN != 3
    VF_CHECK(count(M_PS_MOD_STARTED, keep) == 1, "exactly one MOD_STARTED naming X");
    VF_CHECK(count(M_PS_MOD_STOPPED, keep) == 1, "exactly one MOD_STOPPED naming X");
    for (int k = 0; k < VF_LOGN; k++) if (k < vf_nlog[0]) VF_CHECK(vf_log[0][k].system && vf_log[0][k].data == NULL, "system-flagged, payload-less");
    VF_CHECK(vf_nlog[0] == 2, "and nothing else");
#endif
#if SCEN == 0
    VF_CHECK(m_mod_is(keep, M_MOD_ZOMBIE), "X deregistered itself");
#endif
    m_mem_unref(keep);
    VF_WITNESS("end");
    return 0;
#endif
}
