/* C19, two more routes: (SCEN 0) a module that deregisters itself from inside its own stop callback while it is being
 * stopped still yields exactly one MOD_STOPPED naming it; (SCEN 1) a subscriber holding two subscriptions that both
 * match a system topic (the literal one and a regular expression) still gets exactly one notification per occurrence.
 * Symbolic: errno left by callbacks. */
#include "vf.h"
#include "vf_os.h"
#include <module/mod.h>
#include <module/ctx.h>
#ifndef SCEN
#define SCEN 0
#endif
#define VF_CUSTOM_MATCH
#define VF_ACTION my_action
static void my_action(int who, int kind, struct _mod *m, const m_queue_t *q);
#ifndef VF_LOGN
#define VF_LOGN 8
#endif
#include "l2.h"
int vf_match(const void *reg, const char *topic) { (void)reg; return (topic && strncmp(topic, "LIBMODULE_MOD_", 14) == 0) ? 0 : REG_NOMATCH; }
static void my_action(int who, int kind, m_mod_t *m, const m_queue_t *q) {
#if SCEN == 0
    static _Bool acted;      /* the deregistration stops the module again: its stop callback re-enters */
    if (who == 1 && kind == VF_CB_STOP && !acted) { acted = 1; int r = m_mod_deregister(&vf_mods[1]); VF_CHECK(r == 0, "self-deregistration inside the stop callback"); }
#endif
}
static int count(const char *topic, const m_mod_t *sender) {
    int n = 0;
    for (int k = 0; k < VF_LOGN; k++) if (k < vf_nlog[0] && vf_log[0][k].type == M_SRC_TYPE_PS && vf_log[0][k].system && vf_log[0][k].topic && strcmp(vf_log[0][k].topic, topic) == 0 && vf_log[0][k].sender == sender) n++;
    return n;
}
int vf_main(void) {
    vf_set_errno = true; vf_errno_after_cb = nondet_int();
    vf_ctx(M_CTX_PERSIST);
    m_mod_t *S = vf_mod(0, 0, NULL), *X = vf_mod(1, 0, NULL);
    m_mod_t *keep = m_mem_ref(X);
    int r = m_mod_start(S); VF_CHECK(r == 0, "start S");
    r = m_mod_ps_subscribe(S, M_PS_MOD_STOPPED, 0, NULL); VF_CHECK(r == 0, "S subscribes to MOD_STOPPED");
    r = m_mod_ps_subscribe(S, M_PS_MOD_STARTED, 0, NULL); VF_CHECK(r == 0, "S subscribes to MOD_STARTED");
#if SCEN == 1
    r = m_mod_ps_subscribe(S, "LIBMODULE_MOD_.*", 0, NULL); VF_CHECK(r == 0, "and to a pattern matching both");
#endif
    r = m_ctx_dispatch(); VF_CHECK(r == 0, "loop starts");
    VF_CHECK(m_mod_is(X, M_MOD_RUNNING) && vf_nstart[1] == 1, "X, idle so far, is started by the loop's evaluation pass");
    r = m_mod_stop(X);
    for (int d = 0; d < 5; d++) r = m_ctx_dispatch();
    VF_CHECK(count(M_PS_MOD_STARTED, keep) == 1, "exactly one MOD_STARTED naming X");
    VF_CHECK(count(M_PS_MOD_STOPPED, keep) == 1, "exactly one MOD_STOPPED naming X");
    for (int k = 0; k < VF_LOGN; k++) if (k < vf_nlog[0]) VF_CHECK(vf_log[0][k].system && vf_log[0][k].data == NULL, "system-flagged, payload-less");
    VF_CHECK(vf_nlog[0] == 2, "and nothing else");
#if SCEN == 0
    VF_CHECK(m_mod_is(keep, M_MOD_ZOMBIE), "X deregistered itself");
#endif
    m_mem_unref(keep);
    VF_WITNESS("end");
    return 0;
}
