/* C03: an event produced by a registered source of kind KIND is handed to the handler of the module that registered
 * it (and to no other module), carrying the user data given at registration, only while that module is RUNNING;
 * the loop returns only for stated reasons (quit with the exact code / nobody RUNNING).
 * Two modules A (owns the source under test) and B (owns an idle descriptor source).
 * MODE 0: non-blocking dispatch calls.  MODE 1: blocking m_ctx_loop(), ended by the handler (quit(code) or stop self).
 * Per job: KIND, MODE, PAUSE (A paused before the source becomes ready), END (0 quit, 1 stop-all), ONESHOT.
 * Symbolic: quit code, errno left by callbacks. */
#include "vf.h"
#include "vf_os.h"
#include <module/mod.h>
#include <module/ctx.h>
#ifndef KIND
#define KIND M_SRC_TYPE_TMR
#endif
#ifndef MODE
#define MODE 0
#endif
#ifndef PAUSE
#define PAUSE 0
#endif
#ifndef END
#define END 0
#endif
static char udA[2], udB;
static unsigned char code;
static const void *the_ud;
static int task_ran;
int my_task(void *arg) { task_ran++; VF_CHECK(arg == the_ud, "task body gets the user data given at registration"); return 41; }

#define VF_ACTION my_action
static void my_action(int who, int kind, m_mod_t *m, const m_queue_t *q);
#include "l2.h"
static void my_action(int who, int kind, m_mod_t *m, const m_queue_t *q) {
#if MODE == 1
    if (kind == VF_CB_EVT && who == 0) {
        /* blocking mode: the handler ends the loop */
#if END == 0
        int r = m_ctx_quit(code); VF_CHECK(r == 0, "quit accepted from inside a handler");
#else
        m_mod_stop(vf_mods[1]);
        m_mod_stop(m);
#endif
    }
#endif
}

static void make_ready(int kind, int fd_user) {
    switch (kind) {
    case M_SRC_TYPE_FD: vf_fds[fd_user].ready = true; break;
    case M_SRC_TYPE_TMR: vf_fire_timers(); break;
    case M_SRC_TYPE_SGN: { int f = vf_find_kind(VF_SIGNAL, 0); if (f >= 0) vf_fds[f].ready = true; break; }   /* no descriptor while the owner is paused */
    case M_SRC_TYPE_PATH: { int f = vf_find_kind(VF_INOTIFY, 0); if (f >= 0) vf_fds[f].ready = true; break; }
    case M_SRC_TYPE_PID: { int f = vf_find_kind(VF_PIDFD, 0); if (f >= 0) vf_fds[f].ready = true; break; }
    case M_SRC_TYPE_TASK: vf_run_tasks(); break;
    default: break;
    }
}

int vf_main(void) {
    vf_ctx(M_CTX_PERSIST);
    m_mod_t *A = vf_mod(0, 0, NULL), *B = vf_mod(1, 0, NULL);
    int r = m_mod_start(A); VF_CHECK(r == 0, "start A");
    r = m_mod_start(B); VF_CHECK(r == 0, "start B");
    code = nondet_uchar();
    vf_set_errno = true; vf_errno_after_cb = nondet_int();
    the_ud = &udA[1];
#ifndef ONESHOT
#define ONESHOT 0
#endif
    m_src_flags fl = ONESHOT ? M_SRC_ONESHOT : 0;
    int fdB = vf_user_fd(); VF_ASSUME(fdB >= 0);
    r = m_mod_src_register_fd(B, fdB, 0, &udB); VF_CHECK(r == 0, "B registers its descriptor");
    int fdA = -1; long key = 0;
    switch (KIND) {
    case M_SRC_TYPE_FD: fdA = vf_user_fd(); VF_ASSUME(fdA >= 0); key = fdA; r = m_mod_src_register_fd(A, fdA, fl, the_ud); break;
    case M_SRC_TYPE_TMR: { m_src_tmr_t t = { CLOCK_MONOTONIC, 5000000 }; key = 5000000; r = m_mod_src_register_tmr(A, &t, fl, the_ud); break; }
    case M_SRC_TYPE_SGN: { m_src_sgn_t s = { 10 }; key = 10; r = m_mod_src_register_sgn(A, &s, fl, the_ud); break; }
    case M_SRC_TYPE_PATH: { m_src_path_t p = { "/p", IN_MODIFY }; r = m_mod_src_register_path(A, &p, fl, the_ud); break; }
    case M_SRC_TYPE_PID: { m_src_pid_t p = { 77, 0 }; key = 77; r = m_mod_src_register_pid(A, &p, fl, the_ud); break; }
    case M_SRC_TYPE_TASK: { m_src_task_t t = { 3, my_task }; key = 3; r = m_mod_src_register_task(A, &t, fl, the_ud); break; }
    default: break;
    }
    VF_CHECK(r == 0, "A registers the source under test");
    _Bool oneshot = (fl & M_SRC_ONESHOT) || KIND == M_SRC_TYPE_TASK;

#if MODE == 0
    r = m_ctx_dispatch(); VF_CHECK(r == 0, "first dispatch starts the loop");
#if PAUSE
    r = m_mod_pause(A); VF_CHECK(r == 0, "pause A");
#endif
    make_ready(KIND, fdA);
    r = m_ctx_dispatch();
#if PAUSE
    VF_CHECK(vf_nlog[0] == 0 && vf_ncalls[0] == 0, "no event is handed to a module that is not RUNNING");
    VF_CHECK(vf_nlog[1] == 0, "nor to another module");
    VF_WITNESS("paused");
    return 0;
#else
    VF_CHECK(r == 1, "dispatch reports one event");
#endif
#else
    make_ready(KIND, fdA);          /* armed before the loop starts; the loop picks it up once A's sources are polled */
    r = m_ctx_loop();
#if END == 0
    VF_CHECK(r == code, "the loop returns exactly the code passed to quit");
#else
    VF_CHECK(r == 0, "the loop returns 0 when no module is RUNNING any more");
    VF_CHECK(m_mod_is(A, M_MOD_STOPPED) && m_mod_is(B, M_MOD_STOPPED), "both stopped");
#endif
#endif
#if !(MODE == 0 && PAUSE)
    VF_CHECK(vf_ncalls[0] == 1 && vf_nlog[0] == 1, "the owner's handler ran once with exactly one event");
    VF_CHECK(vf_nlog[1] == 0 && vf_ncalls[1] == 0, "the other module saw nothing");
    VF_CHECK(vf_log[0][0].type == (m_src_types)KIND, "event type is the source kind");
    VF_CHECK(vf_log[0][0].userdata == the_ud, "event carries the user data given at registration");
    if (KIND != M_SRC_TYPE_PATH) VF_CHECK(vf_log[0][0].ival == key, "event names the source's key");
    VF_CHECK(vf_log[0][0].state == M_MOD_RUNNING && vf_evt_not_running == 0, "delivered while RUNNING");
    if (KIND == M_SRC_TYPE_TASK) VF_CHECK(task_ran == 1, "task body ran once");
#if MODE == 0
    VF_CHECK(m_mod_src_len(A, (m_src_types)KIND) == (oneshot ? 0 : 1), "a one-shot source is gone after it fired, others stay");
    r = m_ctx_quit(code); VF_CHECK(r == 0, "quit");
    r = m_ctx_dispatch(); VF_CHECK(r == code, "dispatch after quit returns the code");
#endif
    VF_WITNESS("end");
#endif
    return 0;
}
