/* C04: memory and lifetime safety under re-entrant API use.  The property is decided by CBMC's own instrumentation of
 * the real code: every dereference (freed / foreign / NULL memory), every free (double, invalid) and, at the end of
 * the scenario - context gone, every user reference dropped - the memory-leak check: everything allocated was released.
 * One scenario family per job (SCEN), with per-job variants V; symbolic: non-allocating flag bits (auto-free), errno,
 * quit code, payload contents.
 *  1 a module deregisters itself inside its handler while further messages for it are in flight
 *  2 a module stops itself inside on_start
 *  3 a module unsubscribes while a message matched by that subscription is still in its mailbox
 *  4 the user retains an event (m_mem_ref) and releases it after the module and the context are gone (V: 0 fd, 1 timer,
 *    2 pub/sub message)
 *  5 a deregistered module stays a valid ZOMBIE (name/state queries) until the last user reference is dropped
 *  6 the sender of a message is deregistered before the recipient reads it
 *  7 an event is stashed and the module is then stopped (V0) / deregistered (V1)
 *  8 a module is replaced by name (ALLOW_REPLACE) while it has traffic and the user still holds the old handle
 *  9 a burst larger than the recipient's pipe
 * 10 the last module of a non-persistent context deregisters itself inside a callback while the loop runs
 * 11 a task source whose module is stopped before the task has finished
 * 12 a stashed event is replayed (m_mod_unstash from outside the loop) to a handler that deregisters its own module
 * 14 a subscription made with a duplicated topic is replaced (same topic, other flags) and then used and removed
 * 15 a system notification naming a module as sender outlives that module's deregistration (last user reference gone)
 * 13 a PAUSED module with messages still in its mailbox is stopped (V0) / deregistered (V1) / goes with the context (V2) */
#include "vf.h"
#include "vf_os.h"
#include <module/mod.h>
#include <module/ctx.h>
#define VF_ACTION my_action
static void my_action(int who, int kind, struct _mod *m, const m_queue_t *q);
#include "l2.h"
#ifndef SCEN
#define SCEN 1
#endif
#ifndef V
#define V 0
#endif
static m_evt_t *kept[2]; static int nkept;
static _Bool acted;
static int touched;
static void my_action(int who, int kind, m_mod_t *m, const m_queue_t *q) {
#if SCEN == 1
    if (kind == VF_CB_EVT && who == 1 && !acted) { acted = 1; int r = m_mod_deregister(&vf_mods[1]); VF_CHECK(r == 0 && vf_mods[1] == NULL, "self-deregistration inside the handler"); }
#elif SCEN == 2
    if (kind == VF_CB_START && who == 1 && !acted) { acted = 1; int r = m_mod_stop(m); VF_CHECK(r == 0, "self-stop inside on_start"); }
#elif SCEN == 4
    if (kind == VF_CB_EVT && who == 1) m_itr_foreach(q, { m_evt_t *e = m_itr_get(m_itr); if (nkept < 2) kept[nkept++] = m_mem_ref(e); });
#elif SCEN == 6
    if (kind == VF_CB_EVT && who == 1) m_itr_foreach(q, {
        m_evt_t *e = m_itr_get(m_itr);
        if (e->type == M_SRC_TYPE_PS && !e->ps_evt->system) {
            /* the sender is gone from the context but must still answer name and state queries */
            VF_CHECK(m_mod_is(e->ps_evt->sender, M_MOD_ZOMBIE), "sender of an undelivered message stays a valid ZOMBIE");
            touched += m_mod_name(e->ps_evt->sender)[0];
        }
    });
#elif SCEN == 15
    if (kind == VF_CB_EVT && who == 1) m_itr_foreach(q, {
        m_evt_t *e = m_itr_get(m_itr);
        if (e->type == M_SRC_TYPE_PS && e->ps_evt->system && e->ps_evt->sender) {
            VF_CHECK(m_mod_is(e->ps_evt->sender, M_MOD_ZOMBIE), "the module named by a pending notification stays a valid ZOMBIE");
            touched += m_mod_name(e->ps_evt->sender)[0];
        }
    });
#elif SCEN == 7
    if (kind == VF_CB_EVT && who == 1) m_itr_foreach(q, { m_evt_t *e = m_itr_get(m_itr); if (e->type == M_SRC_TYPE_PS && !e->ps_evt->system) { int r = m_mod_stash(m, e); VF_CHECK(r == 0, "stash"); } });
#elif SCEN == 12
    if (kind == VF_CB_EVT && who == 1) {
        if (vf_ncalls[1] == 1) { m_itr_foreach(q, { m_evt_t *e = m_itr_get(m_itr); if (e->type == M_SRC_TYPE_PS && !e->ps_evt->system) { int r = m_mod_stash(m, e); VF_CHECK(r == 0, "stash"); } }); }
        else if (!acted) { acted = 1; int r = m_mod_deregister(&vf_mods[1]); VF_CHECK(r == 0 && vf_mods[1] == NULL, "self-deregistration while a stashed event is replayed"); }
    }
#elif SCEN == 10
    if (kind == VF_CB_EVT && who == 0 && !acted) { acted = 1; int r = m_mod_deregister(&vf_mods[0]); VF_CHECK(r == 0, "last module deregisters itself inside the handler"); }
#endif
}

static void drop_module(int i) {
    if (!vf_mods[i]) return;
    if (m_mod_is(vf_mods[i], M_MOD_ZOMBIE)) m_mem_unrefp((void **)&vf_mods[i]);
    else { int r = m_mod_deregister(&vf_mods[i]); VF_CHECK(r == 0 && vf_mods[i] == NULL, "deregister at teardown"); }
}
static char *payload(void) { char *p = malloc(1); VF_ASSUME(p != NULL); *p = nondet_uchar(); return p; }

int vf_main(void) {
    int r;
    _Bool autofree = nondet_bool();
    m_ps_flags pf = autofree ? M_PS_AUTOFREE : 0;
    vf_set_errno = true; vf_errno_after_cb = nondet_int();
    vf_ctx(0);                                   /* non-persistent: released with its last module */
    m_mod_t *A = vf_mod(0, 0, NULL);
    r = m_mod_start(A); VF_CHECK(r == 0, "start A");
    char *p1 = NULL, *p2 = NULL, *p3 = NULL;
#if SCEN == 1
    m_mod_t *B = vf_mod(1, 0, NULL); r = m_mod_start(B); VF_CHECK(r == 0, "start B");
    r = m_ctx_dispatch();
    p1 = payload(); p2 = payload();
    r = m_mod_ps_tell(A, B, p1, pf); VF_CHECK(r == 0, "tell 1");
    r = m_mod_ps_tell(A, B, p2, pf); VF_CHECK(r == 0, "tell 2");
    r = m_ctx_dispatch(); r = m_ctx_dispatch();
    VF_CHECK(vf_ncalls[1] == 1, "nothing is delivered to a module after it deregistered itself");
#elif SCEN == 2
    m_mod_t *B = vf_mod(1, 0, NULL); r = m_mod_start(B);
    VF_CHECK(m_mod_is(B, M_MOD_STOPPED), "stopped by itself");
    r = m_ctx_dispatch(); r = m_ctx_dispatch();
#elif SCEN == 3
    m_mod_t *B = vf_mod(1, 0, NULL); r = m_mod_start(B); VF_CHECK(r == 0, "start B");
    r = m_mod_ps_subscribe(B, "t", V == 1 ? M_SRC_DUP : 0, NULL); VF_CHECK(r == 0, "subscribe");
    r = m_ctx_dispatch();
    p1 = payload();
    r = m_mod_ps_publish(A, "t", p1, pf); VF_CHECK(r == 0, "publish");
    r = m_mod_ps_unsubscribe(B, "t"); VF_CHECK(r == 0, "unsubscribe while the message is in flight");
    r = m_ctx_dispatch(); r = m_ctx_dispatch();
#elif SCEN == 4
    m_mod_t *B = vf_mod(1, 0, NULL); r = m_mod_start(B); VF_CHECK(r == 0, "start B");
    int fd = -1;
#if V == 0
    fd = vf_user_fd(); VF_ASSUME(fd >= 0);
    r = m_mod_src_register_fd(B, fd, 0, NULL); VF_CHECK(r == 0, "fd source");
    r = m_ctx_dispatch(); vf_fds[fd].ready = true; r = m_ctx_dispatch(); vf_fds[fd].ready = false;
#elif V == 1
    { m_src_tmr_t t = { CLOCK_MONOTONIC, 1000000 }; r = m_mod_src_register_tmr(B, &t, 0, NULL); VF_CHECK(r == 0, "timer source"); }
    r = m_ctx_dispatch(); vf_fire_timers(); r = m_ctx_dispatch();
#else
    r = m_ctx_dispatch(); p1 = payload();
    r = m_mod_ps_tell(A, B, p1, pf); VF_CHECK(r == 0, "tell"); r = m_ctx_dispatch();
#endif
    VF_CHECK(nkept == 1, "one event retained by the user");
#elif SCEN == 5
    m_mod_t *B = vf_mod(1, 0, NULL); r = m_mod_start(B); VF_CHECK(r == 0, "start B");
    m_mod_t *extra = m_mem_ref(B);
    r = m_mod_deregister(&vf_mods[1]); VF_CHECK(r == 0, "deregister B");
    VF_CHECK(m_mod_is(extra, M_MOD_ZOMBIE) && m_mod_state(extra) == M_MOD_ZOMBIE, "a deregistered module is a ZOMBIE");
    VF_CHECK(m_mod_name(extra) != NULL && m_mod_name(extra)[0] == 'b', "... that still answers name queries");
    VF_CHECK(m_mod_start(extra) < 0 && m_mod_ps_tell(extra, A, &touched, 0) < 0, "... and refuses everything else");
    r = m_mod_ps_tell(A, extra, &touched, 0);     /* telling a zombie: accepted or not, it must not corrupt anything */
    m_mem_unref(extra);
    r = m_ctx_dispatch();
#elif SCEN == 6
    m_mod_t *B = vf_mod(1, 0, NULL); r = m_mod_start(B); VF_CHECK(r == 0, "start B");
    r = m_ctx_dispatch();
    p1 = payload();
    r = m_mod_ps_tell(A, B, p1, pf); VF_CHECK(r == 0, "tell");
    r = m_mod_deregister(&vf_mods[0]); VF_CHECK(r == 0, "sender deregistered before the recipient reads");
    r = m_ctx_dispatch();
    VF_CHECK(vf_ncalls[1] == 1, "the message of the departed sender is still delivered");
#elif SCEN == 7
    m_mod_t *B = vf_mod(1, 0, NULL); r = m_mod_start(B); VF_CHECK(r == 0, "start B");
    r = m_ctx_dispatch();
    p1 = payload();
    r = m_mod_ps_tell(A, B, p1, pf); VF_CHECK(r == 0, "tell"); r = m_ctx_dispatch();
#if V == 0
    r = m_mod_stop(B); VF_CHECK(r == 0, "stop with a stashed event");
#else
    r = m_mod_deregister(&vf_mods[1]); VF_CHECK(r == 0, "deregister with a stashed event");
#endif
#elif SCEN == 8
    m_mod_t *B = vf_mod(1, M_MOD_ALLOW_REPLACE, NULL); r = m_mod_start(B); VF_CHECK(r == 0, "start B");
    r = m_ctx_dispatch();
    p1 = payload();
    r = m_mod_ps_tell(A, B, p1, pf); VF_CHECK(r == 0, "tell the module that is about to be replaced");
    m_mod_t *oldB = vf_mods[1]; vf_mods[1] = NULL;
    m_mod_t *newB = vf_mod(1, 0, NULL);
    VF_CHECK(newB != oldB && m_mod_is(oldB, M_MOD_ZOMBIE), "the replaced module is deregistered; the old handle stays valid");
    r = m_mod_start(newB); VF_CHECK(r == 0, "start the replacement");
    r = m_ctx_dispatch();
    m_mem_unref(oldB);
#elif SCEN == 9
    vf_pipe_cap = 1;
    m_mod_t *B = vf_mod(1, 0, NULL); r = m_mod_start(B); VF_CHECK(r == 0, "start B");
    r = m_ctx_dispatch();
    p1 = payload(); p2 = payload(); p3 = payload();
    r = m_mod_ps_tell(A, B, p1, pf); r = m_mod_ps_tell(A, B, p2, pf); r = m_mod_ps_tell(A, B, p3, pf);
    r = m_ctx_dispatch(); r = m_ctx_dispatch();
#elif SCEN == 10
    r = m_ctx_dispatch();
    r = m_mod_ps_publish(A, NULL, &touched, 0); VF_CHECK(r == 0, "A broadcasts to itself");
    r = m_ctx_dispatch();
    VF_CHECK(vf_mods[0] == NULL, "deregistered inside the handler");
    r = m_ctx_dispatch();      /* nobody is running any more: the loop stops and the context goes with its last module */
    VF_CHECK(m_ctx_len() == -EPIPE, "non-persistent context released when the loop returned");
#elif SCEN == 12
    m_mod_t *B = vf_mod(1, 0, NULL); r = m_mod_start(B); VF_CHECK(r == 0, "start B");
    r = m_ctx_dispatch();
    p1 = payload();
    r = m_mod_ps_tell(A, B, p1, pf); VF_CHECK(r == 0, "tell"); r = m_ctx_dispatch();
    VF_CHECK(vf_ncalls[1] == 1, "delivered once and stashed");
    unsigned char c12 = nondet_uchar();
    r = m_ctx_quit(c12); r = m_ctx_dispatch();          /* the loop has returned: the replay happens outside any dispatch */
    { ssize_t n = m_mod_unstash(B, 1); VF_CHECK(n == 1, "one stashed event replayed"); }
    VF_CHECK(vf_ncalls[1] == 2 && vf_mods[1] == NULL, "the replay handler deregistered its own module");
#elif SCEN == 14
    m_mod_t *B = vf_mod(1, 0, NULL); r = m_mod_start(B); VF_CHECK(r == 0, "start B");
    { char topic[4] = "evt";       /* the caller's buffer goes away: the subscription keeps its own copy (M_SRC_DUP) */
      r = m_mod_ps_subscribe(B, topic, M_SRC_DUP, NULL); VF_CHECK(r == 0, "subscribe with a duplicated topic");
      r = m_mod_ps_subscribe(B, topic, M_SRC_DUP | M_SRC_PRIO_HIGH, NULL); VF_CHECK(r == 0, "same topic again, other flags: replaced");
      topic[0] = 'x'; }
    VF_CHECK(m_mod_src_len(B, M_SRC_TYPE_END) == 1, "still one subscription");
    r = m_ctx_dispatch();
    p1 = payload();
    r = m_mod_ps_publish(A, "evt", p1, pf); VF_CHECK(r == 0, "publish on the topic");
    r = m_ctx_dispatch();
    VF_CHECK(vf_ncalls[1] == 1, "delivered through the replaced subscription");
#if V == 0
    r = m_mod_ps_unsubscribe(B, "evt"); VF_CHECK(r == 0, "unsubscribe finds it");
#endif
#elif SCEN == 15
    m_mod_t *B = vf_mod(1, 0, NULL); r = m_mod_start(B); VF_CHECK(r == 0, "start B");
    r = m_mod_ps_subscribe(B, M_PS_MOD_STOPPED, 0, NULL); VF_CHECK(r == 0, "B subscribes to MOD_STOPPED");
    r = m_ctx_dispatch();
    r = m_mod_deregister(&vf_mods[0]); VF_CHECK(r == 0 && vf_mods[0] == NULL, "A deregistered, the user's last reference gone");
    r = m_ctx_dispatch();
    VF_CHECK(vf_ncalls[1] == 1, "B is told that A stopped");
#elif SCEN == 13
    m_mod_t *B = vf_mod(1, 0, NULL); r = m_mod_start(B); VF_CHECK(r == 0, "start B");
    r = m_ctx_dispatch();
    r = m_mod_pause(B); VF_CHECK(r == 0, "pause B");
    p1 = payload(); p2 = payload();
    r = m_mod_ps_tell(A, B, p1, pf); VF_CHECK(r == 0, "tell a paused module");
    r = m_mod_ps_tell(A, B, p2, pf); VF_CHECK(r == 0, "tell a paused module (2)");
#if V == 0
    r = m_mod_stop(B); VF_CHECK(r == 0, "stop the paused module with messages pending");
#elif V == 1
    r = m_mod_deregister(&vf_mods[1]); VF_CHECK(r == 0, "deregister the paused module with messages pending");
#endif
    VF_CHECK(vf_ncalls[1] == 0, "nothing was delivered to the paused module");
#elif SCEN == 11
    m_mod_t *B = vf_mod(1, 0, NULL); r = m_mod_start(B); VF_CHECK(r == 0, "start B");
    r = m_ctx_dispatch();
    { m_src_task_t t = { 1, vf_task_fn }; r = m_mod_src_register_task(B, &t, 0, NULL); VF_CHECK(r == 0, "task source"); }
#ifdef VF_KF_task_outlives_source
    vf_run_tasks();            /* known finding excluded: the task completes before its module goes */
#endif
#if V == 0
    r = m_mod_stop(B); VF_CHECK(r == 0, "stop B while its task has not finished");
#else
    r = m_mod_deregister(&vf_mods[1]); VF_CHECK(r == 0, "deregister B while its task has not finished");
#endif
    vf_run_tasks();            /* the task completes now */
    r = m_ctx_dispatch();
#endif

    /* teardown: every module goes, the non-persistent context follows; then the user drops what he retained */
    unsigned char code = nondet_uchar();
    { m_ctx_t *cc = m_ctx(); if (cc && cc->state == M_CTX_LOOPING) { /* the loop is still running: end it */
        m_ctx_quit(code); m_ctx_dispatch();
    } }
    drop_module(1); drop_module(0);
    VF_CHECK(m_ctx_len() == -EPIPE, "context released with its last module");
    for (int i = 0; i < 2; i++) if (kept[i]) m_mem_unref(kept[i]);
    if (!autofree) { free(p1); free(p2); free(p3); }
    VF_WITNESS("end");
    return 0;
}
