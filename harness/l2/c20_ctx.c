/* C20 descriptor hygiene, context-owned descriptors: the poll handle, the tick source (m_ctx_set_tick: an internal
 * timer descriptor that exists while the loop runs) and m_ctx_fd(), which hands the USER a duplicate of the poll
 * handle (docs/concepts/ctx.md: "remember to close() libmodule's fd retrieved through m_ctx_fd()"): the library must
 * close its own handle and the tick descriptor by the time the context is gone, and must never close the duplicate.
 * Per job: TICK (0 none, 1 set before the loop starts, 2 set while looping, 3 set before and replaced while looping,
 * 4 set while looping and cleared again (0), 5 set while looping, never fires, loop ends with it armed,
 * 6 set from the start callback of a module that the loop-start evaluation pass starts),
 * CTXFD (0/1 m_ctx_fd() taken while looping, 2 taken before the loop), END (0 the module is deregistered, the loop stops
 * for lack of modules; 1 m_ctx_quit(code), loop stops, module deregistered afterwards; 2 like 1 but the loop is started
 * a second time before the teardown: the tick descriptor is created and closed twice).
 * Symbolic: quit code, errno left by callbacks. */
#include "vf.h"
#include "vf_os.h"
#include <module/mod.h>
#include <module/ctx.h>
#ifndef TICK
#define TICK 1
#endif
#ifndef CTXFD
#define CTXFD 1
#endif
#ifndef END
#define END 0
#endif
#if TICK == 6
#define VF_ACTION tick_action
static void tick_action(int who, int kind, struct _mod *m, const m_queue_t *q);
#endif
#include "l2.h"
#include "c20_oracle.c"
#if TICK == 6
static int tick_set_r = 1;
static void tick_action(int who, int kind, m_mod_t *m, const m_queue_t *q) {
    /* a module started by the loop-start evaluation pass configures the tick from its start callback */
    if (kind == VF_CB_START && who == 1) tick_set_r = m_ctx_set_tick(5000000);
}
#endif

static int take_ctx_fd(void) {
    int fd = m_ctx_fd();
    VF_CHECK(fd >= 0 && vf_is_open(fd) && vf_fds[fd].kind == VF_EPOLL, "m_ctx_fd() returns a new descriptor on the poll handle");
    /* the OS model marks every dup() library-owned; this one is handed to the user, who has to close it */
    vf_fds[fd].lib_owned = false;
    VF_ASSUME(c20_nufd < C20_NUFD);
    c20_ufd[c20_nufd] = fd; c20_expect_closed[c20_nufd] = false; c20_nufd++;
    return fd;
}

int vf_main(void) {
    int r, cfd = -1;
    unsigned char code = nondet_uchar();
    vf_set_errno = true; vf_errno_after_cb = nondet_int();
    vf_ctx(0);
    m_mod_t *A = vf_mod(0, 0, NULL);
    r = m_mod_start(A); VF_CHECK(r == 0, "start A");
    r = m_mod_ps_subscribe(A, M_PS_CTX_TICK, 0, NULL); VF_CHECK(r == 0, "A subscribes to the tick");
#if CTXFD == 2
    cfd = take_ctx_fd();
#endif
#if TICK == 1 || TICK == 3
    r = m_ctx_set_tick(5000000); VF_CHECK(r == 0, "tick set before the loop");
    VF_CHECK(vf_find_kind(VF_TIMER, 0) < 0, "harness sanity: no timer descriptor before the loop runs");
#endif
#if TICK == 6
    m_mod_t *W = vf_mod(1, 0, NULL);
#endif
    r = m_ctx_dispatch(); VF_CHECK(r == 0, "loop starts");
#if TICK == 6
    VF_CHECK(m_mod_is(W, M_MOD_RUNNING) && tick_set_r == 0, "W started by the evaluation pass, tick configured in its start callback");
#endif
#if CTXFD == 1
    cfd = take_ctx_fd();
#endif
#if TICK == 2 || TICK == 4 || TICK == 5
    r = m_ctx_set_tick(5000000); VF_CHECK(r == 0, "tick set while looping");
#endif
#if TICK == 3
    r = m_ctx_set_tick(7000000); VF_CHECK(r == 0, "tick replaced while looping");
#endif
#if TICK != 0
    VF_CHECK(vf_find_kind(VF_TIMER, 0) >= 0 && vf_find_kind(VF_TIMER, 1) < 0, "harness sanity: exactly one tick descriptor while looping");
#if TICK != 5
    vf_fire_timers();
    r = m_ctx_dispatch(); VF_CHECK(r == 1, "the tick is processed");
    r = m_ctx_dispatch(); VF_CHECK(r == 1 && vf_ncalls[0] == 1, "and announced to the subscriber");
#endif
#endif
#if TICK == 4
    r = m_ctx_set_tick(0); VF_CHECK(r == 0, "tick cleared");
#endif
    c20_untouched();
#if END == 0
#if TICK == 6
    r = m_mod_deregister(&vf_mods[1]); VF_CHECK(r == 0, "deregister W");
#endif
    r = m_mod_deregister(&A); VF_CHECK(r == 0 && A == NULL, "deregister A");
    r = m_ctx_dispatch(); VF_CHECK(r == 0, "no module left: the loop stops and the context goes away");
#else
    r = m_ctx_quit(code); VF_CHECK(r == 0, "quit");
    r = m_ctx_dispatch(); VF_CHECK(r == code, "loop ends with the code");
    c20_untouched();
#if END == 2
    r = m_ctx_dispatch(); VF_CHECK(r == 0, "loop starts again");
#if TICK != 0 && TICK != 4
    VF_CHECK(vf_find_kind(VF_TIMER, 0) >= 0 && vf_find_kind(VF_TIMER, 1) < 0, "harness sanity: exactly one tick descriptor again");
#endif
    r = m_ctx_quit(code); VF_CHECK(r == 0, "quit again");
    r = m_ctx_dispatch(); VF_CHECK(r == code, "loop ends again");
#endif
#if TICK == 6
    r = m_mod_deregister(&vf_mods[1]); VF_CHECK(r == 0, "deregister W");
#endif
    r = m_mod_deregister(&A); VF_CHECK(r == 0 && A == NULL, "deregister A: the idle context goes with its last module");
#endif
    c20_final();
#if CTXFD
    VF_CHECK(vf_is_open(cfd) && vf_user_close[cfd] == 0, "the descriptor handed out by m_ctx_fd() is the user's: never closed by the library");
    r = vf_close(cfd); VF_CHECK(r == 0 && vf_bad_close == 0, "the user closes it");
#endif
    VF_WITNESS("end");
    return 0;
}
