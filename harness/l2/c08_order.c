/* C08: messages addressed to one module (B) arrive in the order in which they were sent - across tell, publish,
 * broadcast and system notifications, across handler invocations and within one batch, in dispatch mode, in the
 * blocking loop and in the flush performed when the loop stops; a poison pill stops B only after everything sent
 * earlier was delivered and nothing sent after it is delivered.
 * Modules: A and C send, B receives (subscribed to "t" and to M_PS_MOD_STOPPED).
 * Per job: SCRIPT = sequence of steps (1 A tells B, 2 C tells B, 3 A publishes "t", 4 C publishes "t", 5 A broadcasts,
 * 6 A sends B the poison pill, 7 C is paused (system notification naming C), 8 pause B, 9 resume B, 10 one dispatch,
 * 11 A publishes "h", to which B holds a HIGH-priority subscription, 12 A publishes "l", to which B holds a
 * LOW-priority subscription: held back until the next event for B or the loop-stop flush),
 * SELFPILL (B sends ITSELF the poison pill from its handler while handling its first message: everything sent before -
 * the whole script - is still delivered, then B stops),
 * MODE (0 dispatch until drained, 1 quit + flush, 2 blocking loop ended by the handler), BATCH (batch size of B).
 * TB (B has a token bucket of burst TB and spends one token per delivered message by answering the sender: the pill
 * must stop it even with no token left), CAP (pipe capacity; with more messages than fit only ORDER is asserted).
 * Symbolic: errno left by handlers, quit code. */
#include "vf.h"
#include "vf_os.h"
#include <module/mod.h>
#include <module/ctx.h>
#define VF_ACTION my_action
static void my_action(int who, int kind, struct _mod *m, const m_queue_t *q);
#ifndef VF_LOGN
#define VF_LOGN 8
#endif
#include "l2.h"
#ifndef SCRIPT
#define SCRIPT { 1, 2, 3 }
#endif
#ifndef MODE
#define MODE 0
#endif
#ifndef BATCH
#define BATCH 0
#endif
#ifndef TB
#define TB 0
#endif
#ifndef CAP
#define CAP VF_PIPE_MAX
#endif
static const unsigned char script[] = SCRIPT;
#define NS ((int)(sizeof(script) / sizeof(script[0])))
static char pl[16];
static int expect_total;
static unsigned char code;
static char ack;
static void my_action(int who, int kind, m_mod_t *m, const m_queue_t *q) {
#if TB
    if (kind == VF_CB_EVT && who == 1) m_mod_ps_tell(m, vf_mods[0], &ack, 0);    /* spends one of B's tokens (may be refused: EAGAIN) */
#endif
#ifdef SELFPILL
    static _Bool pill_done;
    if (kind == VF_CB_EVT && who == 1 && !pill_done) { pill_done = 1; int r = m_mod_ps_poisonpill(m, m); VF_CHECK(r == 0, "B sends itself the pill"); }
#endif
#if MODE == 2
    static _Bool quit_done;
    if (kind == VF_CB_EVT && who == 1 && vf_nlog[1] >= expect_total && !quit_done) { quit_done = 1; int r = m_ctx_quit(code); VF_CHECK(r == 0, "quit from the handler"); }
#endif
}

int vf_main(void) {
    vf_ctx(M_CTX_PERSIST);
    m_mod_t *A = vf_mod(0, 0, NULL), *B = vf_mod(1, 0, NULL), *C = vf_mod(2, 0, NULL);
    int r;
    r = m_mod_start(A); VF_CHECK(r == 0, "start A");
    r = m_mod_start(B); VF_CHECK(r == 0, "start B");
    r = m_mod_start(C); VF_CHECK(r == 0, "start C");
    r = m_mod_ps_subscribe(B, "t", 0, NULL); VF_CHECK(r == 0, "B subscribes to t");
    r = m_mod_ps_subscribe(B, M_PS_MOD_STOPPED, 0, NULL); VF_CHECK(r == 0, "B subscribes to MOD_STOPPED");
    r = m_mod_ps_subscribe(B, "h", M_SRC_PRIO_HIGH, NULL); VF_CHECK(r == 0, "B subscribes to h with high priority");
    r = m_mod_ps_subscribe(B, "l", M_SRC_PRIO_LOW, NULL); VF_CHECK(r == 0, "B subscribes to l with low priority");
#if BATCH
    r = m_mod_set_batch_size(B, BATCH); VF_CHECK(r == 0, "batch size");
#endif
#if TB
    r = m_mod_set_tokenbucket(B, 1, TB); VF_CHECK(r == 0, "token bucket on B");
#endif
    vf_pipe_cap = CAP;
    code = nondet_uchar();
    vf_set_errno = true; vf_errno_after_cb = nondet_int();
    /* expected sequence for B: entry i = index of the step that produced it */
    int exp[16]; int nexp = 0; _Bool pilled = 0; _Bool cpaused = 0;
    for (int i = 0; i < NS; i++) {
        unsigned char s = script[i];
        if (((s >= 1 && s <= 5) || s == 11 || s == 12) && !pilled) exp[nexp++] = i;
        if (s == 7 && !pilled && !cpaused) { exp[nexp++] = i; cpaused = 1; }
        if (s == 8 && !pilled) exp[nexp++] = i;     /* B, PAUSED and subscribed, is told about its own pause like everybody else */
        if (s == 6) pilled = 1;
    }
#ifdef SELFPILL
    pilled = 1;
#endif
    expect_total = nexp;
#if MODE != 2
    r = m_ctx_dispatch(); VF_CHECK(r == 0, "loop starts");
#endif
    for (int i = 0; i < NS; i++) {
        m_ps_flags fl = nondet_bool() ? 0 : 0;      /* payloads are static: no auto-free here */
        switch (script[i]) {
        case 1: r = m_mod_ps_tell(A, B, &pl[i], fl); VF_CHECK(r == 0, "tell accepted"); break;
        case 2: r = m_mod_ps_tell(C, B, &pl[i], fl); VF_CHECK(r == 0, "tell accepted"); break;
        case 3: r = m_mod_ps_publish(A, "t", &pl[i], fl); VF_CHECK(r == 0, "publish accepted"); break;
        case 4: r = m_mod_ps_publish(C, "t", &pl[i], fl); VF_CHECK(r == 0, "publish accepted"); break;
        case 5: r = m_mod_ps_publish(A, NULL, &pl[i], fl); VF_CHECK(r == 0, "broadcast accepted"); break;
        case 11: r = m_mod_ps_publish(A, "h", &pl[i], fl); VF_CHECK(r == 0, "publish accepted"); break;
        case 12: r = m_mod_ps_publish(A, "l", &pl[i], fl); VF_CHECK(r == 0, "publish accepted"); break;
        case 6: r = m_mod_ps_poisonpill(A, B); VF_CHECK(r == 0, "poison pill accepted for a RUNNING recipient"); break;
        case 7: r = m_mod_pause(C); break;
        case 8: r = m_mod_pause(B); VF_CHECK(r == 0, "pause B"); break;
        case 9: r = m_mod_resume(B); VF_CHECK(r == 0, "resume B"); break;
        default: r = m_ctx_dispatch(); break;
        }
    }
#if MODE == 0
    for (int d = 0; d < NS + 1; d++) r = m_ctx_dispatch();
#elif MODE == 1
    r = m_ctx_quit(code); VF_CHECK(r == 0, "quit");
    r = m_ctx_dispatch(); VF_CHECK(r == code, "loop stops, flushing what is pending");
#else
    r = m_ctx_loop(); VF_CHECK(r == code || pilled, "blocking loop ends with the code");
#endif
    /* B's log must be exp[] in order; when more was sent than the mailbox holds (or batching holds events back) the
     * delivered messages must still be a subsequence of exp[] - nothing overtakes */
    int k = 0;
    _Bool overflow = NS > CAP;
    for (int j = 0; j < VF_LOGN; j++) if (j < vf_nlog[1]) {
        vf_rec_t *e = &vf_log[1][j];
        VF_CHECK(e->type == M_SRC_TYPE_PS, "only pub/sub events here");
        _Bool found = 0;
        for (int t = 0; t < 8; t++) if (!found && t >= k && t < nexp) {
            int i = exp[t];
            unsigned char s = script[i];
            _Bool same;
            if (s == 7) same = e->system && e->sender == C && e->data == NULL;
            else if (s == 8) same = e->system && e->sender == B && e->data == NULL;
            else same = !e->system && e->data == &pl[i] && e->sender == ((s == 2 || s == 4) ? C : A);
            if (same) { found = 1; if (!overflow) VF_CHECK(t == k, "messages arrive in send order, none skipped"); k = t + 1; }
        }
        VF_CHECK(found, "what is delivered was sent before the pill and nothing overtakes an earlier message");
    }
#if !BATCH
    if (!overflow) VF_CHECK(k == nexp, "everything sent before the pill was delivered");
#else
    /* batching holds events back - but not past a poison pill: what was sent before it is delivered before the stop */
    if (!overflow && pilled) VF_CHECK(k == nexp, "everything sent before the pill was delivered, batched or not");
#endif
    if (pilled) VF_CHECK(m_mod_is(B, M_MOD_STOPPED), "the pill stopped B");
    for (int j = 0; j < VF_LOGN; j++) if (j < vf_nlog[1]) VF_CHECK(vf_log[1][j].state == M_MOD_RUNNING, "everything is handed to B while it is still RUNNING: the pill stops it only afterwards");
    VF_CHECK(vf_evt_not_running == 0, "no handler invocation for a module that is not RUNNING");
    if (pilled) VF_CHECK(vf_nstop[1] == 1, "stop callback once");
    VF_CHECK(vf_nlog[1] <= VF_LOGN, "log not overrun");
    VF_WITNESS("end");
    return 0;
}
