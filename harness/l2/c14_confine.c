/* C14 (confinement): a module can only be operated from the thread owning its context.  Thread 0 owns context c0 with
 * modules M (RUNNING) and N; the calls below are issued from simulated thread 1, which holds its own context with a
 * RUNNING module X (FOREIGN_CTX=1) or no context at all (FOREIGN_CTX=0).  Every module operation / pub-sub call /
 * source call on M must fail with a permission error and leave M and c0 byte-identical; a message cannot be addressed
 * to a module of another context; the plain getters keep working.
 * Symbolic: every scalar argument of the refused calls, errno. */
#include "vf.h"
#include "vf_os.h"
#include <module/mod.h>
#include <module/ctx.h>
#include "l2.h"
#ifndef FOREIGN_CTX
#define FOREIGN_CTX 1
#endif
static m_mod_t snapM; static m_ctx_t snapC;
static m_mod_t *M; static m_ctx_t *C0;
static int ncalls;
/* word-wise comparison of two blocks (sizes are multiples of 8) */
_Bool vf_same(const void *a, const void *b, size_t n) {
    const uint64_t *x = a, *y = b;
    for (size_t i = 0; i < n / 8; i++) if (x[i] != y[i]) return 0;
    return 1;
}
void other_handler(m_mod_t *m, const m_queue_t *const q) { (void)m; (void)q; }
static void refused(int r, const char *what) {
    (void)what;
    ncalls++;
    VF_CHECK(r == -EPERM, "a module operation from a foreign thread fails with a permission error");
    VF_CHECK(vf_same(M, &snapM, sizeof(m_mod_t)), "... and leaves the module untouched");
    VF_CHECK(vf_same(C0, &snapC, sizeof(m_ctx_t)), "... and leaves its context untouched");
}

_Static_assert(sizeof(m_mod_t) % 8 == 0 && sizeof(m_ctx_t) % 8 == 0, "word-wise compare");
int vf_main(void) {
    vf_cur_thread = 0;
    vf_ctx(M_CTX_PERSIST);
    M = vf_mod(0, 0, NULL); m_mod_t *N = vf_mod(1, 0, NULL);
    int r = m_mod_start(M); VF_CHECK(r == 0, "start M");
    r = m_mod_start(N); VF_CHECK(r == 0, "start N");
    r = m_mod_ps_subscribe(M, "t", 0, NULL); VF_CHECK(r == 0, "M subscribes");
    C0 = M->ctx;
    m_mod_t *X = NULL;
    vf_cur_thread = 1;
#if FOREIGN_CTX
    r = m_ctx_register("other", M_CTX_PERSIST, NULL); VF_CHECK(r == 0, "a second thread registers its own context");
#ifdef SAMENAME
    /* the other context has a module carrying the same NAME as M: names are per context, identity is not by name */
    r = m_mod_register(m_mod_name(M), &X, &vf_hook, 0, NULL);
#else
    r = m_mod_register("x", &X, &vf_hook, 0, NULL);
#endif VF_CHECK(r == 0 && X != NULL, "module in the other context");
    vf_mods[2] = X;
    r = m_mod_start(X); VF_CHECK(r == 0, "start X");
#else
    VF_CHECK(m_ctx_len() == -EPIPE, "no context on this thread");
#endif
    memcpy(&snapM, M, sizeof(m_mod_t)); memcpy(&snapC, C0, sizeof(m_ctx_t));
    static char payload, ud;
    m_evt_t fake_evt; memset(&fake_evt, 0, sizeof(fake_evt));
    m_src_tmr_t tmr = { CLOCK_MONOTONIC, nondet_u64() }; VF_ASSUME(tmr.ns > 0);
    m_src_sgn_t sgn = { nondet_uint() }; VF_ASSUME(sgn.signo > 0);
    m_src_path_t pth = { "/p", 1 };
    m_src_pid_t pid = { 5, 0 };
    m_src_task_t tsk = { 1, vf_task_fn };
    m_src_thresh_t thr = { 1000, 0 };
    m_src_flags sf = (m_src_flags)(nondet_uint() & (M_SRC_ONESHOT | M_SRC_AUTOFREE | M_SRC_DUP | M_SRC_FD_AUTOCLOSE));
    int fd = vf_user_fd(); VF_ASSUME(fd >= 0);
    m_mod_t *ref = M;
    m_mod_stats_t st;

    /* the plain getters keep working from anywhere */
    VF_CHECK(m_mod_name(M) != NULL && m_mod_is(M, M_MOD_RUNNING) && m_mod_state(M) == M_MOD_RUNNING && m_mod_userdata(M) == NULL, "getters work from a foreign thread");

    refused(m_mod_start(M), "start");
    refused(m_mod_pause(M), "pause");
    refused(m_mod_resume(M), "resume");
    refused(m_mod_stop(M), "stop");
    refused(m_mod_deregister(&ref), "deregister"); VF_CHECK(ref == M, "handle not cleared by a refused deregister");
    refused(m_mod_set_tokenbucket(M, nondet_uint() % 1000, nondet_u64()), "tokenbucket");
    refused(m_mod_dump(M), "dump");
    refused(m_mod_stats(M, &st), "stats");
    refused(m_mod_become(M, other_handler), "become");
    refused(m_mod_unbecome(M), "unbecome");
    refused(m_mod_stash(M, &fake_evt), "stash");
    { size_t n = nondet_size_t(); VF_ASSUME(n > 0); refused((int)m_mod_unstash(M, n), "unstash"); }
    refused(m_mod_set_batch_size(M, nondet_size_t()), "batch size");
    refused(m_mod_set_batch_timeout(M, nondet_u64()), "batch timeout");
    refused(m_mod_ps_subscribe(M, "u", 0, &ud), "subscribe");
    refused(m_mod_ps_unsubscribe(M, "t"), "unsubscribe");
    refused(m_mod_ps_tell(M, N, &payload, 0), "tell");
    refused(m_mod_ps_publish(M, "t", &payload, 0), "publish");
    refused(m_mod_ps_publish(M, NULL, &payload, 0), "broadcast");
    refused(m_mod_ps_poisonpill(M, N), "poisonpill");
    refused(m_mod_src_register_fd(M, fd, sf, &ud), "register fd");
    refused(m_mod_src_deregister_fd(M, fd), "deregister fd");
    refused(m_mod_src_register_tmr(M, &tmr, sf, &ud), "register tmr");
    refused(m_mod_src_deregister_tmr(M, &tmr), "deregister tmr");
    refused(m_mod_src_register_sgn(M, &sgn, sf, &ud), "register sgn");
    refused(m_mod_src_deregister_sgn(M, &sgn), "deregister sgn");
    refused(m_mod_src_register_path(M, &pth, sf, &ud), "register path");
    refused(m_mod_src_deregister_path(M, &pth), "deregister path");
    refused(m_mod_src_register_pid(M, &pid, sf, &ud), "register pid");
    refused(m_mod_src_deregister_pid(M, &pid), "deregister pid");
    refused(m_mod_src_register_task(M, &tsk, sf, &ud), "register task");
    refused(m_mod_src_register_thresh(M, &thr, sf, &ud), "register thresh");
    refused(m_mod_src_deregister_thresh(M, &thr), "deregister thresh");
    refused((int)m_mod_src_len(M, M_SRC_TYPE_END), "src len");
    VF_CHECK(m_mod_lookup(M, "b") == NULL, "lookup through a foreign module yields nothing");
#if FOREIGN_CTX
    r = m_mod_ps_tell(X, M, &payload, 0);
    VF_CHECK(r < 0, "a message cannot be addressed to a module of another context");
    r = m_mod_ps_poisonpill(X, M);
    VF_CHECK(r < 0, "nor a poison pill");
    r = m_mod_bind(X, M); VF_CHECK(r < 0, "nor can modules of different contexts be bound");
    VF_CHECK(vf_same(M, &snapM, sizeof(m_mod_t)) && vf_same(C0, &snapC, sizeof(m_ctx_t)), "cross-context sends leave the target untouched");
    VF_CHECK(m_ctx_len() == 1, "the foreign thread sees its own context only");
#endif
    VF_CHECK(vf_fds[M->pubsub_fd[0]].cnt == 0, "nothing reached the module's mailbox");
    /* back on the owning thread everything still works */
    vf_cur_thread = 0;
    r = m_mod_ps_tell(N, M, &payload, 0); VF_CHECK(r == 0, "owner thread can still talk to M");
    r = m_mod_pause(M); VF_CHECK(r == 0, "owner thread can still operate M");
    VF_CHECK(m_ctx_len() == 2, "context 0 still has its two modules");
    VF_WITNESS("end");
    return 0;
}
