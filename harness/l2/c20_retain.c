/* C20 descriptor hygiene, events that outlive their source: the source of kind KIND fires, the handler keeps the
 * event (HOLD 1: m_mem_ref() on the m_evt_t, documented in docs/core/core.md; HOLD 2: m_mod_stash(); HOLD 0: not kept,
 * control), so the event's reference keeps the source block alive after it left the registry (one-shot removal, stop,
 * deregistration).  Then A is stopped and deregistered, the loop ends, the context is released, and the kept event is
 * released at REL (0: last of all, after the context is gone; 1: after A stopped but while it is still registered;
 * 2: while A is still RUNNING; HOLD 2: the library drops the stashed event when A stops).
 * END: 0 m_mod_stop(A) then deregister, 1 m_mod_deregister(&A) directly, 2 the handler itself stops A right after
 * taking the reference.
 * Oracle: c20_oracle.c (final: nothing library-owned open, user descriptor closed once iff auto-close, no bad close).
 * Per job: KIND (1 fd, 2 timer, 3 signal, 4 path, 5 pid, 6 task, 7 threshold), ONESHOT, AC, DUP, HOLD, REL, END.
 * Symbolic: errno left by callbacks; SYMKEY bit 0: timer clock id (only for a timer that is not one-shot: the one-shot
 * removal on a tree without the C09 repair compares it). */
#include "vf.h"
#include "vf_os.h"
#include <module/mod.h>
#include <module/ctx.h>
#include <module/mem/mem.h>
#ifndef KIND
#define KIND 2
#endif
#ifndef ONESHOT
#define ONESHOT 1
#endif
#ifndef AC
#define AC 0
#endif
#ifndef DUP
#define DUP 0
#endif
#ifndef HOLD
#define HOLD 1
#endif
#ifndef REL
#define REL 0
#endif
#ifndef END
#define END 0
#endif
#ifndef SYMKEY
#define SYMKEY 0
#endif

int my_task(void *arg) { (void)arg; return 41; }
#define VF_ACTION my_action
static void my_action(int who, int kind, struct _mod *m, const m_queue_t *q);
#include "l2.h"
#include "c20_oracle.c"

static m_evt_t *kept;
static int acted;
static void my_action(int who, int kind, m_mod_t *m, const m_queue_t *q) {
    if (kind != VF_CB_EVT || who != 0 || acted) return;
    acted++;
    m_itr_foreach(q, {
        m_evt_t *e = m_itr_get(m_itr);
#if HOLD == 1
        if (!kept) kept = m_mem_ref(e);
#elif HOLD == 2
        int r = m_mod_stash(m, e); VF_CHECK(r == 0, "event stashed");
#else
        (void)e;
#endif
    });
#if END == 2
    { int r = m_mod_stop(m); VF_CHECK(r == 0, "A stops itself in the handler"); }
#endif
    c20_invariant();
}

static char ud;
static int ufd = -1;
static m_src_tmr_t k_tmr; static m_src_sgn_t k_sgn; static m_src_path_t k_path; static m_src_pid_t k_pid;
static m_src_task_t k_task; static m_src_thresh_t k_thr;
static int reg_src(m_mod_t *A, m_src_flags fl) {
    switch (KIND) {
    case 1: return m_mod_src_register_fd(A, ufd, fl, &ud);
    case 2: return m_mod_src_register_tmr(A, &k_tmr, fl, &ud);
    case 3: return m_mod_src_register_sgn(A, &k_sgn, fl, &ud);
    case 4: return m_mod_src_register_path(A, &k_path, fl, &ud);
    case 5: return m_mod_src_register_pid(A, &k_pid, fl, &ud);
    case 6: return m_mod_src_register_task(A, &k_task, fl, &ud);
    default: return m_mod_src_register_thresh(A, &k_thr, fl, &ud);
    }
}
static void make_ready(void) {
    switch (KIND) {
    case 1: { int f = DUP ? c20_find_dup() : ufd; VF_ASSUME(f >= 0); vf_fds[f].ready = true; break; }
    case 2: vf_fire_timers(); break;
    case 3: { int f = vf_find_kind(VF_SIGNAL, 0); VF_ASSUME(f >= 0); vf_fds[f].ready = true; break; }
    case 4: { int f = vf_find_kind(VF_INOTIFY, 0); VF_ASSUME(f >= 0); vf_fds[f].ready = true; break; }
    case 5: { int f = vf_find_kind(VF_PIDFD, 0); VF_ASSUME(f >= 0); vf_fds[f].ready = true; break; }
    case 6: vf_run_tasks(); break;
    default: { int f = vf_find_kind(VF_EVENTFD, 0); VF_ASSUME(f >= 0); uint64_t one = 1; vf_write(f, &one, sizeof(one)); break; }
    }
}
static void release_kept(void) {
#if HOLD == 1
    VF_CHECK(kept != NULL, "the handler kept the event");
    m_mem_unref(kept); kept = NULL;
    c20_invariant();
#endif
}

int vf_main(void) {
    int r;
    vf_ctx(0);
    m_mod_t *A = vf_mod(0, 0, NULL);
    r = m_mod_start(A); VF_CHECK(r == 0, "start A");
    r = m_ctx_dispatch(); VF_CHECK(r == 0, "loop starts");
    vf_set_errno = true; vf_errno_after_cb = nondet_int();
    m_src_flags fl = (AC ? M_SRC_FD_AUTOCLOSE : 0) | (DUP ? M_SRC_DUP : 0) | (ONESHOT ? M_SRC_ONESHOT : 0);
#if SYMKEY & 1
    k_tmr.clock_id = nondet_bool() ? CLOCK_MONOTONIC : CLOCK_REALTIME;
#else
    k_tmr.clock_id = CLOCK_MONOTONIC;
#endif
    k_tmr.ns = 5000000;
    k_sgn.signo = 10; k_path.path = "/p"; k_path.events = IN_MODIFY; k_pid.pid = 77; k_pid.events = 0;
    k_task.tid = 3; k_task.fn = my_task; k_thr.inactive_ms = 1000; k_thr.activity_freq = 0;
    if (KIND == 1) {
        ufd = c20_user_fd(AC);
#if DUP && AC && defined(VF_KF_C20_dup_autoclose)
        c20_nufd = 0;       /* known finding excluded: the fate of the original under DUP|AUTOCLOSE is not asserted */
#endif
    }
    r = reg_src(A, fl); VF_CHECK(r == 0, "A registers the source");
    c20_untouched();
    make_ready();
    r = m_ctx_dispatch(); VF_CHECK(r == 1, "the source fires");
    VF_CHECK(acted == 1, "the handler saw the event");
    c20_invariant();
#if REL == 2
    release_kept();
#endif
#if END == 0
    r = m_mod_stop(A); VF_CHECK(r == 0, "stop A");
#elif END == 2
    VF_CHECK(m_mod_is(A, M_MOD_STOPPED), "A stopped itself");
#endif
    c20_invariant();
#if REL == 1 && END != 1
    release_kept();
#endif
    r = m_mod_deregister(&A); VF_CHECK(r == 0 && A == NULL, "deregister A");
    c20_invariant();
    if (m_ctx_name() != NULL) { r = m_ctx_dispatch(); VF_CHECK(r == 0, "no module left: the loop stops"); }
    VF_CHECK(m_ctx_name() == NULL, "the context has been released");
    c20_invariant();
#if REL == 0 || (REL == 1 && END == 1)
    release_kept();     /* the last user-held reference goes away after module and context */
#endif
    c20_final();
    VF_WITNESS("end");
    return 0;
}
