/* C07: "each thread has at most one context: registering a second one fails with EEXIST" - also when the call is made
 * re-entrantly from a callback, including a callback of a module that is denied context access (for which the
 * library's internal context lookup deliberately answers "none").
 * Per job: DENY (module flagged M_MOD_DENY_CTX or not), CB (0 on_start, 1 on_evt, 2 on_stop).
 * Symbolic: flags of the attempted second context (non-allocating bits), errno. */
#include "vf.h"
#include "vf_os.h"
#include <module/mod.h>
#include <module/ctx.h>
#ifndef DENY
#define DENY 1
#endif
#ifndef CB
#define CB 0
#endif
#define VF_ACTION my_action
static void my_action(int who, int kind, struct _mod *m, const m_queue_t *q);
#include "l2.h"
static int rr = 1, tried;
static m_ctx_flags fl2;
static void my_action(int who, int kind, m_mod_t *m, const m_queue_t *q) {
    if (who == 0 && kind == (CB == 0 ? VF_CB_START : CB == 1 ? VF_CB_EVT : VF_CB_STOP) && !tried) {
        tried = 1;
        rr = m_ctx_register("second", fl2, NULL);
    }
}
int vf_main(void) {
    static char pl;
    fl2 = (m_ctx_flags)(nondet_uint() & (M_CTX_PERSIST | M_CTX_USERDATA_AUTOFREE));
    vf_set_errno = true; vf_errno_after_cb = nondet_int();
    vf_ctx(M_CTX_PERSIST);
    m_ctx_t *first = vf_mods[0] ? NULL : NULL;
    m_mod_t *D = vf_mod(0, DENY ? M_MOD_DENY_CTX : 0, NULL);
    m_mod_t *B = vf_mod(1, 0, NULL);
    first = D->ctx;
    int r = m_mod_start(D); VF_CHECK(r == 0, "start D");
    r = m_mod_start(B); VF_CHECK(r == 0, "start B");
#if CB == 1
    r = m_ctx_dispatch(); VF_CHECK(r == 0, "loop starts");
    r = m_mod_ps_tell(B, D, &pl, 0); VF_CHECK(r == 0, "tell D");
    r = m_ctx_dispatch();
#elif CB == 2
    r = m_mod_stop(D); VF_CHECK(r == 0, "stop D");
#endif
    VF_CHECK(tried, "the callback ran and tried to register a second context");
    VF_CHECK(rr == -EEXIST, "registering a second context on the thread fails with EEXIST, from any callback");
    VF_CHECK(m_ctx_name() != NULL && m_ctx_name()[0] == 'c', "the thread's context is still the first one");
    VF_CHECK(B->ctx == first && m_ctx_len() == 2, "with both its modules");
    r = m_mod_pause(B); VF_CHECK(r == 0, "modules of the first context can still be operated");
    VF_WITNESS("end");
    return 0;
}
