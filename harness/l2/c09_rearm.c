/* C09 (whole core, re-entrancy): inside the callback that receives the event of a ONE-SHOT source the module's source
 * set already lacks that source - the reported count says so, and its key is free: re-registering it (the usual re-arm
 * idiom) succeeds and the new source survives the return of the callback and fires again.  Also: unsubscribing a
 * topic that is NOT subscribed while exactly one subscription exists fails and removes nothing.
 * KIND (per job): 0 one-shot timer, 1 one-shot subscription.  ROUNDS re-arms.  Symbolic: errno left by callbacks. */
#include "vf.h"
#include "vf_os.h"
#include <module/mod.h>
#include <module/ctx.h>
#define VF_ACTION my_action
#include "l2.h"
#ifndef KIND
#define KIND 0
#endif
#ifndef ROUNDS
#define ROUNDS 2
#endif
static m_src_tmr_t T = { CLOCK_MONOTONIC, 7000000 };
static char ud, p1;
static int in_len[4], in_reg[4], rounds;
static void my_action(int who, int kind, m_mod_t *m, const m_queue_t *q) {
    (void)q;
    if (who != 0 || kind != VF_CB_EVT || rounds >= ROUNDS) return;
    in_len[rounds] = (int)m_mod_src_len(m, M_SRC_TYPE_END);
#if KIND == 0
    in_reg[rounds] = m_mod_src_register_tmr(m, &T, M_SRC_ONESHOT, &ud);
#else
    in_reg[rounds] = m_mod_ps_subscribe(m, "t", M_SRC_ONESHOT, &ud);
#endif
    rounds++;
}
int vf_main(void) {
    vf_set_errno = true; vf_errno_after_cb = nondet_int();
    vf_ctx(M_CTX_PERSIST);
    m_mod_t *A = vf_mod(0, 0, NULL), *B = vf_mod(1, 0, NULL);
    int r = m_mod_start(A); VF_CHECK(r == 0, "start A");
    r = m_mod_start(B); VF_CHECK(r == 0, "start B");
#if KIND == 0
    r = m_mod_src_register_tmr(A, &T, M_SRC_ONESHOT, &ud); VF_CHECK(r == 0, "one-shot timer");
#else
    r = m_mod_ps_subscribe(A, "t", M_SRC_ONESHOT, &ud); VF_CHECK(r == 0, "one-shot subscription");
    r = m_mod_ps_unsubscribe(A, "other"); VF_CHECK(r < 0, "unsubscribing a topic that is not subscribed fails");
    VF_CHECK(m_mod_src_len(A, M_SRC_TYPE_PS) == 1, "... and the one existing subscription stays");
#endif
    VF_CHECK(m_mod_src_len(A, M_SRC_TYPE_END) == 1, "one source");
    r = m_ctx_dispatch(); VF_CHECK(r == 0, "loop starts");
    for (int k = 0; k < ROUNDS; k++) {
#if KIND == 0
        vf_fire_timers();
#else
        r = m_mod_ps_publish(B, "t", &p1, 0); VF_CHECK(r == 0, "publish");
#endif
        r = m_ctx_dispatch();
        VF_CHECK(rounds == k + 1 && vf_nlog[0] == k + 1, "the one-shot source fired once more");
        VF_CHECK(in_len[k] == 0, "inside its own callback the fired one-shot source is no longer counted");
        VF_CHECK(in_reg[k] == 0, "... and its key is free: the re-registration succeeds");
        VF_CHECK(m_mod_src_len(A, M_SRC_TYPE_END) == 1, "after the callback the re-registered source is the module's one source");
    }
    /* ROUNDS reached: the handler no longer re-arms */
#if KIND == 0
    vf_fire_timers();
#else
    r = m_mod_ps_publish(B, "t", &p1, 0);
#endif
    r = m_ctx_dispatch();
    VF_CHECK(vf_nlog[0] == ROUNDS + 1 && m_mod_src_len(A, M_SRC_TYPE_END) == 0, "the last one fires once and is gone");
    VF_WITNESS("end");
    return 0;
}
