/* C07: "after a context has been finalised no further module can be registered in it" - by any route, including the
 * registration of a name whose current holder allows replacement.  Per job: REPL (existing module allows replacement).
 * Symbolic: flags of the attempted module (non-allocating), errno. */
#include "vf.h"
#include "vf_os.h"
#include <module/mod.h>
#include <module/ctx.h>
#include "l2.h"
#ifndef REPL
#define REPL 1
#endif
int vf_main(void) {
    vf_ctx(M_CTX_PERSIST);
    m_mod_t *A = vf_mod(0, REPL ? M_MOD_ALLOW_REPLACE : 0, NULL);
    int r = m_mod_start(A); VF_CHECK(r == 0, "start a");
    r = m_ctx_finalize(); VF_CHECK(r == 0, "finalize");
    m_mod_t *n1 = NULL, *n2 = NULL;
    m_mod_flags fl = (m_mod_flags)(nondet_uint() & (M_MOD_PERSIST | M_MOD_ALLOW_REPLACE | M_MOD_DENY_PUB));
    r = m_mod_register("a", &n1, &vf_hook, fl, NULL);
    VF_CHECK(r < 0 && n1 == NULL, "no module can be registered in a finalised context, not even over a replaceable name");
    r = m_mod_register("fresh", &n2, &vf_hook, fl, NULL);
    VF_CHECK(r < 0 && n2 == NULL, "nor under a new name");
    VF_CHECK(m_ctx_len() == 1 && m_mod_is(A, M_MOD_RUNNING) && vf_nstop[0] == 0, "the existing module is untouched");
    VF_WITNESS("end");
    return 0;
}
