/* C07 (teardown): deregistering an idle context deregisters every module in it - RUNNING and PAUSED ones are stopped
 * through their stop callback, all become ZOMBIE - and releases the context: context calls fail with EPIPE afterwards,
 * the thread can register a fresh (empty) context, and once the user references on the modules are dropped everything
 * the library allocated has been released exactly once (allocator hook count).
 * Per job (heap-shape / call-order changing): NMOD (0..3), ST0..ST2 (state of each module at teardown: 0 IDLE,
 * 1 RUNNING, 2 PAUSED, 3 STOPPED, reached through real calls), PERSIST, CNDUP (context name duplicated), MNDUP (module
 * names duplicated), LOOPED (the context looped and returned before the teardown: IDLE modules were started by the
 * evaluation pass, PAUSED ones still have unread notifications in their pipe), DROP (the user dropped its module
 * references before the teardown: modules and context die inside m_ctx_deregister), CB (what a stop callback does
 * during the teardown: 0 nothing, 1 the first one that runs deregisters the module with the highest index through the
 * public call, 2 it calls m_ctx_deregister() itself - must not break the teardown in progress).
 * UDAUTO / NAUTO (M_CTX_USERDATA_AUTOFREE / M_CTX_NAME_AUTOFREE of the context, the name not being duplicated),
 * UD2AUTO (auto-free user data of the fresh context), TICK (period in ns of a context tick source, 0 = none; a
 * symbolic period forks on "ns != 0" inside m_ctx_set_tick and does not finish).
 * Symbolic: errno left by callbacks, module user data identity, quit code (LOOPED). */
#include "vf.h"
#include "vf_os.h"
#include <module/mod.h>
#include <module/ctx.h>
#ifndef NMOD
#define NMOD 2
#endif
#ifndef ST0
#define ST0 1
#endif
#ifndef ST1
#define ST1 0
#endif
#ifndef ST2
#define ST2 2
#endif
#ifndef PERSIST
#define PERSIST 1
#endif
#ifndef CNDUP
#define CNDUP 0
#endif
#ifndef MNDUP
#define MNDUP 0
#endif
#ifndef LOOPED
#define LOOPED 0
#endif
#ifndef DROP
#define DROP 0
#endif
#ifndef CB
#define CB 0
#endif
#ifndef TICK
#define TICK 0
#endif
#ifndef UDAUTO
#define UDAUTO 0
#endif
#ifndef NAUTO
#define NAUTO 0
#endif
#ifndef UD2AUTO
#define UD2AUTO 0
#endif
#if NAUTO && CNDUP
#error "NAUTO is about a name that is not duplicated"
#endif
#if LOOPED && NMOD == 0 && !PERSIST
#error "a non-persistent context without modules is released when its loop returns: nothing left to tear down"
#endif
#if CB == 1 && (DROP || NMOD < 2)
#error "CB=1 needs two retained modules"
#endif
#define VF_ACTION my_action
static void my_action(int who, int kind, struct _mod *m, const m_queue_t *q);
#include "l2.h"

#include "c07_common.h"
static char *cname; static void *cud, *ud2;
static char udcell[2];

static _Bool tearing; static int cb_done;
static m_mod_t *victim;
static void my_action(int who, int kind, m_mod_t *m, const m_queue_t *q) {
    (void)who; (void)m; (void)q;
#if CB == 1
    if (kind == VF_CB_STOP && tearing && !cb_done) {
        cb_done = 1;
        if (m != victim && !m_mod_is(victim, M_MOD_ZOMBIE)) {
            /* user code deregisters another module while the teardown walks the modules (on a reference of its own) */
            m_mod_t *v = m_mem_ref(victim);
            (void)m_mod_deregister(&v);
            VF_CHECK(m_mod_is(victim, M_MOD_ZOMBIE), "deregistration from inside a stop callback during the teardown");
        }
    }
#elif CB == 2
    if (kind == VF_CB_STOP && tearing && !cb_done) {
        cb_done = 1;
        (void)m_ctx_deregister();       /* whatever it answers, the teardown in progress must still be carried out */
    }
#endif
}

static const int st[3] = { ST0, ST1, ST2 };

int vf_main(void) {
    int r;
    c07_hook();
    cname = c07_user_block(0, 4); cname[0] = 'c'; cname[1] = 't'; cname[2] = 'x'; cname[3] = 0;
    cud = c07_user_block(1, 1);
    const _Bool ud_auto = UDAUTO, name_auto = NAUTO;   /* per job: a symbolic flag word makes the PERSIST / NAME_DUP tests inside the library symbolic */
    m_ctx_flags cfl = (PERSIST ? M_CTX_PERSIST : 0) | (CNDUP ? M_CTX_NAME_DUP : 0) | (ud_auto ? M_CTX_USERDATA_AUTOFREE : 0)
                      | (name_auto ? M_CTX_NAME_AUTOFREE : 0);
    r = m_ctx_register(cname, cfl, cud); VF_CHECK(r == 0, "a thread without a context registers one");
    VF_CHECK(m_ctx_len() == 0 && m_ctx_userdata() == cud, "fresh context is empty and carries the user data");
#if TICK
    { uint64_t ns = TICK; r = m_ctx_set_tick(ns); VF_CHECK(r == 0, "context tick configured"); }
#endif

    _Bool which_ud = nondet_bool();
    for (int i = 0; i < NMOD; i++) {
        r = m_mod_register(vf_names[i], &vf_mods[i], &vf_hook, MNDUP ? M_MOD_NAME_DUP : 0, &udcell[which_ud]);
        VF_CHECK(r == 0 && vf_mods[i] != NULL, "module registered");
    }
    VF_CHECK(m_ctx_len() == NMOD, "context counts its modules");
    vf_set_errno = true; vf_errno_after_cb = nondet_int();
    for (int i = 0; i < NMOD; i++) {
        if (st[i] >= 1) { r = m_mod_start(vf_mods[i]); VF_CHECK(r == 0, "start"); }
        if (st[i] == 2) { r = m_mod_pause(vf_mods[i]); VF_CHECK(r == 0, "pause"); }
        if (st[i] == 3) { r = m_mod_stop(vf_mods[i]); VF_CHECK(r == 0, "stop"); }
    }
#if LOOPED
    {
        unsigned char code = nondet_uchar();
        r = m_ctx_dispatch(); VF_CHECK(r == 0, "loop starts");
        r = m_ctx_deregister(); VF_CHECK(r < 0, "a looping context refuses to be deregistered");
        VF_CHECK(m_ctx_len() == NMOD, "refused deregistration leaves the modules alone");
        r = m_ctx_quit(code); VF_CHECK(r == 0, "quit");
        r = m_ctx_dispatch(); VF_CHECK(r == code, "loop returns the code");
#if NMOD > 0 || PERSIST
        VF_CHECK(m_ctx_len() == NMOD, "a context that still has modules (or is persistent) survives the end of its loop");
#endif
    }
#endif
    /* the states the teardown finds */
    _Bool active[3] = { 0, 0, 0 }; int base[3] = { 0, 0, 0 };
    for (int i = 0; i < NMOD; i++) {
        m_mod_states exp = st[i] == 0 ? (LOOPED ? M_MOD_RUNNING : M_MOD_IDLE) : st[i] == 1 ? M_MOD_RUNNING : st[i] == 2 ? M_MOD_PAUSED : M_MOD_STOPPED;
        VF_ASSUME(m_mod_is(vf_mods[i], exp));
        active[i] = exp == M_MOD_RUNNING || exp == M_MOD_PAUSED;
        base[i] = vf_nstop[i];
    }
#if NMOD > 0
    victim = vf_mods[NMOD - 1];
#endif
#if DROP
    /* the user does not retain anything: the pointers below are only compared, never dereferenced */
    for (int i = 0; i < NMOD; i++) m_mem_unref(vf_mods[i]);
#endif

    tearing = 1;
    r = m_ctx_deregister();
    tearing = 0;
    VF_CHECK(r == 0, "an idle context is deregistered");
    for (int i = 0; i < NMOD; i++) {
#if !DROP
        VF_CHECK(m_mod_is(vf_mods[i], M_MOD_ZOMBIE), "every module of a deregistered context is ZOMBIE");
        VF_CHECK(m_mod_userdata(vf_mods[i]) == &udcell[which_ud], "a zombie still answers the plain getters");
#endif
        if (active[i]) VF_CHECK(vf_nstop[i] - base[i] == 1, "a RUNNING or PAUSED module is stopped through its stop callback, exactly once");
    }
    VF_CHECK(m_ctx_len() == -EPIPE, "context calls fail with EPIPE once the context is released");
    VF_CHECK(m_ctx_name() == NULL && m_ctx_userdata() == NULL, "no context name / user data any more");
#if DROP
    VF_CHECK(live == 0, "nothing retained by the user: everything is released when m_ctx_deregister returns");
#endif

    /* the thread can start over */
    const _Bool ud2_auto = UD2AUTO;
    ud2 = c07_user_block(2, 1);
    r = m_ctx_register("fresh", ud2_auto ? M_CTX_USERDATA_AUTOFREE : 0, ud2);
    VF_CHECK(r == 0, "after the release the thread registers a fresh context");
    VF_CHECK(m_ctx_len() == 0 && m_ctx_userdata() == ud2, "the fresh context is empty and is the new one");
#if !DROP
    for (int i = 0; i < NMOD; i++) VF_CHECK(m_mod_is(vf_mods[i], M_MOD_ZOMBIE), "zombies of the old context stay zombies");
#endif
    r = m_ctx_deregister(); VF_CHECK(r == 0, "and deregisters it again");
    VF_CHECK(m_ctx_len() == -EPIPE, "released");
    VF_CHECK(c07_freed[2] == (ud2_auto ? 1 : 0), "user data of the fresh context released exactly once iff flagged auto-free");
    if (!ud2_auto) free(ud2);

#if !DROP
    for (int i = 0; i < NMOD; i++) m_mem_unref(vf_mods[i]);
#endif
    VF_CHECK(live == 0, "after the user references are dropped every library allocation has been released exactly once");
    VF_CHECK(c07_freed[1] == (ud_auto ? 1 : 0), "context user data released exactly once iff flagged auto-free");
    VF_CHECK(c07_freed[0] == (name_auto ? 1 : 0), "context name released exactly once iff flagged auto-free and not duplicated");
    if (!ud_auto) free(cud);
    if (!name_auto) free(cname);
    VF_WITNESS("end");
    return 0;
}
