/* C09: "sources survive pause/resume and restart of the loop, and all of them are dropped when the module is stopped" -
 * through the real stop()/start() paths of the whole core, by every route into STOPPED.
 * One source of each of several kinds plus a subscription on a RUNNING module.
 * Per job: ROUTE (0 stop while RUNNING, 1 pause then stop, 2 pause, resume, stop, 3 poison pill, 4 loop stopped and
 * restarted then stop).  Symbolic: errno left by callbacks, quit code. */
#include "vf.h"
#include "vf_os.h"
#include <module/mod.h>
#include <module/ctx.h>
#include "l2.h"
#ifndef ROUTE
#define ROUTE 0
#endif
int vf_main(void) {
    static char ud;
    unsigned char code = nondet_uchar();
    vf_set_errno = true; vf_errno_after_cb = nondet_int();
    vf_ctx(M_CTX_PERSIST);
    m_mod_t *A = vf_mod(0, 0, NULL), *B = vf_mod(1, 0, NULL);
    int r = m_mod_start(A); VF_CHECK(r == 0, "start A");
    r = m_mod_start(B); VF_CHECK(r == 0, "start B");
    int fd = vf_user_fd(); VF_ASSUME(fd >= 0);
    m_src_tmr_t tm = { CLOCK_MONOTONIC, 3000000 };
    m_src_sgn_t sg = { 12 };
    r = m_mod_src_register_fd(A, fd, 0, &ud); VF_CHECK(r == 0, "fd source");
    r = m_mod_src_register_tmr(A, &tm, 0, &ud); VF_CHECK(r == 0, "timer source");
    r = m_mod_src_register_sgn(A, &sg, 0, &ud); VF_CHECK(r == 0, "signal source");
    r = m_mod_ps_subscribe(A, "t", 0, &ud); VF_CHECK(r == 0, "subscription");
    VF_CHECK(m_mod_src_len(A, M_SRC_TYPE_END) == 4, "count equals the four registered sources");
    r = m_ctx_dispatch(); VF_CHECK(r == 0, "loop starts");
#if ROUTE == 1 || ROUTE == 2
    r = m_mod_pause(A); VF_CHECK(r == 0, "pause");
    VF_CHECK(m_mod_src_len(A, M_SRC_TYPE_END) == 4, "sources survive a pause");
#endif
#if ROUTE == 2
    r = m_mod_resume(A); VF_CHECK(r == 0, "resume");
    VF_CHECK(m_mod_src_len(A, M_SRC_TYPE_END) == 4, "sources survive pause/resume");
    VF_CHECK(m_mod_src_register_tmr(A, &tm, 0, &ud) == -EEXIST, "and are still keyed: same timer refused");
#endif
#if ROUTE == 4
    r = m_ctx_quit(code); r = m_ctx_dispatch(); VF_CHECK(r == code, "loop stops");
    r = m_ctx_dispatch(); VF_CHECK(r == 0, "loop restarts");
    VF_CHECK(m_mod_src_len(A, M_SRC_TYPE_END) == 4, "sources survive a restart of the loop");
#endif
#if ROUTE == 3
    r = m_mod_ps_poisonpill(B, A); VF_CHECK(r == 0, "pill"); r = m_ctx_dispatch();
#else
    r = m_mod_stop(A); VF_CHECK(r == 0, "stop");
#endif
    VF_CHECK(m_mod_is(A, M_MOD_STOPPED), "A is STOPPED");
    VF_CHECK(m_mod_src_len(A, M_SRC_TYPE_END) == 0, "every source is dropped when the module is stopped, whatever the route");
    r = m_mod_start(A); VF_CHECK(r == 0, "restart");
    VF_CHECK(m_mod_src_len(A, M_SRC_TYPE_END) == 0, "a restarted module has no sources");
    VF_CHECK(m_mod_src_register_tmr(A, &tm, 0, &ud) == 0 && m_mod_src_register_fd(A, fd, 0, &ud) == 0 && m_mod_src_register_sgn(A, &sg, 0, &ud) == 0, "the same keys register again (no stale entries)");
    VF_CHECK(m_mod_src_len(A, M_SRC_TYPE_END) == 3, "count follows");
    VF_WITNESS("end");
    return 0;
}
