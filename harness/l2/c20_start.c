/* C20 descriptor hygiene, start-up routes: the message pipe is created by start(); a refusing on_start() (or a module
 * that deregisters itself inside on_start()) sends the module straight to STOPPED / away: both pipe ends and every
 * descriptor of the sources registered beforehand must be closed, a user descriptor registered with auto-close on the
 * still IDLE module is closed exactly once (its source goes away when the module stops), one without is left alone.
 * Per job: PRE (0 no source, 1 fd source registered on the IDLE module, 2 timer registered on the IDLE module),
 * AC, HOW (0 m_mod_start() with on_start() returning false, 1 the same start performed by the loop's evaluation pass
 * at m_ctx_dispatch(), 2 on_start() deregisters the module, 3 on_start() accepts - control), AGAIN (1: after the refusal
 * the module is started again, this time accepted, and stopped: a second pipe is created and closed).
 * Symbolic: errno left by callbacks, timer clock. */
#include "vf.h"
#include "vf_os.h"
#include <module/mod.h>
#include <module/ctx.h>
#ifndef PRE
#define PRE 0
#endif
#ifndef AC
#define AC 0
#endif
#ifndef HOW
#define HOW 0
#endif
#ifndef AGAIN
#define AGAIN 0
#endif
#define VF_ACTION my_action
static void my_action(int who, int kind, struct _mod *m, const m_queue_t *q);
#include "l2.h"
#include "c20_oracle.c"

static int in_start;
static void my_action(int who, int kind, m_mod_t *m, const m_queue_t *q) {
    (void)q; (void)m;
    if (kind == VF_CB_START && who == 0) {
        in_start++;
        VF_CHECK(vf_lib_open() >= 3, "harness sanity: the pipe exists while on_start() runs");
        if (in_start == 1) c20_untouched(); else c20_invariant();
#if HOW == 2
        m_mod_t *ref = vf_mods[0];
        int r = m_mod_deregister(&ref); VF_CHECK(r == 0 && ref == NULL, "the module deregisters itself inside on_start()");
        c20_invariant();
#endif
    }
}

static char ud;
int vf_main(void) {
    int r;
    vf_ctx(0);
    m_mod_t *A = vf_mod(0, 0, NULL);
    vf_set_errno = true; vf_errno_after_cb = nondet_int();
    VF_CHECK(vf_lib_open() == 1, "harness sanity: only the poll handle so far");
    m_src_tmr_t t = { nondet_bool() ? CLOCK_MONOTONIC : CLOCK_REALTIME, 5000000 };
#if PRE == 1
    int ufd = c20_user_fd(AC);
    r = m_mod_src_register_fd(A, ufd, AC ? M_SRC_FD_AUTOCLOSE : 0, &ud); VF_CHECK(r == 0, "fd source on the IDLE module");
    c20_untouched();
#elif PRE == 2
    r = m_mod_src_register_tmr(A, &t, AC ? M_SRC_FD_AUTOCLOSE : 0, &ud); VF_CHECK(r == 0, "timer on the IDLE module");
    VF_CHECK(vf_lib_open() == 1, "harness sanity: no timerfd before the module runs");
#endif
    vf_start_ret[0] = (HOW == 3);
#if HOW == 1
    r = m_ctx_dispatch(); VF_CHECK(r == 0, "the loop starts and evaluates the IDLE module");
#else
    r = m_mod_start(A);
    if (HOW == 2) VF_CHECK(r == -ENOENT, "start reports the module deregistered itself"); else VF_CHECK(r == 0, "start (a refusal is not an error)");
#endif
    VF_CHECK(in_start == 1, "on_start() ran");
    c20_invariant();
#if HOW == 2
    A = NULL; vf_mods[0] = NULL;
#elif HOW == 3
    VF_CHECK(m_mod_is(A, M_MOD_RUNNING), "accepted: RUNNING");
    c20_untouched();
    r = m_mod_stop(A); VF_CHECK(r == 0, "stop");
#else
    VF_CHECK(m_mod_is(A, M_MOD_STOPPED), "refused: STOPPED");
#endif
    c20_user_settled();                 /* the sources went away with the stop */
#if AGAIN && HOW != 2
    vf_start_ret[0] = true;
    r = m_mod_start(A); VF_CHECK(r == 0 && m_mod_is(A, M_MOD_RUNNING), "second start accepted");
    VF_CHECK(in_start == 2, "on_start() ran again");
    r = m_mod_stop(A); VF_CHECK(r == 0, "stop again");
    c20_user_settled();
#endif
    if (A) { r = m_mod_deregister(&A); VF_CHECK(r == 0 && A == NULL, "deregister A"); }
    if (m_ctx_name() != NULL) { r = m_ctx_dispatch(); VF_CHECK(r == 0, "no module left: the loop stops"); }
    c20_final();
    VF_WITNESS("end");
    return 0;
}
