/* C07: "a looping context refuses to be deregistered; a non-persistent context that lost its last module is released
 * when the loop returns" - the callbacks run by the flush at loop stop (here: the handler of M_PS_CTX_STOPPED) are
 * still part of the loop.  ACT 1: the handler deregisters the LAST module of a non-persistent context; ACT 2: it calls
 * m_ctx_deregister().  The loop-stop code must not touch a released context (CBMC pointer checks / ASan in the native
 * replay); afterwards the loop call has returned the quit code and (ACT 1) the context is gone.
 * Symbolic: quit code, errno left by callbacks. */
#include "vf.h"
#include "vf_os.h"
#include <module/mod.h>
#include <module/ctx.h>
#define VF_ACTION my_action
#include "l2.h"
#ifndef ACT
#define ACT 1
#endif
static int act_r = 1, acted;
static m_mod_t *keep;
static void my_action(int who, int kind, m_mod_t *m, const m_queue_t *q) {
    if (who != 0 || kind != VF_CB_EVT || acted) return;
    _Bool stopped = 0;
    m_itr_foreach(q, { m_evt_t *e = m_itr_get(m_itr); if (e->type == M_SRC_TYPE_PS && e->ps_evt->topic && !strcmp(e->ps_evt->topic, M_PS_CTX_STOPPED)) stopped = 1; });
    if (!stopped) return;
    acted = 1;
#if ACT == 1
    act_r = m_mod_deregister(&vf_mods[0]);
#else
    act_r = m_ctx_deregister();
#endif
}
int vf_main(void) {
    unsigned char code = nondet_uchar();
    vf_set_errno = true; vf_errno_after_cb = nondet_int();
    vf_ctx(0);                                         /* NOT persistent */
    m_mod_t *A = vf_mod(0, 0, NULL);
#if ACT != 1
    keep = m_mem_ref(A);                               /* the block stays inspectable; vf_mods[0] is the user's handle */
#endif                                                 /* ACT 1: the handle given up in the handler is the ONLY reference */
    int r = m_mod_start(A); VF_CHECK(r == 0, "start A");
    r = m_mod_ps_subscribe(A, M_PS_CTX_STOPPED, 0, NULL); VF_CHECK(r == 0, "A subscribes to CTX_STOPPED");
    r = m_ctx_dispatch(); VF_CHECK(r == 0, "loop starts");
    r = m_ctx_quit(code); VF_CHECK(r == 0, "quit");
    r = m_ctx_dispatch();
    VF_CHECK(r == code, "the loop returns the requested code");
    VF_CHECK(acted, "the handler saw CTX_STOPPED in the loop-stop flush");
#if ACT == 1
    VF_CHECK(act_r == 0, "deregistering the last module from the flush is accepted");
    VF_CHECK(vf_mods[0] == NULL, "the handle was cleared");
    VF_CHECK(m_ctx_name() == NULL, "the context, now without modules, was released when the loop returned");
#else
    VF_CHECK(act_r < 0, "the context refuses to be deregistered from a callback of its own loop");
    VF_CHECK(m_ctx_name() != NULL && m_mod_is(keep, M_MOD_RUNNING), "... and nothing was torn down");
#endif
    VF_WITNESS("end");
    return 0;
}
