/* C20 shared part of the descriptor-hygiene scenarios (textually included by the c20_*.c harnesses, never compiled
 * on its own): the book-keeping of user-supplied descriptors and the oracle over the OS model's ghost state
 *   vf_lib_open()      number of library-owned descriptors still open (pipes, epoll, timerfd, signalfd, inotify,
 *                      pidfd, eventfd, duplicates made by the library),
 *   vf_user_close[fd]  how often the library closed a descriptor the user opened,
 *   vf_bad_close       close() of a descriptor that is not open (double close / close of a stale number). */
#ifndef C20_ORACLE
#define C20_ORACLE
#define C20_NUFD 3
static int c20_ufd[C20_NUFD];
static _Bool c20_expect_closed[C20_NUFD];
static int c20_nufd;

/* a descriptor opened by the user; expect_closed = the property says the library closes it (exactly once) */
static int c20_user_fd(_Bool expect_closed) {
    int fd = vf_user_fd();
    VF_ASSUME(fd >= 0 && c20_nufd < C20_NUFD);
    c20_ufd[c20_nufd] = fd; c20_expect_closed[c20_nufd] = expect_closed; c20_nufd++;
    return fd;
}
/* holds at every point of every scenario */
static void c20_invariant(void) {
    VF_CHECK(vf_bad_close == 0, "the library never closes a descriptor that is not open (no double close, no stale number)");
    for (int i = 0; i < C20_NUFD; i++) if (i < c20_nufd) {
        int fd = c20_ufd[i];
        VF_CHECK(vf_user_close[fd] <= (c20_expect_closed[i] ? 1 : 0), "a user descriptor is closed at most once, and only if registered with auto-close");
    }
}
/* the source is still registered and its module alive: nothing of the user's has been closed yet */
static void c20_untouched(void) {
    c20_invariant();
    for (int i = 0; i < C20_NUFD; i++) if (i < c20_nufd)
        VF_CHECK(vf_user_close[c20_ufd[i]] == 0 && vf_is_open(c20_ufd[i]), "a user descriptor stays open while its source is registered and its module not stopped");
}
/* the source is deregistered / its module stopped and no event of it is held any more */
static void c20_user_settled(void) {
    c20_invariant();
    for (int i = 0; i < C20_NUFD; i++) if (i < c20_nufd) {
        int fd = c20_ufd[i];
        if (c20_expect_closed[i]) {
            VF_CHECK(vf_user_close[fd] == 1, "auto-close: the user descriptor is closed exactly once when the source is deregistered or its module stops");
            VF_CHECK(!vf_is_open(fd), "auto-close: the user descriptor is closed");
        } else {
            VF_CHECK(vf_user_close[fd] == 0, "without auto-close the library never closes the user descriptor");
            VF_CHECK(vf_is_open(fd), "without auto-close the user descriptor is still open");
        }
    }
}
/* modules and context gone, every user-held reference dropped */
static void c20_final(void) {
    VF_CHECK(m_ctx_name() == NULL, "the context has been released");
    VF_CHECK(vf_lib_open() == 0, "no descriptor opened by the library is left open once module and context are gone and all references dropped");
    c20_user_settled();
}
/* the library's duplicate of a user descriptor (DUP): the only library-owned slot of user kind */
static int c20_find_dup(void) {
    for (int i = 3; i < VF_NFD; i++) if (vf_fds[i].kind == VF_USER && vf_fds[i].lib_owned) return i;
    return -1;
}
#endif
