/* C15 (b, c): names are unique within a context; replacement; persistent modules.
 * A first module is registered under the name "a" with flags FL1 and brought to state ST1 (0 IDLE, 1 RUNNING, 2 PAUSED,
 * 3 STOPPED); the context is persistent or not (CTXP), looping or idle (LOOPING), another module "b" exists or not
 * (HASB); the user keeps the reference to the first module or not (KEEPREF).  Then
 *   NREG >= 2: the name (equal content, different pointer) is registered again, NREG-1 times; registrations 2..NREG-1
 *              carry M_MOD_ALLOW_REPLACE themselves, the last one carries no flag and one more attempt follows it.
 *     existing module without ALLOW_REPLACE -> -EEXIST, the out-parameter untouched, the existing module untouched
 *       (state, stop-callback count, still the one found under the name, table size unchanged);
 *     with ALLOW_REPLACE -> 0: the old one is deregistered first (ZOMBIE, its on_stop ran if it was RUNNING, it is no
 *       longer found), the new one is registered (found under the name, IDLE, table size unchanged) and usable
 *       (m_mod_start works, it runs) - for EVERY flags / state / context combination (property text).
 *   DEREG: m_mod_deregister() of the first module: with M_MOD_PERSIST while the context loops it fails and changes
 *     nothing; otherwise it succeeds.
 * All flags / states / orders are per-job constants (heap shape); symbolic: errno left by callbacks, quit code. */
#include "vf.h"
#include "vf_os.h"
#include <module/mod.h>
#include <module/ctx.h>
#define VF_NMOD 6                                  /* recording slots: 0 the first holder of the name, 1 "b", 1+i the i-th later registration */
#include "l2.h"
#ifndef FL1
#define FL1 0
#endif
#ifndef ST1
#define ST1 1
#endif
#ifndef LOOPING
#define LOOPING 1
#endif
#ifndef CTXP
#define CTXP 1
#endif
#ifndef HASB
#define HASB 1
#endif
#ifndef NREG
#define NREG 2
#endif
#ifndef KEEPREF
#define KEEPREF 1
#endif
#ifndef DEREG
#define DEREG 0
#endif
#define REPLACEABLE(fl) (((fl) & M_MOD_ALLOW_REPLACE) != 0)

static const char name1[] = "a", name2[] = "a", name3[] = "a", name4[] = "a", name5[] = "a";
static const char *const names[5] = { name1, name2, name3, name4, name5 };

int vf_main(void) {
    unsigned char code = nondet_uchar();
    vf_set_errno = true; vf_errno_after_cb = nondet_int();
    for (int i = 0; i < VF_NMOD; i++) { vf_start_ret[i] = true; vf_eval_ret[i] = true; }
    vf_ctx(CTXP ? M_CTX_PERSIST : 0);
    int r, nmods = 1;
    m_mod_t *B = NULL;
#if HASB
    B = vf_mod(1, 0, NULL); nmods = 2;
    r = m_mod_start(B); VF_CHECK(r == 0, "start b");
#endif
    m_mod_t *A = NULL;
    vf_eval_ret[0] = false;                        /* the loop does not start the first module by itself */
    r = m_mod_register(names[0], &A, &vf_hook, (m_mod_flags)(FL1), NULL); VF_ASSUME(r == 0 && A != NULL);
    vf_mods[0] = A;
#if ST1 >= 1
    r = m_mod_start(A); VF_CHECK(r == 0, "start the first");
#endif
#if ST1 == 2
    r = m_mod_pause(A); VF_CHECK(r == 0, "pause the first");
#elif ST1 == 3
    r = m_mod_stop(A); VF_CHECK(r == 0, "stop the first");
#endif
    const m_mod_states st1 = ST1 == 0 ? M_MOD_IDLE : ST1 == 1 ? M_MOD_RUNNING : ST1 == 2 ? M_MOD_PAUSED : M_MOD_STOPPED;
#if LOOPING
    r = m_ctx_dispatch(); VF_CHECK(r == 0, "loop starts");
#endif
#if !KEEPREF
    /* the user drops the handle: the context's table holds the only reference */
    { m_mod_t *tmp = A; m_mem_unref(tmp); }
#endif
    VF_CHECK(m_ctx_len() == nmods, "table size before");

#if DEREG
    {
        int nstop0 = vf_nstop[0];
        m_mod_t *ref = A;
        r = m_mod_deregister(&ref);
        if (((FL1) & M_MOD_PERSIST) && LOOPING) {
            VF_CHECK(r < 0, "a persistent module cannot be deregistered by a direct call while its context loops");
            VF_CHECK(ref == A && A->state == st1 && vf_nstop[0] == nstop0, "... and nothing changes: handle, state, no stop callback");
            VF_CHECK(m_ctx_len() == nmods && m_mod_lookup(A, names[1]) == A, "... it is still registered");
        } else {
            VF_CHECK(r == 0 && ref == NULL, "otherwise the direct deregistration succeeds");
            VF_CHECK(m_ctx_len() == nmods - 1 || (!CTXP && !LOOPING && nmods == 1), "... and the module is gone from the context");
        }
        VF_WITNESS("dereg");
        return 0;
    }
#else
    m_mod_t *cur = A;                               /* the live holder of the name */
    m_mod_flags curfl = (m_mod_flags)(FL1);
    m_mod_states curst = st1;
    int curslot = 0;
    for (int i = 1; i <= NREG - 1 + (NREG > 2); i++) {
        /* registrations 2..NREG-1 are themselves replaceable, the NREG-th is not, a last attempt follows when NREG > 2 */
        m_mod_flags fl = (i < NREG - 1) ? M_MOD_ALLOW_REPLACE : 0;
        m_mod_t *nw = NULL;
        int nstop0 = vf_nstop[curslot];
        r = m_mod_register(names[i], &nw, &vf_hook, fl, NULL);
        if (!REPLACEABLE(curfl)) {
            VF_CHECK(r == -EEXIST, "a second module under a live name is refused with EEXIST");
            VF_CHECK(nw == NULL, "... no handle is handed out");
            if (KEEPREF || cur != A) {
                VF_CHECK(cur->state == curst && vf_nstop[curslot] == nstop0, "... the existing module is untouched");
                VF_CHECK(m_mod_lookup(cur, names[0]) == cur, "... and still the one registered under the name");
            }
            VF_CHECK(m_ctx_len() == nmods, "... table size unchanged");
        } else {
            VF_CHECK(r == 0 && nw != NULL && nw != cur, "the existing module allows replacement: the new registration succeeds");
            if (KEEPREF || cur != A) {
                VF_CHECK(m_mod_is(cur, M_MOD_ZOMBIE), "... the old module was deregistered first");
                if (curst == M_MOD_RUNNING) VF_CHECK(vf_nstop[curslot] == nstop0 + 1, "... its stop callback ran (it was RUNNING)");
            }
            VF_CHECK(m_ctx_len() == nmods, "... table size unchanged: one out, one in");
            VF_CHECK(m_mod_lookup(nw, names[0]) == nw, "... the new module is the one found under the name");
            VF_CHECK(m_mod_is(nw, M_MOD_IDLE), "... and starts its life IDLE");
            vf_mods[1 + i] = nw;
            r = m_mod_start(nw);
            VF_CHECK(r == 0 && m_mod_is(nw, M_MOD_RUNNING), "... and is a working module of the context");
            cur = nw; curfl = fl; curst = M_MOD_RUNNING; curslot = 1 + i;
        }
    }
#if LOOPING
    r = m_ctx_quit(code); VF_CHECK(r == 0, "quit");
    r = m_ctx_dispatch(); VF_CHECK(r == code, "loop ends");
#endif
    VF_WITNESS("end");
    return 0;
#endif
}
