/* C03 / C01: two sources of two modules are ready in the SAME poll batch; the handler that runs first pauses, stops or
 * deregisters the other module, or deregisters the other module's source (ACT 1..4, per job; DESC = report order).
 * "An event is handed to its owner only while that module is RUNNING" and "no event handler ever runs for a module
 * that is not RUNNING": the second event of the batch must not be delivered - and nothing freed may be touched
 * (CBMC pointer checks / ASan in the native replay).  A paused owner gets its event after the resume.
 * Symbolic: errno left by callbacks, quit code. */
#include "vf.h"
#include "vf_os.h"
#include <module/mod.h>
#include <module/ctx.h>
#define VF_ACTION my_action
#include "l2.h"
#ifndef ACT
#define ACT 1
#endif
#ifndef DESC
#define DESC 0
#endif
static char ud[2];
static int fds[2], acted, act_r = -1;
static m_mod_t *keep[2];
static void my_action(int who, int kind, m_mod_t *m, const m_queue_t *q) {
    (void)q; (void)m;
    if (kind != VF_CB_EVT || acted || who > 1) return;
    acted = 1;
    m_mod_t *other = vf_mods[1 - who];
    switch (ACT) {
    case 1: act_r = m_mod_pause(other); break;
    case 2: act_r = m_mod_stop(other); break;
    case 3: { m_mod_t *ref = other; act_r = m_mod_deregister(&ref); break; }
    default: act_r = m_mod_src_deregister_fd(other, fds[1 - who]); break;
    }
}
int vf_main(void) {
    unsigned char code = nondet_uchar();
    vf_set_errno = true; vf_errno_after_cb = nondet_int();
    vf_ctx(M_CTX_PERSIST);
    int r;
    for (int i = 0; i < 2; i++) {
        m_mod_t *m = vf_mod(i, 0, NULL);
        keep[i] = m_mem_ref(m);                       /* the user keeps a handle: the block outlives a deregistration */
        r = m_mod_start(m); VF_CHECK(r == 0, "start");
        fds[i] = vf_user_fd(); VF_ASSUME(fds[i] >= 0);
        r = m_mod_src_register_fd(m, fds[i], 0, &ud[i]); VF_CHECK(r == 0, "register fd source");
    }
    r = m_ctx_dispatch(); VF_CHECK(r == 0, "loop starts");
    vf_epoll_desc = DESC;
    vf_fds[fds[0]].ready = true; vf_fds[fds[1]].ready = true;
    r = m_ctx_dispatch();
    VF_CHECK(acted && act_r == 0, "the first handler ran and its call on the other module succeeded");
    VF_CHECK(vf_nlog[0] + vf_nlog[1] == 1, "only the first event of the batch is delivered: the owner of the second is no longer RUNNING (or its source is gone)");
    VF_CHECK(vf_evt_not_running == 0, "no handler ran for a module that is not RUNNING");
    const int first = vf_nlog[0] ? 0 : 1, second = 1 - first;
    VF_CHECK(vf_log[first][0].type == M_SRC_TYPE_FD && vf_log[first][0].ival == fds[first] && vf_log[first][0].userdata == &ud[first], "the delivered event is the first one's, with its user data");
#if ACT == 1
    vf_fds[fds[first]].ready = false;
    r = m_mod_resume(keep[second]); VF_CHECK(r == 0, "resume the other");
    r = m_ctx_dispatch();
    VF_CHECK(vf_nlog[second] == 1 && vf_log[second][0].ival == fds[second] && vf_log[second][0].userdata == &ud[second], "after the resume the still-ready source is delivered, once");
#else
    vf_fds[fds[first]].ready = false;
    r = m_ctx_dispatch();
    VF_CHECK(vf_nlog[second] == 0, "nothing for the stopped / deregistered / source-less module afterwards either");
#endif
    r = m_ctx_quit(code); VF_CHECK(r == 0, "quit");
    r = m_ctx_dispatch(); VF_CHECK(r == code, "loop ends with the code");
    VF_WITNESS("end");
    return 0;
}
