/* C07 (guards): each thread has at most one context (a second registration fails with EEXIST and changes nothing);
 * a looping context refuses to be deregistered; after m_ctx_finalize() no further module can be registered; context
 * calls and module operations issued on a thread that has no context fail with an error and have no effect.
 * Per job: G
 *   0 second registration: on an idle context, on a looping one and from inside a handler; every flag word / name /
 *     user data for the refused registration (symbolic, nothing is allocated on the refused path)
 *   1 looping context refuses m_ctx_deregister (between dispatch calls and from inside a handler), modules stay
 *     RUNNING; once the loop has returned the same call succeeds
 *   2 m_ctx_finalize then m_mod_register (any flag word) fails, nothing registered; the modules already there are
 *     untouched; a fresh context registered afterwards is not finalised
 *   3 context-less thread (simulated thread 1, the OS model keeps thread-specific data per simulated thread): the menu
 *     of context calls and of module / pub-sub / source / stash / batch calls on modules of thread 0, with symbolic
 *     arguments: each returns a negative code (NULL for pointer-returning calls) and leaves the module, its context
 *     and the thread without context unchanged.  BST (state of the second module: 0 IDLE, 1 RUNNING, 2 PAUSED,
 *     3 STOPPED), LOOP0 (thread 0's context is looping meanwhile), SHORT (companion: four state-changing calls with
 *     concrete arguments, so that a regressed thread check fails quickly instead of timing out)
 *   4 two threads with one context each: the second registration is refused on both, deregistering one leaves the
 *     other alone
 *   5 the first library calls of the process come from a thread without context (no context was ever registered, so
 *     the library's thread-specific key does not exist yet) while another component owns thread-specific slot 0
 *     (c07_os_model.c): same menu of context calls; nothing may be read or written through a key that was never
 *     created, the foreign slot's data stays untouched; afterwards the thread registers a context normally
 * Symbolic: refused flag words, user data, call arguments (descriptor, timer period, signal, pid, rate, burst, batch
 * size, timeout, quit code, tick period), errno left by handlers. */
#include "vf.h"
#include "vf_os.h"
#include <module/mod.h>
#include <module/ctx.h>
#ifndef G
#define G 0
#endif
#ifndef BST
#define BST 1
#endif
#ifndef LOOP0
#define LOOP0 0
#endif
/* FLFIXED: companion jobs with the refused flag words concrete (a regression that lets the refused call through makes
 * the symbolic-flag job time out instead of failing) */
#ifdef FLFIXED
#define FLAGWORD() ((unsigned)FLFIXED)
#else
#define FLAGWORD() nondet_uint()
#endif
#define VF_ACTION my_action
static void my_action(int who, int kind, struct _mod *m, const m_queue_t *q);
#include "l2.h"
#include "c07_common.h"
#if G == 5
extern int c07_foreign_reads, c07_foreign_writes; extern long long c07_foreign_tsd[64];
#endif

static int cb_reg = 1, cb_dereg = 1, cb_calls;
static unsigned cb_flags; static const void *cb_ud;
static void my_action(int who, int kind, m_mod_t *m, const m_queue_t *q) {
    (void)who; (void)m; (void)q;
    if (kind != VF_CB_EVT) return;
    cb_calls++;
#if G == 0
    cb_reg = m_ctx_register("inner", (m_ctx_flags)cb_flags, cb_ud);
#elif G == 1
    cb_dereg = m_ctx_deregister();
#endif
}
static void other_evt(m_mod_t *m, const m_queue_t *const q) { (void)m; (void)q; }
int my_task(void *arg) { (void)arg; return 0; }
static void my_logger(const m_mod_t *mod, const char *fmt, va_list args) { (void)mod; (void)fmt; (void)args; }

/* what "no effect" is measured on */
typedef struct {
    m_mod_states state; m_mod_flags flags; uint64_t tokens, burst, action_ctr, sent, recv, last_seen; size_t batch_len; uint64_t batch_ns, tb_ns;
    ssize_t subs, recvs, stashed, bound, batched, srcs[M_SRC_TYPE_END]; int fd0, fd1; const void *ud; const char *name; size_t refs_probe;
} mod_snap_t;
typedef struct {
    m_ctx_states state; _Bool quit, finalized; uint8_t quit_code; m_log_cb logger; ssize_t mods; size_t running; const void *tick_src; uint64_t tick_ns;
    m_mod_t *curr; const void *ud; const char *name; m_ctx_flags flags;
} ctx_snap_t;
static mod_snap_t snap_mod(const m_mod_t *m) {
    mod_snap_t s;
    memset(&s, 0, sizeof(s));
    s.state = m->state; s.flags = m->flags; s.tokens = m->tb.tokens; s.burst = m->tb.burst; s.action_ctr = m->stats.action_ctr;
    s.sent = m->stats.sent_msgs; s.recv = m->stats.recv_msgs; s.last_seen = m->stats.last_seen; s.batch_len = m->batch.len;
    s.batch_ns = m->batch.timer.ns; s.tb_ns = m->tb.timer.ns;
    s.subs = m_map_len(m->subscriptions); s.recvs = m_stack_len(m->recvs); s.stashed = m_queue_len(m->stashed);
    s.bound = m_list_len(m->bound_mods); s.batched = m_queue_len(m->batch.events);
    for (int i = 0; i < M_SRC_TYPE_END; i++) s.srcs[i] = m_bst_len(m->srcs[i]);
    s.fd0 = m->pubsub_fd[0]; s.fd1 = m->pubsub_fd[1]; s.ud = m->userdata; s.name = m->name;
    return s;
}
static _Bool same_mod(const mod_snap_t *a, const mod_snap_t *b) {
    _Bool ok = a->state == b->state && a->flags == b->flags && a->tokens == b->tokens && a->burst == b->burst && a->action_ctr == b->action_ctr
        && a->sent == b->sent && a->recv == b->recv && a->last_seen == b->last_seen && a->batch_len == b->batch_len && a->batch_ns == b->batch_ns
        && a->tb_ns == b->tb_ns && a->subs == b->subs && a->recvs == b->recvs && a->stashed == b->stashed && a->bound == b->bound
        && a->batched == b->batched && a->fd0 == b->fd0 && a->fd1 == b->fd1 && a->ud == b->ud && a->name == b->name;
    for (int i = 0; i < M_SRC_TYPE_END; i++) ok = ok && a->srcs[i] == b->srcs[i];
    return ok;
}
static ctx_snap_t snap_ctx(const m_ctx_t *c) {
    ctx_snap_t s;
    memset(&s, 0, sizeof(s));
    s.state = c->state; s.quit = c->quit; s.finalized = c->finalized; s.quit_code = c->quit_code; s.logger = c->logger;
    s.mods = m_map_len(c->modules); s.running = c->stats.running_modules; s.tick_src = c->tick.src; s.tick_ns = c->tick.tmr.ns;
    s.curr = c->curr_mod; s.ud = c->userdata; s.name = c->name; s.flags = c->flags;
    return s;
}
static _Bool same_ctx(const ctx_snap_t *a, const ctx_snap_t *b) {
    return a->state == b->state && a->quit == b->quit && a->finalized == b->finalized && a->quit_code == b->quit_code && a->logger == b->logger
        && a->mods == b->mods && a->running == b->running && a->tick_src == b->tick_src && a->tick_ns == b->tick_ns && a->curr == b->curr
        && a->ud == b->ud && a->name == b->name && a->flags == b->flags;
}
static int open_fds(void) { int n = 0; for (int i = 3; i < VF_NFD; i++) if (vf_fds[i].kind != VF_FREE) n++; return n; }

static char ud0, ud1;

/* every context call, issued on a thread that has no context */
static void ctx_menu(void) {
    unsigned char code = nondet_uchar(); uint64_t tick = nondet_u64(); m_ctx_stats_t cst;
    VF_CHECK(m_ctx_deregister() < 0, "no context: m_ctx_deregister");
    VF_CHECK(m_ctx_set_logger(my_logger) < 0, "no context: m_ctx_set_logger");
    VF_CHECK(m_ctx_loop() < 0, "no context: m_ctx_loop");
    VF_CHECK(m_ctx_quit(code) < 0, "no context: m_ctx_quit");
    VF_CHECK(m_ctx_fd() < 0, "no context: m_ctx_fd");
    VF_CHECK(m_ctx_dispatch() < 0, "no context: m_ctx_dispatch");
    VF_CHECK(m_ctx_dump() < 0, "no context: m_ctx_dump");
    VF_CHECK(m_ctx_stats(&cst) < 0, "no context: m_ctx_stats");
    VF_CHECK(m_ctx_len() == -EPIPE, "no context: m_ctx_len fails with EPIPE");
    VF_CHECK(m_ctx_finalize() < 0, "no context: m_ctx_finalize");
    VF_CHECK(m_ctx_set_tick(tick) < 0, "no context: m_ctx_set_tick");
    VF_CHECK(m_ctx_name() == NULL && m_ctx_userdata() == NULL, "no context: no name, no user data");
}


int vf_main(void) {
    int r;
    c07_hook();
    vf_set_errno = true; vf_errno_after_cb = nondet_int();

#if G == 0
    /* ------------------------------------------------------------------ second registration */
    r = m_ctx_register("first", M_CTX_PERSIST, &ud0); VF_CHECK(r == 0, "first context registered");
    m_mod_t *A = vf_mod(0, 0, NULL);
    r = m_mod_start(A); VF_CHECK(r == 0, "start");
    r = m_mod_ps_tell(A, A, "go", 0); VF_CHECK(r == 0, "tell");
    m_ctx_t *c0 = A->ctx;
    ctx_snap_t before = snap_ctx(c0), after;
    unsigned fl = FLAGWORD(); const void *ud = nondet_bool() ? (const void *)&ud1 : NULL;
    long live0 = live;
    r = m_ctx_register("second", (m_ctx_flags)fl, ud);
    VF_CHECK(r == -EEXIST, "a second context on the thread is refused with EEXIST (idle context, any flags)");
    after = snap_ctx(c0);
    VF_CHECK(same_ctx(&before, &after) && live == live0, "the refused registration changed nothing");
    VF_CHECK(m_ctx_name() == before.name && m_ctx_userdata() == &ud0 && m_ctx_len() == 1, "the thread's context is still the first one");
    cb_flags = FLAGWORD(); cb_ud = ud;
    r = m_ctx_dispatch(); VF_CHECK(r == 0, "loop starts");
    before = snap_ctx(c0); live0 = live;
    r = m_ctx_register("third", (m_ctx_flags)fl, ud);
    VF_CHECK(r == -EEXIST, "refused with EEXIST on a looping context too");
    after = snap_ctx(c0);
    VF_CHECK(same_ctx(&before, &after) && live == live0, "the refused registration changed nothing (looping)");
    r = m_ctx_dispatch(); VF_CHECK(r == 1 && cb_calls == 1, "the handler ran");
    VF_CHECK(cb_reg == -EEXIST, "refused with EEXIST from inside a handler");
    VF_CHECK(m_ctx_userdata() == &ud0 && m_ctx_len() == 1 && m_mod_is(A, M_MOD_RUNNING), "still the first context, module untouched");
    unsigned char code = nondet_uchar();
    r = m_ctx_quit(code); VF_CHECK(r == 0, "quit");
    r = m_ctx_dispatch(); VF_CHECK(r == code, "loop returns");
    r = m_mod_deregister(&vf_mods[0]); VF_CHECK(r == 0, "deregister A");
    r = m_ctx_deregister(); VF_CHECK(r == 0, "the persistent context is deregistered");
    VF_CHECK(live == 0, "everything released");
    VF_WITNESS("end");

#elif G == 1
    /* ------------------------------------------------------------------ a looping context refuses to go */
    r = m_ctx_register("ctx", 0, &ud0); VF_CHECK(r == 0, "context registered");
    m_mod_t *A = vf_mod(0, 0, NULL), *B = vf_mod(1, 0, NULL);
    r = m_mod_start(A); VF_CHECK(r == 0, "start A");
    r = m_mod_ps_tell(A, A, "go", 0); VF_CHECK(r == 0, "tell");
    r = m_ctx_dispatch(); VF_CHECK(r == 0, "loop starts (B is started by the evaluation pass)");
    m_ctx_t *c0 = A->ctx;
    ctx_snap_t before = snap_ctx(c0), after;
    long live0 = live;
    r = m_ctx_deregister(); VF_CHECK(r < 0, "a looping context refuses to be deregistered (between dispatch calls)");
    after = snap_ctx(c0);
    VF_CHECK(same_ctx(&before, &after) && live == live0, "the refused deregistration changed nothing");
    VF_CHECK(m_mod_is(A, M_MOD_RUNNING) && m_mod_is(B, M_MOD_RUNNING) && vf_nstop[0] == 0 && vf_nstop[1] == 0, "modules keep running");
    r = m_ctx_dispatch(); VF_CHECK(r == 1 && cb_calls == 1, "the handler ran");
    VF_CHECK(cb_dereg < 0, "a looping context refuses to be deregistered (from inside a handler)");
    VF_CHECK(m_ctx_len() == 2 && m_ctx_userdata() == &ud0, "context still there with its modules");
    VF_CHECK(m_mod_is(A, M_MOD_RUNNING) && m_mod_is(B, M_MOD_RUNNING) && vf_nstop[0] == 0 && vf_nstop[1] == 0, "modules keep running");
    unsigned char code = nondet_uchar();
    r = m_ctx_quit(code); VF_CHECK(r == 0, "quit");
    r = m_ctx_deregister(); VF_CHECK(r < 0, "still looping until the loop has returned");
    r = m_ctx_dispatch(); VF_CHECK(r == code, "loop returns the code");
    VF_CHECK(m_ctx_len() == 2, "a context with modules survives the end of its loop");
    /* (the teardown of a context that has modules is the subject of c07_teardown.c) */
    r = m_mod_deregister(&vf_mods[0]); VF_CHECK(r == 0, "deregister A");
    r = m_mod_deregister(&vf_mods[1]); VF_CHECK(r == 0, "deregister B: last module of an idle non-persistent context");
    VF_CHECK(m_ctx_len() == -EPIPE, "released");
    VF_CHECK(live == 0, "everything released");
    VF_WITNESS("end");

#elif G == 2
    /* ------------------------------------------------------------------ finalize gate */
    r = m_ctx_register("ctx", M_CTX_PERSIST, &ud0); VF_CHECK(r == 0, "context registered");
    m_mod_t *A = vf_mod(0, 0, NULL);
    r = m_mod_start(A); VF_CHECK(r == 0, "start A");
    r = m_ctx_finalize(); VF_CHECK(r == 0, "finalize");
    m_ctx_t *c0 = A->ctx;
    ctx_snap_t before = snap_ctx(c0), after; mod_snap_t mb = snap_mod(A), ma;
    long live0 = live;
    unsigned mfl = FLAGWORD();
    m_mod_t *N = NULL;
    r = m_mod_register("n", &N, &vf_hook, (m_mod_flags)mfl, &ud1);
    VF_CHECK(r < 0, "no module can be registered in a finalised context (any flags)");
    VF_CHECK(N == NULL && m_ctx_len() == 1 && live == live0, "nothing was registered");
    r = m_mod_register(vf_names[0], &N, &vf_hook, (m_mod_flags)mfl, &ud1);
    VF_CHECK(r < 0 && N == NULL, "nor under the name of an existing module");
    after = snap_ctx(c0); ma = snap_mod(A);
    VF_CHECK(same_ctx(&before, &after) && same_mod(&mb, &ma) && live == live0, "the refused registrations changed nothing");
    r = m_ctx_finalize(); VF_CHECK(r == 0, "finalising twice is harmless");
    r = m_ctx_dispatch(); VF_CHECK(r == 0, "a finalised context loops");
    r = m_mod_register("n", &N, &vf_hook, (m_mod_flags)mfl, &ud1);
    VF_CHECK(r < 0 && N == NULL && m_ctx_len() == 1, "refused while looping too");
    unsigned char code = nondet_uchar();
    r = m_ctx_quit(code); VF_CHECK(r == 0, "quit");
    r = m_ctx_dispatch(); VF_CHECK(r == code, "loop returns");
    r = m_mod_deregister(&vf_mods[0]); VF_CHECK(r == 0, "modules can still be deregistered");
    r = m_ctx_deregister(); VF_CHECK(r == 0, "context deregistered");
    VF_CHECK(live == 0, "everything released");
    r = m_ctx_register("fresh", M_CTX_PERSIST, NULL); VF_CHECK(r == 0, "fresh context");
    r = m_mod_register("n", &N, &vf_hook, 0, &ud1);
    VF_CHECK(r == 0 && N != NULL && m_ctx_len() == 1, "the fresh context is not finalised");
    r = m_mod_deregister(&N); VF_CHECK(r == 0, "deregister it");
    r = m_ctx_deregister(); VF_CHECK(r == 0, "and the fresh context");
    VF_CHECK(live == 0, "everything released");
    VF_WITNESS("end");

#elif G == 3
    /* ------------------------------------------------------------------ thread without a context */
    r = m_ctx_register("ctx", M_CTX_PERSIST, &ud0); VF_CHECK(r == 0, "context registered on thread 0");
    m_mod_t *A = vf_mod(0, 0, &ud0), *B = vf_mod(1, 0, &ud1);
    r = m_mod_start(A); VF_CHECK(r == 0, "start A");
    if (BST >= 1) { r = m_mod_start(B); VF_CHECK(r == 0, "start B"); }
    if (BST == 2) { r = m_mod_pause(B); VF_CHECK(r == 0, "pause B"); }
    if (BST == 3) { r = m_mod_stop(B); VF_CHECK(r == 0, "stop B"); }
    r = m_mod_ps_subscribe(A, "t", 0, NULL); VF_CHECK(r == 0, "A subscribes");
    int ufd = vf_user_fd(); VF_ASSUME(ufd >= 0);
    r = m_mod_src_register_fd(A, ufd, 0, NULL); VF_CHECK(r == 0, "A registers a descriptor");
    m_src_tmr_t tm0 = { CLOCK_MONOTONIC, 1000000 };
    r = m_mod_src_register_tmr(A, &tm0, 0, NULL); VF_CHECK(r == 0, "A registers a timer");
#if LOOP0
    r = m_ctx_dispatch(); VF_CHECK(r == 0, "thread 0's context loops");
#endif
    m_ctx_t *c0 = A->ctx;
    ctx_snap_t cb = snap_ctx(c0), ca; mod_snap_t ab = snap_mod(A), bb = snap_mod(B), aa, ba;
    long live0 = live; int fds0 = open_fds(); int starts = vf_nstart[0] + vf_nstart[1], stops = vf_nstop[0] + vf_nstop[1], evts = vf_ncalls[0] + vf_ncalls[1];

    vf_cur_thread = 1;                 /* from here on the calls come from a thread that never registered a context */
#ifdef SHORT
    /* companion job: a few state-changing calls with concrete arguments on the RUNNING module only (if the thread check
     * regresses the calls go through: with symbolic arguments that is a time-out, here it is a quick failure) */
    VF_CHECK(m_ctx_len() == -EPIPE && m_ctx_finalize() < 0, "no context: m_ctx_len / m_ctx_finalize");
    VF_CHECK(m_mod_set_batch_size(A, 3) < 0, "no context: m_mod_set_batch_size");
    VF_CHECK(m_mod_ps_unsubscribe(A, "t") < 0, "no context: m_mod_ps_unsubscribe");
    VF_CHECK(m_mod_pause(A) < 0, "no context: m_mod_pause");
    { m_mod_t *ref = A; VF_CHECK(m_mod_deregister(&ref) < 0 && ref == A, "no context: m_mod_deregister (the reference is not taken)"); }
#else
    ctx_menu();
    /* module registration */
    m_mod_t *N = NULL; unsigned mfl = nondet_uint();
    VF_CHECK(m_mod_register("n", &N, &vf_hook, (m_mod_flags)mfl, NULL) < 0 && N == NULL, "no context: m_mod_register");
    /* module operations on modules that live in thread 0's context */
    for (int k = 0; k < 2; k++) {
    m_mod_t *T = k ? B : A, *O = k ? A : B;            /* the module the calls are tried on, and the other one */
    int fd = nondet_int(); unsigned sfl = nondet_uint(); uint32_t rate = nondet_uint(); uint64_t burst = nondet_u64();
    size_t blen = nondet_size_t(); uint64_t bto = nondet_u64(); size_t un = nondet_size_t();
    m_src_tmr_t tm = { CLOCK_MONOTONIC, nondet_u64() }; m_src_sgn_t sg = { nondet_uint() }; m_src_pid_t pd = { nondet_int(), 0 };
    m_src_path_t pt = { "/p", IN_MODIFY }; m_src_task_t tk = { nondet_int(), my_task }; m_src_thresh_t th = { 1, 0 };
    m_mod_stats_t mst; m_evt_t ev; memset(&ev, 0, sizeof(ev));
    VF_CHECK(m_mod_start(T) < 0, "no context: m_mod_start");
    VF_CHECK(m_mod_pause(T) < 0, "no context: m_mod_pause");
    VF_CHECK(m_mod_resume(T) < 0, "no context: m_mod_resume");
    VF_CHECK(m_mod_stop(T) < 0, "no context: m_mod_stop");
    VF_CHECK(m_mod_bind(T, O) < 0 && m_mod_bind(O, T) < 0, "no context: m_mod_bind");
    VF_CHECK(m_mod_log(T, "x") < 0, "no context: m_mod_log");
    VF_CHECK(m_mod_dump(T) < 0, "no context: m_mod_dump");
    VF_CHECK(m_mod_stats(T, &mst) < 0, "no context: m_mod_stats");
    VF_CHECK(m_mod_lookup(T, vf_names[0]) == NULL && m_mod_lookup(T, vf_names[1]) == NULL, "no context: m_mod_lookup");
    VF_CHECK(m_mod_become(T, other_evt) < 0, "no context: m_mod_become");
    VF_CHECK(m_mod_unbecome(T) < 0, "no context: m_mod_unbecome");
    VF_CHECK(m_mod_ps_tell(T, O, "m", (m_ps_flags)(sfl & 1)) < 0 && m_mod_ps_tell(T, T, "m", 0) < 0, "no context: m_mod_ps_tell");
    VF_CHECK(m_mod_ps_publish(T, "t", "m", (m_ps_flags)(sfl & 1)) < 0 && m_mod_ps_publish(T, NULL, "m", 0) < 0, "no context: m_mod_ps_publish / broadcast");
    VF_CHECK(m_mod_ps_poisonpill(T, O) < 0, "no context: m_mod_ps_poisonpill");
    VF_CHECK(m_mod_ps_subscribe(T, "u", (m_src_flags)sfl, NULL) < 0, "no context: m_mod_ps_subscribe");
    VF_CHECK(m_mod_ps_unsubscribe(T, "t") < 0, "no context: m_mod_ps_unsubscribe");
    VF_CHECK(m_mod_stash(T, &ev) < 0, "no context: m_mod_stash");
    VF_CHECK(m_mod_unstash(T, un) < 0, "no context: m_mod_unstash");
    VF_CHECK(m_mod_src_len(T, M_SRC_TYPE_END) < 0, "no context: m_mod_src_len");
    VF_CHECK(m_mod_src_register_fd(T, fd, (m_src_flags)sfl, NULL) < 0, "no context: m_mod_src_register_fd");
    VF_CHECK(m_mod_src_deregister_fd(T, ufd) < 0, "no context: m_mod_src_deregister_fd");
    VF_CHECK(m_mod_src_register_tmr(T, &tm, (m_src_flags)sfl, NULL) < 0, "no context: m_mod_src_register_tmr");
    VF_CHECK(m_mod_src_deregister_tmr(T, &tm0) < 0, "no context: m_mod_src_deregister_tmr");
    VF_CHECK(m_mod_src_register_sgn(T, &sg, (m_src_flags)sfl, NULL) < 0, "no context: m_mod_src_register_sgn");
    VF_CHECK(m_mod_src_deregister_sgn(T, &sg) < 0, "no context: m_mod_src_deregister_sgn");
    VF_CHECK(m_mod_src_register_path(T, &pt, (m_src_flags)sfl, NULL) < 0, "no context: m_mod_src_register_path");
    VF_CHECK(m_mod_src_deregister_path(T, &pt) < 0, "no context: m_mod_src_deregister_path");
    VF_CHECK(m_mod_src_register_pid(T, &pd, (m_src_flags)sfl, NULL) < 0, "no context: m_mod_src_register_pid");
    VF_CHECK(m_mod_src_deregister_pid(T, &pd) < 0, "no context: m_mod_src_deregister_pid");
    VF_CHECK(m_mod_src_register_task(T, &tk, (m_src_flags)sfl, NULL) < 0, "no context: m_mod_src_register_task");
    VF_CHECK(m_mod_src_deregister_task(T, &tk) < 0, "no context: m_mod_src_deregister_task");
    VF_CHECK(m_mod_src_register_thresh(T, &th, (m_src_flags)sfl, NULL) < 0, "no context: m_mod_src_register_thresh");
    VF_CHECK(m_mod_src_deregister_thresh(T, &th) < 0, "no context: m_mod_src_deregister_thresh");
    VF_CHECK(m_mod_set_batch_size(T, blen) < 0, "no context: m_mod_set_batch_size");
    VF_CHECK(m_mod_set_batch_timeout(T, bto) < 0, "no context: m_mod_set_batch_timeout");
    VF_CHECK(m_mod_set_tokenbucket(T, rate, burst) < 0, "no context: m_mod_set_tokenbucket");
    { m_mod_t *ref = T; VF_CHECK(m_mod_deregister(&ref) < 0 && ref == T, "no context: m_mod_deregister (the reference is not taken)"); }
    }
#endif
    /* the plain getters are the documented exception */
    VF_CHECK(m_mod_name(A) == vf_names[0] && m_mod_userdata(A) == &ud0 && m_mod_is(A, M_MOD_RUNNING) && m_mod_state(A) == M_MOD_RUNNING,
             "plain getters answer from any thread");
    VF_CHECK(m_ctx_len() == -EPIPE, "the thread still has no context");
    vf_cur_thread = 0;

    ca = snap_ctx(c0); aa = snap_mod(A); ba = snap_mod(B);
    VF_CHECK(same_ctx(&cb, &ca), "thread 0's context is unchanged");
    VF_CHECK(same_mod(&ab, &aa) && same_mod(&bb, &ba), "the modules are unchanged");
    VF_CHECK(live == live0 && open_fds() == fds0, "nothing was allocated, released, opened or closed");
    VF_CHECK(vf_nstart[0] + vf_nstart[1] == starts && vf_nstop[0] + vf_nstop[1] == stops && vf_ncalls[0] + vf_ncalls[1] == evts, "no callback ran");
    VF_CHECK(m_ctx_len() == 2 && m_ctx_userdata() == &ud0, "thread 0 still sees its context");
#if LOOP0
    { unsigned char code = nondet_uchar(); r = m_ctx_quit(code); VF_CHECK(r == 0, "quit"); r = m_ctx_dispatch(); VF_CHECK(r == code, "loop returns"); }
#endif
    VF_WITNESS("end");

#elif G == 4
    /* ------------------------------------------------------------------ one context per thread, two threads */
    unsigned fl = FLAGWORD(); const void *ud = nondet_bool() ? (const void *)&ud1 : NULL;
    r = m_ctx_register("t0", M_CTX_PERSIST, &ud0); VF_CHECK(r == 0, "thread 0 registers");
    m_mod_t *A = vf_mod(0, 0, NULL);
    vf_cur_thread = 1;
    VF_CHECK(m_ctx_len() == -EPIPE, "thread 1 has none yet");
    r = m_ctx_register("t1", M_CTX_PERSIST, &ud1); VF_CHECK(r == 0, "thread 1 registers its own");
    VF_CHECK(m_ctx_len() == 0 && m_ctx_userdata() == &ud1, "thread 1 sees its own, empty context");
    r = m_ctx_register("t1b", (m_ctx_flags)fl, ud); VF_CHECK(r == -EEXIST, "second one refused on thread 1");
    vf_cur_thread = 0;
    r = m_ctx_register("t0b", (m_ctx_flags)fl, ud); VF_CHECK(r == -EEXIST, "second one refused on thread 0");
    VF_CHECK(m_ctx_len() == 1 && m_ctx_userdata() == &ud0, "thread 0 sees its own context");
    vf_cur_thread = 1;
    r = m_ctx_deregister(); VF_CHECK(r == 0, "thread 1 deregisters its context");
    VF_CHECK(m_ctx_len() == -EPIPE, "thread 1 has none again");
    vf_cur_thread = 0;
    VF_CHECK(m_ctx_len() == 1 && m_ctx_userdata() == &ud0 && m_mod_is(A, M_MOD_IDLE), "thread 0's context and module are untouched");
    vf_cur_thread = 1;
    r = m_ctx_register("t1c", 0, NULL); VF_CHECK(r == 0, "thread 1 registers a fresh one");
    r = m_ctx_deregister(); VF_CHECK(r == 0, "and lets it go");
    vf_cur_thread = 0;
    r = m_mod_deregister(&vf_mods[0]); VF_CHECK(r == 0, "deregister A");
    r = m_ctx_deregister(); VF_CHECK(r == 0, "thread 0 deregisters");
    VF_CHECK(live == 0, "everything released");
    VF_WITNESS("end");

#elif G == 5
    /* ------------------------------------------------------------------ before the first context of the process */
    ctx_menu();
    { m_mod_t *N = NULL; unsigned mfl = nondet_uint();
      VF_CHECK(m_mod_register("n", &N, &vf_hook, (m_mod_flags)mfl, NULL) < 0 && N == NULL, "no context: m_mod_register"); }
    VF_CHECK(c07_foreign_reads == 0 && c07_foreign_writes == 0, "thread-specific data is only accessed through a key that was created");
    { _Bool clean = 1; for (int i = 0; i < 64; i++) clean = clean && c07_foreign_tsd[i] == 0;
      VF_CHECK(clean, "thread-specific data of another component is left alone"); }
    VF_CHECK(live == 0, "nothing allocated");
    r = m_ctx_register("first", 0, &ud0); VF_CHECK(r == 0, "the thread registers the first context of the process");
    VF_CHECK(m_ctx_len() == 0 && m_ctx_userdata() == &ud0, "and sees it");
    r = m_ctx_deregister(); VF_CHECK(r == 0, "deregistered");
    VF_CHECK(m_ctx_len() == -EPIPE && live == 0, "released");
    VF_CHECK(c07_foreign_reads == 0 && c07_foreign_writes == 0, "still no access through a foreign key");
    VF_WITNESS("end");
#endif
    return 0;
}
