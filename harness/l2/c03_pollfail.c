/* C03: the loop returns only for stated reasons.  An interrupted poll (EINTR, EAGAIN) is not one of them: the loop
 * goes on, pending events are still delivered and a later quit returns its code.  A genuine polling failure ends it.
 * Per job: PERR (errno the poll call fails with, once).  Symbolic: quit code, errno left by callbacks. */
#include "vf.h"
#include "vf_os.h"
#include <module/mod.h>
#include <module/ctx.h>
#include "l2.h"
#ifndef PERR
#define PERR EINTR
#endif
int vf_main(void) {
    static char ud;
    unsigned char code = nondet_uchar();
    vf_ctx(M_CTX_PERSIST);
    m_mod_t *A = vf_mod(0, 0, NULL);
    int r = m_mod_start(A); VF_CHECK(r == 0, "start A");
    int fd = vf_user_fd(); VF_ASSUME(fd >= 0);
    r = m_mod_src_register_fd(A, fd, 0, &ud); VF_CHECK(r == 0, "descriptor");
    r = m_ctx_dispatch(); VF_CHECK(r == 0, "loop starts");
    vf_set_errno = true; vf_errno_after_cb = nondet_int();
    vf_fds[fd].ready = true;
    vf_epoll_fail_errno = PERR;
    r = m_ctx_dispatch();
    if (PERR == EINTR || PERR == EAGAIN) {
        VF_CHECK(r == 0, "an interrupted poll is not an error");
        r = m_ctx_dispatch();
        VF_CHECK(r == 1 && vf_nlog[0] == 1, "the loop goes on and the pending event is delivered");
        vf_fds[fd].ready = false;
        r = m_ctx_quit(code); VF_CHECK(r == 0, "quit still accepted: the loop was not ended");
        r = m_ctx_dispatch(); VF_CHECK(r == code, "and returns exactly the requested code");
    } else {
        VF_CHECK(r < 0, "a genuine polling failure is reported");
        r = m_ctx_dispatch();
        VF_CHECK(r == PERR, "and ends the loop with that error as code");
    }
    VF_WITNESS("end");
    return 0;
}
