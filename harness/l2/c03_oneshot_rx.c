/* C03: "a one-shot source fires at most once and is then no longer registered" - for a one-shot subscription whose
 * topic is a regular expression (the published topic differs from the subscribed pattern).
 * Symbolic: errno left by callbacks, quit code. */
#include "vf.h"
#include "vf_os.h"
#include <module/mod.h>
#include <module/ctx.h>
#define VF_CUSTOM_MATCH
#include "l2.h"
int vf_match(const void *reg, const char *topic) { (void)reg; return (topic && topic[0] == 'e') ? 0 : REG_NOMATCH; }
int vf_main(void) {
    static char p1, p2, ud;
    vf_set_errno = true; vf_errno_after_cb = nondet_int();
    vf_ctx(M_CTX_PERSIST);
    m_mod_t *A = vf_mod(0, 0, NULL), *B = vf_mod(1, 0, NULL);
    int r = m_mod_start(A); VF_CHECK(r == 0, "start A");
    r = m_mod_start(B); VF_CHECK(r == 0, "start B");
    r = m_mod_ps_subscribe(B, "e.*", M_SRC_ONESHOT, &ud); VF_CHECK(r == 0, "one-shot regex subscription");
    VF_CHECK(m_mod_src_len(B, M_SRC_TYPE_END) == 1, "one source");
    r = m_ctx_dispatch(); VF_CHECK(r == 0, "loop starts");
    r = m_mod_ps_publish(A, "evt.1", &p1, 0); VF_CHECK(r == 0, "publish 1");
    r = m_ctx_dispatch();
    VF_CHECK(vf_nlog[1] == 1 && vf_log[1][0].data == &p1 && vf_log[1][0].userdata == &ud, "first matching message delivered with the user data of the subscription");
    VF_CHECK(m_mod_src_len(B, M_SRC_TYPE_END) == 0, "a one-shot subscription that fired is no longer registered");
    r = m_mod_ps_publish(A, "evt.2", &p2, 0); VF_CHECK(r == 0, "publish 2");
    r = m_ctx_dispatch();
    VF_CHECK(vf_nlog[1] == 1, "and does not fire a second time");
    VF_WITNESS("end");
    return 0;
}
