/* C02: a message accepted by tell / publish / broadcast reaches exactly the modules eligible at send time, once each,
 * with the sender, topic and payload pointer supplied; discarded if the recipient is stopped/deregistered first or is
 * PAUSED when the loop ends; a quit still flushes to RUNNING modules; an auto-free payload is released exactly once,
 * after the last recipient is done with it (at once if nobody was eligible), and never without the flag.
 * Modules: A (sender), B, C.  Per job (heap-shape changing): SEND (0 tell B, 1 publish literal topic, 2 publish
 * matched by regular-expression subscriptions, 3 topic-less broadcast), NSEND, SUBB/SUBC (subscribed or not),
 * PAUSEB (B paused at send time), POST (0 dispatch, 1 stop B before the loop reads, 2 B stays paused until the loop
 * ends, 3 quit then flush, 4 deregister B first, 5 B unsubscribes / re-subscribes with other flags before the loop
 * reads: it was eligible at send time and stays RUNNING, so it still gets the message), CAP (pipe capacity).
 * MATCH (SEND 2: the regex matching relation, every one of the 4 relations is a job).
 * Symbolic: the auto-free bit, the quit code, errno left by handlers. */
#include "vf.h"
#include "vf_os.h"
#include <module/mod.h>
#include <module/ctx.h>
#define VF_CUSTOM_MATCH
#define VF_ACTION my_action
static void my_action(int who, int kind, struct _mod *m, const m_queue_t *q);
#include "l2.h"
#ifndef SEND
#define SEND 1
#endif
#ifndef NSEND
#define NSEND 1
#endif
#ifndef SUBB
#define SUBB 1
#endif
#ifndef SUBC
#define SUBC 1
#endif
#ifndef PAUSEB
#define PAUSEB 0
#endif
#ifndef POST
#define POST 0
#endif
#ifndef CAP
#define CAP VF_PIPE_MAX
#endif

static char *payload[NSEND];
static _Bool autofree;
static _Bool matchB, matchC;           /* the regex relation for (subscription of B / C, published topic) */
static const regex_t *regB, *regC;
int vf_match(const void *reg, const char *topic) {
    /* the relation under test is over user topics; system topics are kept out of it so that start-up notifications do
     * not occupy mailbox slots of the bounded pipe (C19 covers system notifications) */
    if (topic && strncmp(topic, "LIBMODULE_", 10) == 0) return REG_NOMATCH;
    if (reg == (const void *)regB) return matchB ? 0 : REG_NOMATCH;
    if (reg == (const void *)regC) return matchC ? 0 : REG_NOMATCH;
    return REG_NOMATCH;
}
static int touched;
static void my_action(int who, int kind, m_mod_t *m, const m_queue_t *q) {
    if (kind != VF_CB_EVT) return;
    /* every recipient reads the payload: it must still be valid while any handler sees it */
    m_itr_foreach(q, {
        m_evt_t *e = m_itr_get(m_itr);
        if (e->type == M_SRC_TYPE_PS && !e->ps_evt->system && e->ps_evt->data) touched += *(const char *)e->ps_evt->data;
    });
}
/* the library releases memory through its allocator hook: count the releases of each payload there */
static int freed[NSEND];
void vf_free(void *p) { for (int i = 0; i < NSEND; i++) if (p && p == (void *)payload[i]) freed[i]++; free(p); }
#define VF_RELEASED(i) (freed[i] == 1)
#define VF_NOT_RELEASED(i) (freed[i] == 0)

static int count_user(int w, const void *data) {
    int n = 0;
    for (int k = 0; k < VF_LOGN; k++) if (k < vf_nlog[w] && vf_log[w][k].type == M_SRC_TYPE_PS && !vf_log[w][k].system && vf_log[w][k].data == data) n++;
    return n;
}

int vf_main(void) {
    vf_pipe_cap = CAP;
    { int hr = m_set_memhook(malloc, calloc, vf_free); VF_ASSUME(hr == 0); }
    vf_ctx(M_CTX_PERSIST);
    m_mod_t *A = vf_mod(0, 0, NULL), *B = vf_mod(1, 0, NULL), *C = vf_mod(2, 0, NULL);
    int r;
    r = m_mod_start(A); VF_CHECK(r == 0, "start A");
    r = m_mod_start(B); VF_CHECK(r == 0, "start B");
    r = m_mod_start(C); VF_CHECK(r == 0, "start C");
    static const char lit[] = "t", rxB[] = "b.*", rxC[] = "c.*";
#if SEND == 1
    if (SUBB) { r = m_mod_ps_subscribe(B, lit, 0, NULL); VF_CHECK(r == 0, "B subscribes"); }
    if (SUBC) { r = m_mod_ps_subscribe(C, lit, 0, NULL); VF_CHECK(r == 0, "C subscribes"); }
#elif SEND == 2
    if (SUBB) { r = m_mod_ps_subscribe(B, rxB, 0, NULL); VF_CHECK(r == 0, "B subscribes (regex)"); regB = &((ev_src_t *)m_map_get(B->subscriptions, rxB))->ps_src.reg; }
    if (SUBC) { r = m_mod_ps_subscribe(C, rxC, 0, NULL); VF_CHECK(r == 0, "C subscribes (regex)"); regC = &((ev_src_t *)m_map_get(C->subscriptions, rxC))->ps_src.reg; }
#ifdef MATCH
    matchB = MATCH & 1; matchC = (MATCH >> 1) & 1;      /* the relation decides who gets a copy: per job */
#else
    matchB = nondet_bool(); matchC = nondet_bool();
#endif
#endif
    r = m_ctx_dispatch(); VF_CHECK(r == 0, "loop starts");
    /* system notifications of the start-up are not what is under test here: let them drain */
#if PAUSEB
    r = m_mod_pause(B); VF_CHECK(r == 0, "pause B");
#endif
    autofree = nondet_bool();
    vf_set_errno = true; vf_errno_after_cb = nondet_int();
    _Bool eligB, eligC, eligA = 0;
#if SEND == 0
    eligB = 1; eligC = 0;
#elif SEND == 1
    eligB = SUBB; eligC = SUBC;
#elif SEND == 2
    eligB = SUBB && matchB; eligC = SUBC && matchC;
#else
    eligB = 1; eligC = 1; eligA = 1;
#endif
#ifdef PREFILL
    /* one recipient's mailbox is already full (PREFILL 1: B, 2: C): it is outside the delivery guarantee for what
     * follows, the other recipients are not */
    static char filler[VF_PIPE_MAX];
    for (int i = 0; i < CAP; i++) { r = m_mod_ps_tell(A, PREFILL == 1 ? B : C, &filler[i], 0); VF_CHECK(r == 0, "filler accepted"); }
#endif
    for (int i = 0; i < NSEND; i++) {
        payload[i] = malloc(1); VF_ASSUME(payload[i] != NULL); *payload[i] = 1;
#if SEND == 0
        r = m_mod_ps_tell(A, B, payload[i], autofree ? M_PS_AUTOFREE : 0);
#elif SEND == 3
        r = m_mod_ps_publish(A, NULL, payload[i], autofree ? M_PS_AUTOFREE : 0);
#else
        r = m_mod_ps_publish(A, "t", payload[i], autofree ? M_PS_AUTOFREE : 0);
#endif
#ifndef PREFILL
        if (i < CAP) VF_CHECK(r == 0, "message accepted (mailboxes not full)");
#endif
    }
    if (autofree && !eligA && !eligB && !eligC)
        for (int i = 0; i < NSEND; i++) VF_CHECK(VF_RELEASED(i), "auto-free payload with no eligible recipient is released at once");

    int delivered = NSEND < CAP ? NSEND : CAP;      /* what fits the mailbox; the rest is outside the delivery guarantee */
    int expB = eligB ? delivered : 0, expC = eligC ? delivered : 0, expA = eligA ? delivered : 0;
#ifdef PREFILL
    if (PREFILL == 1) expB = 0; else expC = 0;     /* its mailbox was full: not promised (and there is no room) */
#endif
    unsigned char code = nondet_uchar();
#if POST == 0
    /* one message is read per module and wake-up; system notifications matched by a regex subscription may sit in
     * front of ours: keep dispatching until everything pending has been read */
    for (int d = 0; d < NSEND + 2 + VF_PIPE_MAX; d++) r = m_ctx_dispatch();
#if PAUSEB
    expB = 0;                                       /* a PAUSED module is not polled: nothing yet */
#endif
#elif POST == 1
    r = m_mod_stop(B); VF_CHECK(r == 0, "stop B"); expB = 0;
    r = m_ctx_dispatch();
#elif POST == 2
    r = m_ctx_dispatch();
    r = m_ctx_quit(code); VF_CHECK(r == 0, "quit");
    r = m_ctx_dispatch(); VF_CHECK(r == code, "loop ends with the code");
    expB = PAUSEB ? 0 : expB;                       /* PAUSED when the loop ends: discarded */
#elif POST == 3
    r = m_ctx_quit(code); VF_CHECK(r == 0, "quit before the messages were read");
    r = m_ctx_dispatch(); VF_CHECK(r == code, "loop ends with the code");
    if (PAUSEB) expB = 0;
#elif POST == 4
    { m_mod_t *ref = m_mem_ref(B); r = m_mod_deregister(&ref); VF_CHECK(r == 0, "deregister B"); } expB = 0;
    r = m_ctx_dispatch();
#elif POST == 6
    /* the loop ends on its own: every RUNNING module pauses (itself) before the mailboxes are read; what is pending for
     * modules that are PAUSED when the loop ends is discarded - it must not turn up in the next run */
    r = m_mod_pause(A); VF_CHECK(r == 0, "pause A");
    r = m_mod_pause(C); VF_CHECK(r == 0, "pause C");
    if (!PAUSEB) { r = m_mod_pause(B); VF_CHECK(r == 0, "pause B"); }
    r = m_ctx_dispatch(); VF_CHECK(r == 0, "no module RUNNING: the loop stops");
    expA = expB = expC = 0;
    r = m_mod_resume(A); VF_CHECK(r == 0, "resume A");
    r = m_mod_resume(B); VF_CHECK(r == 0, "resume B");
    r = m_mod_resume(C); VF_CHECK(r == 0, "resume C");
    for (int d = 0; d < NSEND + 2; d++) r = m_ctx_dispatch();
#else
#if SEND == 1 || SEND == 2
    if (SUBB) { r = m_mod_ps_unsubscribe(B, SEND == 1 ? lit : rxB); VF_CHECK(r == 0, "B unsubscribes after the send"); }
    if (SUBC) { r = m_mod_ps_subscribe(C, SEND == 1 ? lit : rxC, M_SRC_PRIO_HIGH, NULL); VF_CHECK(r == 0, "C re-subscribes with other flags after the send"); regC = SUBC && SEND == 2 ? &((ev_src_t *)m_map_get(C->subscriptions, rxC))->ps_src.reg : regC; }
#endif
    for (int d = 0; d < NSEND + 2; d++) r = m_ctx_dispatch();
#if PAUSEB
    expB = 0;                                       /* a PAUSED module is not polled: nothing yet */
#endif
#endif
    int gotB = 0, gotC = 0, gotA = 0;
    for (int i = 0; i < NSEND; i++) {
        int b = count_user(1, payload[i]), c = count_user(2, payload[i]), a = count_user(0, payload[i]);
        VF_CHECK(a <= 1 && b <= 1 && c <= 1, "a message reaches a recipient at most once");
        gotA += a; gotB += b; gotC += c;
    }
    VF_CHECK(gotB == expB, "B: receives exactly the messages it was eligible for and that were not discarded");
    VF_CHECK(gotC == expC, "C: receives exactly the messages it was eligible for");
    VF_CHECK(gotA == expA, "sender: receives its own message only for a broadcast");
    for (int w = 0; w < 3; w++) for (int k = 0; k < VF_LOGN; k++) if (k < vf_nlog[w] && vf_log[w][k].type == M_SRC_TYPE_PS && !vf_log[w][k].system) {
        VF_CHECK(vf_log[w][k].sender == A, "sender as supplied");
        _Bool ours = 0;
        for (int i = 0; i < NSEND; i++) if (vf_log[w][k].data == (void *)payload[i]) ours = 1;
        if (!ours) continue;             /* a filler message */
#if SEND == 0 || SEND == 3
        VF_CHECK(vf_log[w][k].topic == NULL, "no topic for tell/broadcast");
#else
        VF_CHECK(vf_log[w][k].topic != NULL && vf_log[w][k].topic[0] == 't', "topic as supplied");
#endif
        VF_CHECK(vf_log[w][k].state == M_MOD_RUNNING, "only RUNNING modules get their handler run");
    }
    VF_CHECK(vf_evt_not_running == 0, "no handler for a module that is not RUNNING");
#if POST != 0 && !(POST == 5 && PAUSEB)
    /* everything has been delivered or discarded by now (not with B still PAUSED and its mailbox unread: POST 5) */
    for (int i = 0; i < NSEND; i++) {
        if (autofree) VF_CHECK(VF_RELEASED(i), "auto-free payload released exactly once when everybody is done");
        else { VF_CHECK(VF_NOT_RELEASED(i), "payload without the flag is never released by the library"); free(payload[i]); }
    }
#else
    if (!PAUSEB) for (int i = 0; i < NSEND; i++) if (i < delivered) {
        if (autofree) VF_CHECK(VF_RELEASED(i) || (!eligA && !eligB && !eligC && VF_RELEASED(i)), "auto-free payload released exactly once after the last recipient's handler returned");
        else VF_CHECK(VF_NOT_RELEASED(i), "payload without the flag is never released by the library");
    }
#endif
    VF_WITNESS("end");
    return 0;
}
