/* C15 (a, context class): while a callback of a module carrying M_MOD_DENY_CTX is executing, every context call
 * (m_ctx_*) and every module call (m_mod_* of ANY module: they all go through the context) fails and changes nothing;
 * the same calls work outside callbacks, in the handler of a normal module that triggered the callback (nesting
 * depth 2), and for a module that does not carry the flag.
 * Modules: N (index 0, no flags), D (index 1, flags DFL = per-job constant: a symbolic flags word forks the heap shape
 * in m_mod_register).  KIND = which callback of D runs the battery and how it is reached:
 *   0 on_start (m_mod_start from the main line)      1 on_stop (m_mod_stop from the main line)
 *   2 on_eval (loop start evaluates IDLE D)           3 on_evt (message delivered by the loop)
 *   4 on_start nested in N's handler (N starts D)     5 on_stop nested in N's handler (N stops D)
 *   6 on_evt from the flush when the loop stops       7 on_stop because D is replaced by a module of the same name
 * DFL contains M_MOD_DENY_CTX: the battery of ~30 calls must fail one by one and the snapshot of context / modules /
 * mailboxes / descriptors taken before must be unchanged after.  DFL without it (control, DENY_PUB|DENY_SUB): context
 * calls made from D's callback work, publishing / subscribing are still refused.
 * Symbolic: quit code and batch size passed to the attempted calls, errno left by callbacks. */
#include "vf.h"
#include "vf_os.h"
#include <module/mod.h>
#include <module/ctx.h>
#define VF_ACTION my_action
static void my_action(int who, int kind, struct _mod *m, const m_queue_t *q);
#include "l2.h"
#ifndef KIND
#define KIND 0
#endif
#ifndef DFL
#define DFL (M_MOD_DENY_CTX)
#endif
#define DENIED (((DFL) & M_MOD_DENY_CTX) != 0)
enum { N = 0, D = 1 };
static int armed = -1;                    /* callback kind of D that runs the battery, -1 = none */
static int ran, outer_ran;
static unsigned char g_code; static size_t g_bs;
static char payload, ctx_ud;
static int ufd;
void vf_other_evt(m_mod_t *m, const m_queue_t *const q) { (void)m; (void)q; }

static void battery_denied(m_mod_t *self) {
    m_mod_t *n = vf_mods[N], *z = NULL, *ref = self;
    m_ctx_stats_t cs; m_mod_stats_t ms; m_src_tmr_t tm = { CLOCK_MONOTONIC, 1000 };
    int r;
    r = m_ctx_quit(g_code);                                  VF_CHECK(r < 0, "denied: m_ctx_quit");
    VF_CHECK(m_ctx_len() < 0, "denied: m_ctx_len");
    r = m_mod_register("z", &z, &vf_hook, 0, NULL);          VF_CHECK(r < 0 && z == NULL, "denied: m_mod_register");
    VF_CHECK(m_ctx_set_tick(1000) < 0, "denied: m_ctx_set_tick");
    VF_CHECK(m_ctx_finalize() < 0, "denied: m_ctx_finalize");
    VF_CHECK(m_ctx_name() == NULL && m_ctx_userdata() == NULL, "denied: m_ctx_name / m_ctx_userdata");
    VF_CHECK(m_ctx_fd() < 0, "denied: m_ctx_fd");
    VF_CHECK(m_ctx_stats(&cs) < 0, "denied: m_ctx_stats");
    /* module calls on another module */
    VF_CHECK(m_mod_pause(n) < 0 && m_mod_stop(n) < 0, "denied: pausing / stopping another module");
    { m_mod_t *nr = n; r = m_mod_deregister(&nr); VF_CHECK(r < 0 && nr == n, "denied: deregistering another module"); }
    VF_CHECK(m_mod_ps_tell(n, self, &payload, 0) < 0, "denied: telling on behalf of another module");
    VF_CHECK(m_mod_lookup(self, "a") == NULL, "denied: m_mod_lookup");
    VF_CHECK(m_mod_bind(self, n) < 0, "denied: m_mod_bind");
    /* module calls on itself */
    VF_CHECK(m_mod_ps_tell(self, n, &payload, 0) < 0, "denied: m_mod_ps_tell");
    VF_CHECK(m_mod_ps_publish(self, "t", &payload, 0) < 0 && m_mod_ps_publish(self, NULL, &payload, 0) < 0, "denied: m_mod_ps_publish / broadcast");
    VF_CHECK(m_mod_ps_poisonpill(self, n) < 0, "denied: m_mod_ps_poisonpill");
    VF_CHECK(m_mod_ps_subscribe(self, "t", 0, NULL) < 0, "denied: m_mod_ps_subscribe");
    VF_CHECK(m_mod_start(self) < 0 && m_mod_pause(self) < 0 && m_mod_resume(self) < 0 && m_mod_stop(self) < 0, "denied: own state changes");
    r = m_mod_deregister(&ref);                              VF_CHECK(r < 0 && ref == self, "denied: own deregistration");
    VF_CHECK(m_mod_become(self, vf_other_evt) < 0 && m_mod_unbecome(self) < 0, "denied: become / unbecome");
    VF_CHECK(m_mod_set_batch_size(self, g_bs) < 0 && m_mod_set_batch_timeout(self, 5) < 0, "denied: batching setters");
    VF_CHECK(m_mod_set_tokenbucket(self, 1, 1) < 0, "denied: token bucket setter");
    VF_CHECK(m_mod_src_register_fd(self, ufd, 0, NULL) < 0 && m_mod_src_register_tmr(self, &tm, 0, NULL) < 0, "denied: source registration");
    VF_CHECK(m_mod_src_len(self, M_SRC_TYPE_FD) < 0, "denied: m_mod_src_len");
    VF_CHECK(m_mod_unstash(self, 1) < 0, "denied: m_mod_unstash");
    VF_CHECK(m_mod_stats(self, &ms) < 0, "denied: m_mod_stats");
}
/* what a callback of a module WITHOUT the deny-ctx flag may do (cheap, shape-preserving calls only) */
static void battery_allowed(m_mod_t *self, int expect_len) {
    VF_CHECK(m_ctx_len() == expect_len, "allowed: m_ctx_len works");
    VF_CHECK(m_ctx_name() != NULL && m_ctx_userdata() == &ctx_ud, "allowed: m_ctx_name / m_ctx_userdata work");
    VF_CHECK(m_mod_lookup(self, "a") == vf_mods[N], "allowed: m_mod_lookup works");
    VF_CHECK(m_mod_set_batch_size(self, 0) == 0, "allowed: a module call works");
}
static void battery_control(m_mod_t *self) {
    /* D carries DENY_PUB | DENY_SUB but not DENY_CTX: context calls work from its callbacks, the other classes stay denied */
    battery_allowed(self, KIND == 7 ? 1 : 2);             /* being replaced: already out of the context's table */
    VF_CHECK(m_mod_ps_tell(self, vf_mods[N], &payload, 0) < 0 && m_mod_ps_publish(self, "t", &payload, 0) < 0, "control: publishing still denied by DENY_PUB");
    VF_CHECK(m_mod_ps_subscribe(self, "t", 0, NULL) < 0, "control: subscribing still denied by DENY_SUB");
}

static void my_action(int who, int kind, m_mod_t *m, const m_queue_t *q) {
    (void)q;
    if (who == D && kind == armed) {
        armed = -1; ran++;
        if (DENIED) battery_denied(m); else battery_control(m);
    }
#if KIND == 4 || KIND == 5
    if (who == N && kind == VF_CB_EVT && !outer_ran) {
        outer_ran = 1;
        /* depth 2: the handler of a normal module makes a call that runs a callback of D */
#if KIND == 4
        armed = VF_CB_START; int r = m_mod_start(vf_mods[D]);
#else
        armed = VF_CB_STOP; int r = m_mod_stop(vf_mods[D]);
#endif
        VF_CHECK(r == 0 && ran == 1, "the nested call itself is allowed and ran D's callback");
        battery_allowed(m, 2);                            /* back in N's handler: N is not denied anything */
    }
#endif
}

int vf_main(void) {
    g_code = nondet_uchar(); g_bs = nondet_size_t();
    vf_set_errno = true; vf_errno_after_cb = nondet_int();
    { int r0 = m_ctx_register("ctx", M_CTX_PERSIST, &ctx_ud); VF_ASSUME(r0 == 0); }
    ufd = vf_user_fd(); VF_ASSUME(ufd >= 0);
    m_mod_t *n = vf_mod(N, 0, NULL);
    m_mod_t *d = vf_mod(D, (m_mod_flags)(DFL), NULL);
    int r = m_mod_start(n); VF_CHECK(r == 0, "start N");
#if KIND == 4
    vf_eval_ret[D] = false;                               /* the loop leaves D IDLE: N starts it from its handler */
#endif
#if KIND == 1 || KIND == 3 || KIND == 5 || KIND == 6 || KIND == 7
    r = m_mod_start(d); VF_CHECK(r == 0, "start D");
#endif
#if KIND >= 2 && KIND <= 6
    if (KIND == 2) armed = VF_CB_EVAL;
#endif
    /* snapshot */
    m_ctx_t *c = n->ctx;
#if KIND >= 3 && KIND <= 6
    r = m_ctx_dispatch(); VF_CHECK(r == 0, "loop starts");
#endif
    _Bool quit0 = c->quit, fin0 = c->finalized; void *tick0 = c->tick.src;
    m_mod_states nst0 = n->state; int open0 = vf_lib_open();
    size_t blen0 = d->batch.len; uint64_t tok0 = d->tb.tokens;

#if KIND == 0
    armed = VF_CB_START; r = m_mod_start(d); VF_CHECK(r == 0, "start D");
#elif KIND == 1
    armed = VF_CB_STOP; r = m_mod_stop(d); VF_CHECK(r == 0, "stop D");
#elif KIND == 2
    r = m_ctx_dispatch(); VF_CHECK(r == 0, "loop starts, D evaluated and started");
    VF_CHECK(m_mod_is(d, M_MOD_RUNNING), "D started by the loop");
#elif KIND == 3
    r = m_mod_ps_tell(n, d, &payload, 0); VF_CHECK(r == 0, "tell D");
    armed = VF_CB_EVT; r = m_ctx_dispatch(); VF_CHECK(r == 1, "D's handler ran");
#elif KIND == 4 || KIND == 5
    r = m_mod_ps_tell(n, n, &payload, 0); VF_CHECK(r == 0, "N tells itself");
    r = m_ctx_dispatch(); VF_CHECK(r == 1 && outer_ran, "N's handler ran");
#elif KIND == 6
    r = m_mod_ps_tell(n, d, &payload, 0); VF_CHECK(r == 0, "tell D");
    r = m_ctx_quit(g_code); VF_CHECK(r == 0, "quit (outside callbacks: allowed)");
    quit0 = c->quit;
    armed = VF_CB_EVT; r = m_ctx_dispatch(); VF_CHECK(r == g_code, "loop stops, pending message flushed to D");
#else
    { static const char again[] = "b"; m_mod_t *d2 = NULL;
      armed = VF_CB_STOP; r = m_mod_register(again, &d2, &vf_hook, 0, NULL);
      VF_CHECK(r == 0 && d2 != NULL && m_mod_is(d, M_MOD_ZOMBIE), "D replaced"); }
#endif
    VF_CHECK(ran == 1, "the callback under test ran exactly once");

#if KIND != 6
    VF_CHECK(c->quit == quit0, "quit flag untouched");
#endif
    VF_CHECK(c->finalized == fin0 && c->tick.src == tick0, "context settings untouched");
    VF_CHECK(m_ctx_len() == 2, "outside callbacks m_ctx_len works again; no module added or removed");
    VF_CHECK(n->state == nst0, "the other module's state untouched");
    VF_CHECK(n->pubsub_fd[0] >= 0 && vf_fds[n->pubsub_fd[0]].cnt == 0, "nothing was written to the other module's mailbox");
#if KIND != 1 && KIND != 5 && KIND != 7
    VF_CHECK(d->subscriptions == NULL, "no subscription recorded");
    VF_CHECK(m_mod_is(d, M_MOD_RUNNING), "D is RUNNING: its own state changes were refused");
    VF_CHECK(m_mod_src_len(d, M_SRC_TYPE_FD) == 0, "no source registered");
    if (DENIED) VF_CHECK(d->batch.len == blen0, "batch size untouched");
    if (DENIED && KIND != 0 && KIND != 2 && KIND != 4) VF_CHECK(d->tb.tokens == tok0 && open0 == vf_lib_open(), "no token used, no descriptor opened");
#endif
    if (DENIED) VF_CHECK(vf_find_kind(VF_TIMER, 0) < 0, "no timer armed");
    VF_WITNESS("end");
    return 0;
}
