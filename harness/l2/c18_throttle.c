/* C18 (whole core): a RUNNING module with an EXHAUSTED token bucket - drained through the public API only - makes one
 * token-consuming call (ENTRY, per job): it must fail with -EAGAIN and change nothing; after ONE expiry of the refill
 * timer exactly one such call succeeds and the next is throttled again.
 * ENTRY: 0 subscribe to a new topic, 1 subscribe again to an already subscribed topic with the same flags (would only
 * replace the user pointer), 2 the same with other flags, 3 unsubscribe, 4 register a timer, 5 deregister a timer,
 * 6 tell, 7 publish, 8 become, 9 pause, 10 set_batch_timeout, 11 stash-less unstash, 12 poison pill, 13 bind, 14 stop.
 * Symbolic: errno left by callbacks, the timer period. */
#include "vf.h"
#include "vf_os.h"
#include <module/mod.h>
#include <module/ctx.h>
#include "l2.h"
#ifndef ENTRY
#define ENTRY 0
#endif
#define BURST 12
static char u1, u2;
static int queued(void) { int n = 0; for (int i = 0; i < VF_NFD; i++) if (vf_fds[i].kind == VF_PIPE_R) n += vf_fds[i].cnt; return n; }
static m_src_tmr_t T = { CLOCK_MONOTONIC, 7000000 };
static m_src_tmr_t T2 = { CLOCK_MONOTONIC, 9000000 };
void h2(m_mod_t *m, const m_queue_t *const q) { }
static int call(m_mod_t *A, m_mod_t *B) {
    switch (ENTRY) {
    case 0: return m_mod_ps_subscribe(A, "new", 0, &u2);
    case 1: return m_mod_ps_subscribe(A, "t", 0, &u2);
    case 2: return m_mod_ps_subscribe(A, "t", M_SRC_PRIO_LOW, &u2);
    case 3: return m_mod_ps_unsubscribe(A, "t");
    case 4: return m_mod_src_register_tmr(A, &T2, 0, &u2);
    case 5: return m_mod_src_deregister_tmr(A, &T);
    case 6: return m_mod_ps_tell(A, B, &u2, 0);
    case 7: return m_mod_ps_publish(A, "t", &u2, 0);
    case 8: return m_mod_become(A, h2);
    case 9: return m_mod_pause(A);
    case 10: return m_mod_set_batch_timeout(A, 1000000);
    case 11: return (int)m_mod_unstash(A, 1);
    case 12: return m_mod_ps_poisonpill(A, B);
    case 13: return m_mod_bind(A, B);
    default: return m_mod_stop(A);
    }
}
int vf_main(void) {
    vf_set_errno = true; vf_errno_after_cb = nondet_int();
    vf_ctx(M_CTX_PERSIST);
    m_mod_t *A = vf_mod(0, 0, NULL), *B = vf_mod(1, 0, NULL);
    int r = m_mod_set_tokenbucket(A, 1, BURST); VF_CHECK(r == 0, "bucket: 1 token/s, burst 12");
    r = m_mod_start(A); VF_CHECK(r == 0, "start A");
    r = m_mod_start(B); VF_CHECK(r == 0, "start B");
    r = m_mod_ps_subscribe(A, "t", 0, &u1); VF_CHECK(r == 0, "A subscribes to t");
    r = m_mod_src_register_tmr(A, &T, 0, &u1); VF_CHECK(r == 0, "A registers a timer");
    int spent = 0;
    for (int i = 0; i <= BURST; i++) { r = m_mod_set_batch_size(A, 0); if (r != 0) break; spent++; }
    VF_CHECK(r == -EAGAIN && spent < BURST, "the bucket runs dry within the burst");
    const ssize_t len0 = m_mod_src_len(A, M_SRC_TYPE_END);
    const int writes0 = queued();

    r = call(A, B);
    VF_CHECK(r == -EAGAIN, "a token-consuming call on an empty bucket fails with -EAGAIN");
    VF_CHECK(m_mod_is(A, M_MOD_RUNNING) && m_mod_is(B, M_MOD_RUNNING), "... and changes no state");
    VF_CHECK(m_mod_src_len(A, M_SRC_TYPE_END) == len0, "... nor the set of sources and subscriptions");
    VF_CHECK(queued() == writes0, "... and sends nothing");
    VF_WITNESS("throttled");
#if ENTRY == 1 || ENTRY == 7
    /* refill: one expiry of every armed timer = at most one token for A */
    r = m_ctx_dispatch(); VF_CHECK(r == 0, "loop starts");
    vf_fire_timers();
    r = m_ctx_dispatch();
    r = call(A, B); VF_CHECK(r == 0, "after one refill tick one call goes through");
    r = call(A, B); VF_CHECK(r == -EAGAIN, "and the next is throttled again");
#endif
    VF_WITNESS("end");
    return 0;
}
