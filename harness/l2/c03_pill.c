/* C03: (a) process state left behind by ANY user callback - here the stop callback run by a poison pill - must not
 * drop another event of the same poll batch nor end the loop; (b) at loop stop pending messages are handed to RUNNING
 * modules only: a module that is PAUSED never gets its handler run.
 * Modules: A (sender), P (receives the pill / is paused), Q (owns a descriptor that is ready in the same batch).
 * Per job: SCEN (0 pill + descriptor event in one batch, 1 message pending for a paused module when quit is requested),
 * DESC (report order of the batch).  Symbolic: errno left by callbacks (int), quit code. */
#include "vf.h"
#include "vf_os.h"
#include <module/mod.h>
#include <module/ctx.h>
#include "l2.h"
#ifndef SCEN
#define SCEN 0
#endif
#ifndef DESC
#define DESC 0
#endif
int vf_main(void) {
    static char pl, ud;
    unsigned char code = nondet_uchar();
    vf_ctx(M_CTX_PERSIST);
    m_mod_t *A = vf_mod(0, 0, NULL), *P = vf_mod(1, 0, NULL), *Q = vf_mod(2, 0, NULL);
    int r = m_mod_start(A); VF_CHECK(r == 0, "start A");
    r = m_mod_start(P); VF_CHECK(r == 0, "start P");
    r = m_mod_start(Q); VF_CHECK(r == 0, "start Q");
    int fd = vf_user_fd(); VF_ASSUME(fd >= 0);
    r = m_mod_src_register_fd(Q, fd, 0, &ud); VF_CHECK(r == 0, "Q's descriptor");
    r = m_ctx_dispatch(); VF_CHECK(r == 0, "loop starts");
    vf_epoll_desc = DESC;
    vf_set_errno = true;
#ifdef ERRNO_FIXED
    vf_errno_after_cb = ERRNO_FIXED;
#else
    vf_errno_after_cb = nondet_int();
#endif
#if SCEN == 0
    r = m_mod_ps_poisonpill(A, P); VF_CHECK(r == 0, "pill for P");
    vf_fds[fd].ready = true;
    r = m_ctx_dispatch();
    VF_CHECK(r == 2, "both events of the batch are processed, whatever errno P's stop callback left");
    VF_CHECK(m_mod_is(P, M_MOD_STOPPED) && vf_nstop[1] == 1, "the pill stopped P through its stop callback");
    VF_CHECK(vf_nlog[2] == 1 && vf_log[2][0].type == M_SRC_TYPE_FD && vf_log[2][0].userdata == &ud, "Q's event of the same batch is delivered");
    vf_fds[fd].ready = false;
    r = m_ctx_dispatch(); VF_CHECK(r == 0, "the loop goes on: nothing pending");
    r = m_ctx_quit(code); VF_CHECK(r == 0, "quit is still accepted: the loop was not ended by errno");
    r = m_ctx_dispatch(); VF_CHECK(r == code, "and returns exactly the requested code");
#else
    r = m_mod_pause(P); VF_CHECK(r == 0, "pause P");
    r = m_mod_ps_tell(A, P, &pl, 0); VF_CHECK(r == 0, "a message for the paused module");
    r = m_ctx_dispatch();
    VF_CHECK(vf_ncalls[1] == 0, "a paused module is not handed events");
    r = m_ctx_quit(code); VF_CHECK(r == 0, "quit");
    r = m_ctx_dispatch(); VF_CHECK(r == code, "loop stops");
    VF_CHECK(vf_ncalls[1] == 0 && vf_nlog[1] == 0, "pending messages are flushed to RUNNING modules only");
    VF_CHECK(m_mod_is(P, M_MOD_PAUSED), "P still paused");
#endif
    VF_CHECK(vf_evt_not_running == 0, "no handler for a module that is not RUNNING");
    VF_WITNESS("end");
    return 0;
}
