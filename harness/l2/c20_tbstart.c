/* C20: a module whose start is refused half-way - the registration of its mailbox source fails because its token
 * bucket is empty - must not leave the freshly created message pipe behind.
 * Per job: BURST (tokens available when m_mod_start is called; 2 = the start's own token is the last one).
 * Symbolic: errno left by callbacks. */
#include "vf.h"
#include "vf_os.h"
#include <module/mod.h>
#include <module/ctx.h>
#include "l2.h"
#include "c20_oracle.c"
#ifndef BURST
#define BURST 2
#endif
int vf_main(void) {
    vf_set_errno = true; vf_errno_after_cb = nondet_int();
    vf_ctx(0);
    m_mod_t *A = vf_mod(0, 0, NULL);
    int r = m_mod_set_tokenbucket(A, 1, BURST); VF_CHECK(r == 0, "token bucket configured on the idle module");
    int before = vf_lib_open();
    r = m_mod_start(A);
    if (r != 0) {
        VF_CHECK(m_mod_is(A, M_MOD_IDLE) || m_mod_is(A, M_MOD_STOPPED), "a refused start leaves the module not running");
        VF_CHECK(vf_lib_open() == before, "a refused start leaves no descriptor behind (the message pipe is closed again)");
    } else {
        VF_CHECK(m_mod_is(A, M_MOD_RUNNING), "started");
    }
    c20_invariant();
    r = m_mod_start(A);            /* a second attempt, still throttled or already running */
    c20_invariant();
    r = m_mod_set_tokenbucket(A, 0, 0);
    r = m_mod_deregister(&vf_mods[0]); VF_CHECK(r == 0, "deregister A: the context goes with it");
    c20_final();
    VF_WITNESS("end");
    return 0;
}
