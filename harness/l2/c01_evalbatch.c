/* C01 (evaluation pass wiring, whole core): whenever the loop starts or finishes processing a batch of events, every
 * IDLE module whose evaluation callback is absent or returns true is started - whatever the batch consisted of - and
 * the number of running modules reported by the context equals the number of RUNNING modules.
 * Modules: A (RUNNING, owns a descriptor), B (RUNNING, sender), W (IDLE, its on_eval says no until the harness flips it).
 * Per job: BATCH = what the poll batch consists of (0 descriptor event for A, 1 tell to A, 2 poison pill for A only,
 * 3 context tick only, 4 pill for A + tell for B in one batch), LOOPSTART (W already willing when the loop starts).
 * Symbolic: errno left by callbacks, W's on_start result. */
#include "vf.h"
#include "vf_os.h"
#include <module/mod.h>
#include <module/ctx.h>
#include "l2.h"
#ifndef BATCH
#define BATCH 0
#endif
#ifndef LOOPSTART
#define LOOPSTART 0
#endif
static size_t count_running(void) { size_t n = 0; for (int i = 0; i < 3; i++) if (vf_mods[i] && m_mod_is(vf_mods[i], M_MOD_RUNNING)) n++; return n; }

int vf_main(void) {
    static char pl;
    vf_ctx(M_CTX_PERSIST);
    m_mod_t *A = vf_mod(0, 0, NULL), *B = vf_mod(1, 0, NULL);
    int r = m_mod_start(A); VF_CHECK(r == 0, "start A");
    r = m_mod_start(B); VF_CHECK(r == 0, "start B");
    int fd = vf_user_fd(); VF_ASSUME(fd >= 0);
    r = m_mod_src_register_fd(A, fd, 0, NULL); VF_CHECK(r == 0, "A's descriptor");
#if BATCH == 3
    r = m_ctx_set_tick(1000000); VF_CHECK(r == 0, "tick");
#endif
    m_mod_t *W = vf_mod(2, 0, NULL);
    vf_set_errno = true; vf_errno_after_cb = nondet_int();
    _Bool wstart = nondet_bool(); vf_start_ret[2] = wstart;
    vf_eval_ret[2] = LOOPSTART ? true : false;
    r = m_ctx_dispatch(); VF_CHECK(r == 0, "loop starts");
    m_ctx_stats_t st;
#if LOOPSTART
    VF_CHECK(vf_nstart[2] == 1, "an IDLE module willing to start is started when the loop starts");
    VF_CHECK(m_mod_is(W, wstart ? M_MOD_RUNNING : M_MOD_STOPPED), "RUNNING, or STOPPED if its start callback refused");
#else
    VF_CHECK(vf_neval[2] == 1 && m_mod_is(W, M_MOD_IDLE) && vf_nstart[2] == 0, "W evaluated at loop start, not willing yet");
    vf_eval_ret[2] = true;                 /* from now on W wants to run */
#if BATCH == 0
    vf_fds[fd].ready = true;
#elif BATCH == 1
    r = m_mod_ps_tell(B, A, &pl, 0); VF_CHECK(r == 0, "tell");
#elif BATCH == 2
    r = m_mod_ps_poisonpill(B, A); VF_CHECK(r == 0, "pill");
#elif BATCH == 3
    vf_fire_timers();
#else
    r = m_mod_ps_poisonpill(B, A); VF_CHECK(r == 0, "pill");
    r = m_mod_ps_tell(A, B, &pl, 0); VF_CHECK(r == 0, "tell");
#endif
    r = m_ctx_dispatch();
    VF_CHECK(r >= 1, "the batch was processed");
    VF_CHECK(vf_nstart[2] == 1, "after a processed batch every IDLE module whose eval says yes has been started");
    VF_CHECK(m_mod_is(W, wstart ? M_MOD_RUNNING : M_MOD_STOPPED), "RUNNING, or STOPPED if its start callback refused");
#if BATCH == 2 || BATCH == 4
    VF_CHECK(m_mod_is(A, M_MOD_STOPPED) && vf_nstop[0] == 1, "the pill stopped A through its stop callback, once");
#endif
#endif
    r = m_ctx_stats(&st); VF_CHECK(r == 0, "stats while looping");
    VF_CHECK(st.running_modules == count_running(), "running modules reported == modules in RUNNING state");
    VF_CHECK(vf_evt_not_running == 0, "no handler for a module that is not RUNNING");
    VF_WITNESS("end");
    return 0;
}
