/* C07: the shared OS model (model/os_model.c, included unchanged) plus validity tracking of the thread-specific-data
 * key.  POSIX leaves pthread_getspecific/pthread_setspecific on a key that was never obtained from pthread_key_create
 * undefined; with glibc such a key (the zero-initialised static of ctx.c is key 0) aliases whatever component of the
 * process created key 0.  Here: key 0 belongs to "somebody else" whose slot holds a pointer to c07_foreign_tsd, the
 * library's own key is 1 once it has been created; any access through another key is counted. */
#define vf_pthread_key_create vf_base_pthread_key_create
#define vf_pthread_getspecific vf_base_pthread_getspecific
#define vf_pthread_setspecific vf_base_pthread_setspecific
#include "os_model.c"
#undef vf_pthread_key_create
#undef vf_pthread_getspecific
#undef vf_pthread_setspecific

_Bool c07_key_created;
int c07_foreign_reads, c07_foreign_writes;
long long c07_foreign_tsd[64];           /* zero-filled, large enough to be taken for a context */

int vf_pthread_key_create(pthread_key_t *k, void (*d)(void *)) {
    int r = vf_base_pthread_key_create(k, d);
    *k = 1; c07_key_created = 1;
    return r;
}
void *vf_pthread_getspecific(pthread_key_t k) {
    if (!c07_key_created || k != 1) { c07_foreign_reads++; return c07_foreign_tsd; }
    return vf_base_pthread_getspecific(k);
}
int vf_pthread_setspecific(pthread_key_t k, const void *v) {
    if (!c07_key_created || k != 1) { c07_foreign_writes++; return EINVAL; }
    return vf_base_pthread_setspecific(k, v);
}
