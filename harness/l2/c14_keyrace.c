/* C14 (no unsynchronised access to shared library state): two threads register the first contexts of the process at
 * the same time.  Thread 0 is pre-empted inside the library's first-use initialisation (the OS model makes
 * pthread_key_create() a scheduling point); thread 1 then runs its complete m_ctx_register() and a module
 * registration; thread 0 resumes.  Afterwards each thread must still see exactly its own context.
 * Symbolic: nothing but the solver's check of every assertion on this one schedule (the schedule is the point);
 * the job exists because call-granularity interleaving cannot see this class of defect. */
#include "vf.h"
#include "vf_os.h"
#include <module/mod.h>
#include <module/ctx.h>
#define VF_CUSTOM_KEY_HOOK
#include "l2.h"
static _Bool preempt, preempted;
static int r1 = 1, r1m = 1;
void vf_key_create_hook(void) {
    if (!preempt || preempted || vf_cur_thread != 0) return;
    /* a thread arriving while a pthread_once() initialisation is in progress blocks in its own pthread_once() at
     * once: pre-empting here changes nothing */
    if (vf_once_in_progress()) return;
    preempted = 1;
    vf_cur_thread = 1;
    r1 = m_ctx_register("one", M_CTX_PERSIST, NULL);
    r1m = m_mod_register("x", &vf_mods[1], &vf_hook, 0, NULL);
    vf_cur_thread = 0;
}
int vf_main(void) {
    preempt = 1;
    vf_cur_thread = 0;
    int r0 = m_ctx_register("zero", M_CTX_PERSIST, NULL);
    VF_CHECK(r0 == 0, "thread 0 registers its context");
    if (!preempted) {
        vf_cur_thread = 1;
        r1 = m_ctx_register("one", M_CTX_PERSIST, NULL);
        r1m = m_mod_register("x", &vf_mods[1], &vf_hook, 0, NULL);
    }
    VF_CHECK(r1 == 0 && r1m == 0, "thread 1 registers its context and a module in it");
    vf_cur_thread = 1;
    VF_CHECK(m_ctx_name() != NULL && m_ctx_name()[0] == 'o', "thread 1 still sees its own context");
    VF_CHECK(m_ctx_len() == 1, "... with its module");
    VF_CHECK(m_ctx_register("again", 0, NULL) == -EEXIST, "... and cannot register a second one");
    vf_cur_thread = 0;
    VF_CHECK(m_ctx_name() != NULL && m_ctx_name()[0] == 'z', "thread 0 sees its own context");
    VF_CHECK(m_ctx_len() == 0, "... which is empty");
    VF_CHECK(m_ctx_register("again", 0, NULL) == -EEXIST, "... and cannot register a second one");
    VF_WITNESS("end");
    return 0;
}
