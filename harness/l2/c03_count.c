/* C03: "the loop returns only when a module requested quit, when no module is RUNNING any more, or on a polling
 * failure" - B is paused and then stopped / deregistered / pilled... while PAUSED (ROUTE per job) with A still RUNNING:
 * the loop must go on serving A and the context must report exactly one running module.
 * Symbolic: errno left by callbacks, quit code. */
#include "vf.h"
#include "vf_os.h"
#include <module/mod.h>
#include <module/ctx.h>
#include "l2.h"
#ifndef ROUTE
#define ROUTE 0
#endif
static char ud;
int vf_main(void) {
    unsigned char code = nondet_uchar();
    vf_set_errno = true; vf_errno_after_cb = nondet_int();
    vf_ctx(M_CTX_PERSIST);
    m_mod_t *A = vf_mod(0, 0, NULL), *B = vf_mod(1, 0, NULL);
    int r = m_mod_start(A); VF_CHECK(r == 0, "start A");
    r = m_mod_start(B); VF_CHECK(r == 0, "start B");
    int fd = vf_user_fd(); VF_ASSUME(fd >= 0);
    r = m_mod_src_register_fd(A, fd, 0, &ud); VF_CHECK(r == 0, "A registers a descriptor");
    r = m_ctx_dispatch(); VF_CHECK(r == 0, "loop starts");
    r = m_mod_pause(B); VF_CHECK(r == 0, "pause B");
#if ROUTE == 0
    r = m_mod_stop(B); VF_CHECK(r == 0, "stop B while PAUSED");
#elif ROUTE == 1
    { m_mod_t *ref = m_mem_ref(B); r = m_mod_deregister(&ref); VF_CHECK(r == 0, "deregister B while PAUSED"); }
#else
    r = m_mod_resume(B); VF_CHECK(r == 0, "resume B"); r = m_mod_pause(B); VF_CHECK(r == 0, "pause B again");
    r = m_mod_stop(B); VF_CHECK(r == 0, "stop B"); r = m_mod_start(B); VF_CHECK(r == 0, "start B again"); r = m_mod_stop(B); VF_CHECK(r == 0, "and stop it");
#endif
    m_ctx_stats_t st; r = m_ctx_stats(&st);
    VF_CHECK(r == 0 && st.running_modules == 1, "the context reports exactly the one module that is RUNNING");
    vf_fds[fd].ready = true;
    r = m_ctx_dispatch();
    VF_CHECK(r == 1 && vf_nlog[0] == 1 && vf_log[0][0].userdata == &ud, "the loop goes on and serves the RUNNING module");
    vf_fds[fd].ready = false;
    r = m_ctx_dispatch(); VF_CHECK(r == 0, "still looping, nothing ready");
    r = m_ctx_quit(code); VF_CHECK(r == 0, "quit accepted: the loop had not stopped by itself");
    r = m_ctx_dispatch(); VF_CHECK(r == code, "the loop returns the requested code");
    VF_WITNESS("end");
    return 0;
}
