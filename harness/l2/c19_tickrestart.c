/* C19 (tick): with a tick configured, every expiry of the tick timer yields exactly one system-flagged CTX_TICK for a
 * subscriber - also after the loop was stopped and started again on the same context (no second, stale tick source
 * may keep firing).  Per job: RESTARTS (how often the loop is stopped and started again).
 * Symbolic: quit code, errno left by callbacks. */
#include "vf.h"
#include "vf_os.h"
#include <module/mod.h>
#include <module/ctx.h>
#ifndef VF_LOGN
#define VF_LOGN 8
#endif
#include "l2.h"
#ifndef RESTARTS
#define RESTARTS 1
#endif
static int ticks(void) { int n = 0; for (int k = 0; k < VF_LOGN; k++) if (k < vf_nlog[0] && vf_log[0][k].type == M_SRC_TYPE_PS && vf_log[0][k].system && vf_log[0][k].topic && strcmp(vf_log[0][k].topic, M_PS_CTX_TICK) == 0) n++; return n; }
int vf_main(void) {
    unsigned char code = nondet_uchar();
    vf_set_errno = true; vf_errno_after_cb = nondet_int();
    vf_ctx(M_CTX_PERSIST);
    m_mod_t *S = vf_mod(0, 0, NULL);
    int r = m_mod_start(S); VF_CHECK(r == 0, "start S");
    r = m_mod_ps_subscribe(S, M_PS_CTX_TICK, 0, NULL); VF_CHECK(r == 0, "S subscribes to the tick");
    r = m_ctx_set_tick(5000000); VF_CHECK(r == 0, "tick configured");
    int expect = 0;
    for (int round = 0; round <= RESTARTS; round++) {
        r = m_ctx_dispatch(); VF_CHECK(r == 0, "loop starts");
        VF_CHECK(vf_find_kind(VF_TIMER, 0) >= 0 && vf_find_kind(VF_TIMER, 1) < 0, "exactly one tick timer is armed while the loop runs");
        VF_CHECK(vf_fds[vf_find_kind(VF_TIMER, 0)].period_ns == 5000000, "armed with the configured period");
        vf_fire_timers(); expect++;                 /* one expiry */
        for (int d = 0; d < 4; d++) r = m_ctx_dispatch();
        VF_CHECK(ticks() == expect, "one expiry, one tick notification - no more, no fewer");
        r = m_ctx_quit(code); VF_CHECK(r == 0, "quit");
        r = m_ctx_dispatch(); VF_CHECK(r == code, "loop stops");
        VF_CHECK(vf_find_kind(VF_TIMER, 0) < 0, "no tick timer left armed while the loop is stopped");
    }
    for (int k = 0; k < VF_LOGN; k++) if (k < vf_nlog[0] && vf_log[0][k].type == M_SRC_TYPE_PS) VF_CHECK(vf_log[0][k].system && vf_log[0][k].data == NULL, "system-flagged, no payload");
    VF_WITNESS("end");
    return 0;
}
