/* C15: "a persistent module cannot be deregistered by a direct call while its context loops" - the context loops
 * until the loop has actually returned, also after a quit was requested.  A handler of module B requests quit (or not,
 * per job QUIT) and then tries to deregister the persistent module K.
 * Symbolic: quit code, errno left by callbacks. */
#include "vf.h"
#include "vf_os.h"
#include <module/mod.h>
#include <module/ctx.h>
#ifndef QUIT
#define QUIT 1
#endif
#define VF_ACTION my_action
static void my_action(int who, int kind, struct _mod *m, const m_queue_t *q);
#include "l2.h"
static int rd = 1, tried; static unsigned char code;
static void my_action(int who, int kind, m_mod_t *m, const m_queue_t *q) {
    if (who == 1 && kind == VF_CB_EVT && !tried) {
        tried = 1;
#if QUIT
        int r = m_ctx_quit(code); VF_CHECK(r == 0, "quit requested from the handler");
#endif
        rd = m_mod_deregister(&vf_mods[0]);
    }
}
int vf_main(void) {
    static char pl;
    code = nondet_uchar();
    vf_set_errno = true; vf_errno_after_cb = nondet_int();
    vf_ctx(M_CTX_PERSIST);
    m_mod_t *K = vf_mod(0, M_MOD_PERSIST, NULL), *B = vf_mod(1, 0, NULL);
    int r = m_mod_start(K); VF_CHECK(r == 0, "start K");
    r = m_mod_start(B); VF_CHECK(r == 0, "start B");
    r = m_ctx_dispatch(); VF_CHECK(r == 0, "loop starts");
    r = m_mod_ps_tell(K, B, &pl, 0); VF_CHECK(r == 0, "tell B");
    r = m_ctx_dispatch();
    VF_CHECK(tried, "B's handler ran");
    VF_CHECK(rd < 0, "direct deregistration of a persistent module is refused while the context loops");
    VF_CHECK(vf_mods[0] == K && m_mod_is(K, M_MOD_RUNNING) && vf_nstop[0] == 0, "... and changes nothing");
    VF_CHECK(m_ctx_len() == 2, "both modules still registered");
#if QUIT
    r = m_ctx_dispatch(); VF_CHECK(r == code, "loop returns");
#else
    r = m_ctx_quit(code); r = m_ctx_dispatch();
#endif
    r = m_mod_deregister(&vf_mods[0]); VF_CHECK(r == 0, "once the loop has returned the persistent module can be deregistered");
    VF_WITNESS("end");
    return 0;
}
