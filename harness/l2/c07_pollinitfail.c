/* C07: a loop that FAILS to start (the poll backend cannot allocate its event buffer: the configured allocator returns
 * NULL once) leaves the context idle: it can be deregistered (modules become ZOMBIE), and the thread can register a
 * fresh context.  The allocator is the public hook (m_set_memhook); only the one calloc of the event buffer fails.
 * Symbolic: errno left by callbacks. */
#include "vf.h"
#include "vf_os.h"
#include <module/mod.h>
#include <module/ctx.h>
#include "l2.h"
static int fail_next_big;
void *vf_calloc(size_t n, size_t sz) {
    if (fail_next_big && n == 64) { fail_next_big = 0; return NULL; }     /* M_CTX_DEFAULT_EVENTS epoll_event slots */
    return calloc(n, sz);
}
int vf_main(void) {
    vf_set_errno = true; vf_errno_after_cb = nondet_int();
    { int hr = m_set_memhook(malloc, vf_calloc, free); VF_ASSUME(hr == 0); }
    vf_ctx(M_CTX_PERSIST);
    m_mod_t *A = vf_mod(0, 0, NULL);
    m_mod_t *keep = m_mem_ref(A);
    int r = m_mod_start(A); VF_CHECK(r == 0, "start A");
    fail_next_big = 1;
    r = m_ctx_dispatch();
    VF_CHECK(r != 0 && fail_next_big == 0, "the loop cannot start: the event buffer allocation failed");
    r = m_ctx_deregister();
    VF_CHECK(r == 0, "a context whose loop never started is idle: it can be deregistered");
    VF_CHECK(m_mod_is(keep, M_MOD_ZOMBIE), "its module became ZOMBIE");
    VF_CHECK(m_ctx_name() == NULL, "the thread has no context");
    m_mem_unref(keep); m_mem_unref(A);
    r = m_ctx_register("again", 0, NULL); VF_CHECK(r == 0, "and can register a fresh one");
    VF_WITNESS("end");
    return 0;
}
