/* C03: "a one-shot source fires at most once and is then no longer registered" when SEVERAL matching messages are
 * already queued before the subscriber is served (each carries the subscription it matched when it was sent).
 * RESUB (per job): the handler subscribes to the topic again, persistently, while handling the first message: the
 * stale queued messages of the fired one-shot subscription must neither be delivered nor remove the new subscription;
 * a message published afterwards is delivered through the new subscription.
 * Symbolic: errno left by callbacks. */
#include "vf.h"
#include "vf_os.h"
#include <module/mod.h>
#include <module/ctx.h>
#define VF_ACTION my_action
#include "l2.h"
#ifndef RESUB
#define RESUB 0
#endif
#ifndef NQ
#define NQ 2
#endif
static char p[NQ + 1], ud, ud2;
static int resub_r = -1, done;
static void my_action(int who, int kind, m_mod_t *m, const m_queue_t *q) {
    (void)q;
#if RESUB
    if (who == 1 && kind == VF_CB_EVT && !done) { done = 1; resub_r = m_mod_ps_subscribe(m, "t", 0, &ud2); }
#endif
}
int vf_main(void) {
    vf_set_errno = true; vf_errno_after_cb = nondet_int();
    vf_ctx(M_CTX_PERSIST);
    m_mod_t *A = vf_mod(0, 0, NULL), *B = vf_mod(1, 0, NULL);
    int r = m_mod_start(A); VF_CHECK(r == 0, "start A");
    r = m_mod_start(B); VF_CHECK(r == 0, "start B");
    r = m_mod_ps_subscribe(B, "t", M_SRC_ONESHOT, &ud); VF_CHECK(r == 0, "one-shot subscription");
    r = m_ctx_dispatch(); VF_CHECK(r == 0, "loop starts");
    for (int i = 0; i < NQ; i++) { r = m_mod_ps_publish(A, "t", &p[i], 0); VF_CHECK(r == 0, "publish before B is served"); }
    for (int d = 0; d < NQ + 1; d++) r = m_ctx_dispatch();
    VF_CHECK(vf_nlog[1] == 1 && vf_log[1][0].data == &p[0] && vf_log[1][0].userdata == &ud, "the one-shot subscription fired once, for the first message");
#if RESUB
    VF_CHECK(resub_r == 0, "subscribing again from the handler succeeds");
    VF_CHECK(m_mod_src_len(B, M_SRC_TYPE_PS) == 1, "the new subscription survives the stale messages of the old one");
    r = m_mod_ps_publish(A, "t", &p[NQ], 0); VF_CHECK(r == 0, "publish again");
    r = m_ctx_dispatch();
    VF_CHECK(vf_nlog[1] == 2 && vf_log[1][1].data == &p[NQ] && vf_log[1][1].userdata == &ud2, "and receives what is published afterwards, with its own user data");
#else
    VF_CHECK(m_mod_src_len(B, M_SRC_TYPE_PS) == 0, "and is no longer registered");
#endif
    VF_WITNESS("end");
    return 0;
}
