/* C20: THREE auto-close descriptor sources (or three timers: KIND 1) of one module, registered in the order
 * middle, low, high key - the middle one sits in a tree node with two children - and the middle one leaves on its own
 * (deregistered: HOW 0; fires as a one-shot: HOW 1).  Exactly ITS descriptor is closed, exactly once and at that moment;
 * the other two stay open and registered, and go when the module does.
 * Symbolic: errno left by callbacks. */
#include "vf.h"
#include "vf_os.h"
#include <module/mod.h>
#include <module/ctx.h>
#include "l2.h"
#include "c20_oracle.c"
#ifndef HOW
#define HOW 0
#endif
#ifndef KIND
#define KIND 0
#endif
static char ud[3];
int vf_main(void) {
    vf_set_errno = true; vf_errno_after_cb = nondet_int();
    vf_ctx(0);
    m_mod_t *A = vf_mod(0, 0, NULL);
    int r = m_mod_start(A); VF_CHECK(r == 0, "start A");
#if KIND == 0
    int f[3]; for (int i = 0; i < 3; i++) f[i] = c20_user_fd(true);
    /* ascending descriptor numbers: register middle, low, high */
    const int ord[3] = { 1, 0, 2 };
    for (int k = 0; k < 3; k++) { int i = ord[k]; r = m_mod_src_register_fd(A, f[i], M_SRC_FD_AUTOCLOSE | ((HOW == 1 && i == 1) ? M_SRC_ONESHOT : 0), &ud[i]); VF_CHECK(r == 0, "register auto-close descriptor"); }
    r = m_ctx_dispatch(); VF_CHECK(r == 0, "loop starts");
#if HOW == 0
    r = m_mod_src_deregister_fd(A, f[1]); VF_CHECK(r == 0, "deregister the middle one");
#else
    vf_fds[f[1]].ready = true;
    r = m_ctx_dispatch(); VF_CHECK(r == 1 && vf_nlog[0] == 1 && vf_log[0][0].userdata == &ud[1], "the middle one fires once");
#endif
    VF_CHECK(vf_user_close[f[1]] == 1 && !vf_is_open(f[1]), "exactly the descriptor of the source that left is closed, once");
    VF_CHECK(vf_user_close[f[0]] == 0 && vf_is_open(f[0]) && vf_user_close[f[2]] == 0 && vf_is_open(f[2]), "the other two stay open");
    VF_CHECK(m_mod_src_len(A, M_SRC_TYPE_FD) == 2, "two sources left");
    c20_invariant();
    vf_fds[f[0]].ready = true; vf_fds[f[2]].ready = true;
    int before = vf_nlog[0];
    r = m_ctx_dispatch(); VF_CHECK(r == 2 && vf_nlog[0] == before + 2, "and keep delivering");
#else
    static m_src_tmr_t T[3] = { { CLOCK_MONOTONIC, 3000000 }, { CLOCK_MONOTONIC, 5000000 }, { CLOCK_MONOTONIC, 7000000 } };
    const int ord[3] = { 1, 0, 2 };
    for (int k = 0; k < 3; k++) { int i = ord[k]; r = m_mod_src_register_tmr(A, &T[i], 0, &ud[i]); VF_CHECK(r == 0, "register timer"); }
    r = m_ctx_dispatch(); VF_CHECK(r == 0, "loop starts");
    int open0 = vf_lib_open();
    r = m_mod_src_deregister_tmr(A, &T[1]); VF_CHECK(r == 0, "deregister the middle one");
    VF_CHECK(vf_lib_open() == open0 - 1, "exactly one library descriptor (its timer) is closed");
    int armed = 0; for (int i = 0; i < VF_NFD; i++) if (vf_fds[i].kind == VF_TIMER) { armed++; VF_CHECK(vf_fds[i].period_ns != 5000000, "the timer that is left is not the deregistered one's"); }
    VF_CHECK(armed == 2 && m_mod_src_len(A, M_SRC_TYPE_TMR) == 2, "two timers left");
    c20_invariant();
#endif
    r = m_ctx_quit(0); VF_CHECK(r == 0, "quit");
    r = m_ctx_dispatch(); VF_CHECK(r == 0, "loop ends");
    r = m_mod_deregister(&vf_mods[0]); VF_CHECK(r == 0, "deregister A: the context goes with it");
    c20_final();
    VF_WITNESS("end");
    return 0;
}
