/* C20 descriptor hygiene, main family: one source of kind KIND registered on the RUNNING module A, A leaves the
 * RUNNING state along ROUTE, then everything is torn down (every module deregistered explicitly, non-persistent
 * context released with the last module / when the loop stops).  Oracle (c20_oracle.c): at the end no library-owned
 * descriptor is open, the user descriptor was closed exactly once iff registered with auto-close (and not before the
 * source was deregistered / its module stopped), no close() of a descriptor that is not open at any point.
 * Per job (shape / call-order changing): KIND (1 fd, 2 timer, 3 signal, 4 path, 5 pid, 6 task, 7 threshold), DUP (fd:
 * library works on a duplicate), ONESHOT, AC, FIRE (the source fires once and is delivered before the route), LOOP (loop
 * started with m_ctx_dispatch before the source is registered), ROUTE:
 *   0 m_mod_stop(A) from outside          1 poison pill sent by B, read by the loop
 *   2 m_mod_deregister(&A) from outside   3 A deregisters itself in the handler of the source's event
 *   4 m_mod_src_deregister_*() then stop  5 pause, resume, stop
 *   6 pause, stop while PAUSED            7 A stops itself in the handler of the source's event
 *   8 pause, m_mod_src_deregister_*() while PAUSED, resume, stop
 * AC (auto-close bit; also passed for the other kinds, where it must not matter).
 * Symbolic: errno left by callbacks; SYMKEY bit 0: timer clock id, bit 2: task id (only where no registry comparison
 * reads them).  A symbolic bit in the flag word, a symbolic timer period, signal number or pid give no verdict (measured:
 * > 150 s against 10 s), so flags are per-job constants.
 * Known finding C20_dup_autoclose (excluded under -DVF_KF_C20_dup_autoclose): with DUP|AUTOCLOSE the library closes
 * its duplicate only; what happens to the user's descriptor is then not asserted. */
#include "vf.h"
#include "vf_os.h"
#include <module/mod.h>
#include <module/ctx.h>
#ifndef KIND
#define KIND 2
#endif
#ifndef ROUTE
#define ROUTE 0
#endif
#ifndef DUP
#define DUP 0
#endif
#ifndef ONESHOT
#define ONESHOT 0
#endif
#ifndef FIRE
#define FIRE 0
#endif
#if ROUTE == 1 || ROUTE == 3 || ROUTE == 7 || FIRE
#undef LOOP
#define LOOP 1
#endif
#ifndef LOOP
#define LOOP 0
#endif
#ifndef AC
#define AC 0
#endif
#ifndef SYMKEY
#define SYMKEY 5
#endif
#define IN_HANDLER (ROUTE == 3 || ROUTE == 7)
/* the source fired and was one-shot: it has left the registry (and, with auto-close, its descriptor is closed) */
#define GONE (FIRE && (ONESHOT || KIND >= 6))
#define C20_STILL_REGISTERED() do { if (GONE) c20_invariant(); else c20_untouched(); } while (0)

int my_task(void *arg) { (void)arg; return 41; }
#define VF_ACTION my_action
static void my_action(int who, int kind, struct _mod *m, const m_queue_t *q);
#include "l2.h"
#include "c20_oracle.c"

static _Bool act_armed;
static int acted;
static void my_action(int who, int kind, m_mod_t *m, const m_queue_t *q) {
    (void)q;
#if IN_HANDLER
    if (kind == VF_CB_EVT && who == 0 && act_armed) {
        act_armed = 0; acted++;
        c20_untouched();
#if ROUTE == 3
        m_mod_t *ref = vf_mods[0];          /* the user's own reference goes away with the deregistration */
        int r = m_mod_deregister(&ref); VF_CHECK(r == 0 && ref == NULL, "A deregisters itself inside its handler");
#else
        int r = m_mod_stop(m); VF_CHECK(r == 0, "A stops itself inside its handler");
#endif
        c20_invariant();
    }
#else
    (void)who; (void)kind; (void)m;
#endif
}

static char ud;
static int ufd = -1;
static m_src_tmr_t k_tmr; static m_src_sgn_t k_sgn; static m_src_path_t k_path; static m_src_pid_t k_pid;
static m_src_task_t k_task; static m_src_thresh_t k_thr;

static int reg_src(m_mod_t *A, m_src_flags fl) {
    switch (KIND) {
    case 1: return m_mod_src_register_fd(A, ufd, fl, &ud);
    case 2: return m_mod_src_register_tmr(A, &k_tmr, fl, &ud);
    case 3: return m_mod_src_register_sgn(A, &k_sgn, fl, &ud);
    case 4: return m_mod_src_register_path(A, &k_path, fl, &ud);
    case 5: return m_mod_src_register_pid(A, &k_pid, fl, &ud);
    case 6: return m_mod_src_register_task(A, &k_task, fl, &ud);
    default: return m_mod_src_register_thresh(A, &k_thr, fl, &ud);
    }
}
static int dereg_src(m_mod_t *A) {
    switch (KIND) {
    case 1: return m_mod_src_deregister_fd(A, DUP ? c20_find_dup() : ufd);   /* the source is keyed by the descriptor it polls */
    case 2: return m_mod_src_deregister_tmr(A, &k_tmr);
    case 3: return m_mod_src_deregister_sgn(A, &k_sgn);
    case 4: return m_mod_src_deregister_path(A, &k_path);
    case 5: return m_mod_src_deregister_pid(A, &k_pid);
    case 6: return m_mod_src_deregister_task(A, &k_task);
    default: return m_mod_src_deregister_thresh(A, &k_thr);
    }
}
static void make_ready(void) {
    switch (KIND) {
    case 1: { int f = DUP ? c20_find_dup() : ufd; VF_ASSUME(f >= 0); vf_fds[f].ready = true; break; }
    case 2: vf_fire_timers(); break;
    case 3: { int f = vf_find_kind(VF_SIGNAL, 0); VF_ASSUME(f >= 0); vf_fds[f].ready = true; break; }
    case 4: { int f = vf_find_kind(VF_INOTIFY, 0); VF_ASSUME(f >= 0); vf_fds[f].ready = true; break; }
    case 5: { int f = vf_find_kind(VF_PIDFD, 0); VF_ASSUME(f >= 0); vf_fds[f].ready = true; break; }
    case 6: vf_run_tasks(); break;
    default: { int f = vf_find_kind(VF_EVENTFD, 0); VF_ASSUME(f >= 0); uint64_t one = 1; vf_write(f, &one, sizeof(one)); break; }
    }
}

int vf_main(void) {
    int r;
    vf_ctx(0);                                           /* not persistent: released with its last module */
    m_mod_t *A = vf_mod(0, 0, NULL);
    r = m_mod_start(A); VF_CHECK(r == 0, "start A");
#if ROUTE == 1
    m_mod_t *B = vf_mod(1, 0, NULL);
    r = m_mod_start(B); VF_CHECK(r == 0, "start B");
#endif
#if LOOP
    r = m_ctx_dispatch(); VF_CHECK(r == 0, "loop starts");
#endif
    VF_CHECK(vf_lib_open() == 1 + 2 * (ROUTE == 1 ? 2 : 1), "harness sanity: poll handle and one message pipe per started module");

    const _Bool ac = AC;
    vf_set_errno = true; vf_errno_after_cb = nondet_int();
    m_src_flags fl = (ac ? M_SRC_FD_AUTOCLOSE : 0) | (DUP ? M_SRC_DUP : 0) | (ONESHOT ? M_SRC_ONESHOT : 0);
#if SYMKEY & 1
    k_tmr.clock_id = nondet_bool() ? CLOCK_MONOTONIC : CLOCK_REALTIME;
#else
    k_tmr.clock_id = CLOCK_MONOTONIC;
#endif
    k_tmr.ns = 5000000;
#if SYMKEY & 4
    k_task.tid = nondet_int();
#else
    k_task.tid = 3;
#endif
    k_sgn.signo = 10; k_pid.pid = 77; k_pid.events = 0; k_thr.inactive_ms = 1000; k_thr.activity_freq = 0;
    k_path.path = "/p"; k_path.events = IN_MODIFY;
    k_task.fn = my_task;
    if (KIND == 1) {
        /* what the property says about the user's descriptor: closed by the library iff registered with auto-close */
        ufd = c20_user_fd(ac);
#if DUP && defined(VF_KF_C20_dup_autoclose)
        /* known finding excluded: with DUP the library's de-facto contract is "the original stays the user's" */
        if (ac) c20_nufd = 0;
#endif
    }
    int before = vf_lib_open();
    r = reg_src(A, fl); VF_CHECK(r == 0, "A registers the source under test");
    c20_untouched();
    if (KIND == 1) VF_CHECK(vf_lib_open() == before + (DUP ? 1 : 0), "harness sanity: an fd source opens a descriptor only for a requested duplicate");
    else VF_CHECK(vf_lib_open() == before + 1, "harness sanity: one internal descriptor per non-fd source on a RUNNING module");

#if FIRE
    make_ready();
    r = m_ctx_dispatch(); VF_CHECK(r == 1, "the source fires once");
    VF_CHECK(vf_ncalls[0] == 1, "and is delivered to A");
    c20_invariant();
    C20_STILL_REGISTERED();
    if (GONE) c20_user_settled();        /* a one-shot source is deregistered by its first event */
#endif

    /* ---- the route out of RUNNING ---- */
#if ROUTE == 0
    r = m_mod_stop(A); VF_CHECK(r == 0, "stop A");
#elif ROUTE == 1
    r = m_mod_ps_poisonpill(B, A); VF_CHECK(r == 0, "B sends A the poison pill");
    C20_STILL_REGISTERED();
    r = m_ctx_dispatch();
    VF_CHECK(m_mod_is(A, M_MOD_STOPPED), "the pill stopped A");
#elif ROUTE == 2
    r = m_mod_deregister(&A); VF_CHECK(r == 0 && A == NULL, "deregister A from outside");
#elif ROUTE == 3 || ROUTE == 7
    act_armed = 1;
    make_ready();
    r = m_ctx_dispatch();
    VF_CHECK(acted == 1, "the handler ran on the source's event");
#if ROUTE == 3
    A = NULL; vf_mods[0] = NULL;
#else
    VF_CHECK(m_mod_is(A, M_MOD_STOPPED), "A stopped itself");
#endif
#elif ROUTE == 4
    r = dereg_src(A);
    if (KIND == 6) VF_CHECK(r == -EPERM, "tasks cannot be deregistered"); else VF_CHECK(r == 0, "explicit deregistration of the source");
    if (KIND != 6) c20_user_settled();
    r = m_mod_stop(A); VF_CHECK(r == 0, "stop A");
#elif ROUTE == 5
    r = m_mod_pause(A); VF_CHECK(r == 0, "pause A");
    C20_STILL_REGISTERED();
    r = m_mod_resume(A); VF_CHECK(r == 0, "resume A");
    C20_STILL_REGISTERED();
    r = m_mod_stop(A); VF_CHECK(r == 0, "stop A");
#elif ROUTE == 6
    r = m_mod_pause(A); VF_CHECK(r == 0, "pause A");
    C20_STILL_REGISTERED();
    r = m_mod_stop(A); VF_CHECK(r == 0, "stop A while PAUSED");
#elif ROUTE == 8
    r = m_mod_pause(A); VF_CHECK(r == 0, "pause A");
    C20_STILL_REGISTERED();
    r = dereg_src(A);
    if (KIND == 6) VF_CHECK(r == -EPERM, "tasks cannot be deregistered"); else VF_CHECK(r == 0, "explicit deregistration while PAUSED");
    if (KIND != 6) c20_user_settled();
    r = m_mod_resume(A); VF_CHECK(r == 0, "resume A");
    r = m_mod_stop(A); VF_CHECK(r == 0, "stop A");
#endif
    /* A is STOPPED or gone and no event of the source is held by anybody */
    c20_user_settled();

    /* ---- teardown: every module deregistered explicitly, the loop (if any) ended ---- */
    if (A) { r = m_mod_deregister(&A); VF_CHECK(r == 0 && A == NULL, "deregister A"); }
#if ROUTE == 1
    r = m_mod_deregister(&B); VF_CHECK(r == 0 && B == NULL, "deregister B");
#endif
#if LOOP
    if (m_ctx_name() != NULL) { r = m_ctx_dispatch(); VF_CHECK(r == 0, "no module left: the loop stops"); }
#endif
    c20_final();
    VF_WITNESS("end");
    return 0;
}
