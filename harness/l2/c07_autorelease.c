/* C07 (automatic release): a non-persistent context is released when its last module is deregistered - immediately if
 * the context is idle, when the loop returns if it is looping; a persistent one survives with zero modules until it is
 * deregistered explicitly.  Afterwards the thread can register a fresh context and, once the user references are
 * dropped, every library allocation has been released (allocator hook count).
 * Per job: NMOD (1..2), PERSIST, UDAUTO (M_CTX_USERDATA_AUTOFREE), KEEP (the user holds a second reference on every module), ST (state of the modules
 * in the idle modes: 0 IDLE, 1 RUNNING, 2 PAUSED, 3 STOPPED), MODE:
 *   0 idle context, modules deregistered one after the other by direct calls
 *   1 idle context, the last module deregisters itself from inside its start callback (m_mod_start on an idle context)
 *   2 looping (m_ctx_dispatch): every module deregisters itself from inside its event handler
 *   3 looping (blocking m_ctx_loop): same
 *   4 idle context, the only module allows replacement and a module of the same name is registered
 *   5 idle context, two modules: the user deregisters A, whose stop callback deregisters B
 *   6 as 2, but the handler of the last module registers a new module before returning: the context is not empty when
 *     the loop returns and must survive
 * Symbolic: errno left by callbacks, module user data identity (the loops end because nobody is RUNNING any more: no
 * quit code). */
#include "vf.h"
#include "vf_os.h"
#include <module/mod.h>
#include <module/ctx.h>
#ifndef NMOD
#define NMOD 1
#endif
#ifndef PERSIST
#define PERSIST 0
#endif
#ifndef KEEP
#define KEEP 1
#endif
#ifndef ST
#define ST 1
#endif
#ifndef MODE
#define MODE 0
#endif
#ifndef UDAUTO
#define UDAUTO 0
#endif
#if (MODE == 4 && NMOD != 1) || (MODE == 5 && NMOD != 2)
#error "module count does not fit the mode"
#endif
#define LOOPING (MODE == 2 || MODE == 3 || MODE == 6)
#define VF_ACTION my_action
static void my_action(int who, int kind, struct _mod *m, const m_queue_t *q);
#include "l2.h"
#include "c07_common.h"

static m_mod_t *keep[3];                /* the user's second references */
static m_mod_t *extra, *extra_keep;     /* MODE 6: the module registered from inside the handler */
static int gone;                        /* modules deregistered so far */
static int in_cb_len[3] = { -100, -100, -100 }, in_cb_dereg[3] = { 1, 1, 1 }, in_cb_ret[3] = { 1, 1, 1 };
static char udcell[2];

static void my_action(int who, int kind, m_mod_t *m, const m_queue_t *q) {
    (void)q;
#if MODE == 1
    if (kind == VF_CB_START && who == NMOD - 1) {
        m_mod_t *self = m;
        in_cb_ret[who] = m_mod_deregister(&self);
        gone++;
    }
#elif LOOPING
    if (kind == VF_CB_EVT && m != extra && !m_mod_is(m, M_MOD_ZOMBIE)) {
        m_mod_t *self = m;
        in_cb_ret[who] = m_mod_deregister(&self);
        gone++;
        in_cb_len[who] = (int)m_ctx_len();          /* the looping context is still there, also without modules */
        in_cb_dereg[who] = m_ctx_deregister();      /* and refuses to go */
#if MODE == 6
        if (gone == NMOD) {
            int rr = m_mod_register("d", &extra, &vf_hook, 0, NULL);
            VF_CHECK(rr == 0 && extra != NULL, "a module can be registered in a looping context that just lost its last one");
            extra_keep = m_mem_ref(extra);
        }
#endif
    }
#elif MODE == 5
    if (kind == VF_CB_STOP && who == 0 && !m_mod_is(vf_mods[1], M_MOD_ZOMBIE)) {
        in_cb_ret[1] = m_mod_deregister(&vf_mods[1]);
        gone++;
    }
#else
    (void)who; (void)kind; (void)m;
#endif
}

static void check_alive(int expect_len) {
    VF_CHECK(m_ctx_len() == expect_len, "the context is still there and counts its modules");
    int r = m_ctx_register("second", 0, NULL);
    VF_CHECK(r == -EEXIST, "a second context on the thread is refused with EEXIST while the first one exists");
}

int vf_main(void) {
    int r;
    c07_hook();
    void *cud = c07_user_block(0, 1);
    const _Bool ud_auto = UDAUTO;      /* per job: a symbolic flag word makes the PERSIST / NAME_DUP tests inside the library symbolic */
    r = m_ctx_register("ctx", (PERSIST ? M_CTX_PERSIST : 0) | (ud_auto ? M_CTX_USERDATA_AUTOFREE : 0), cud);
    VF_CHECK(r == 0, "context registered");
    _Bool which_ud = nondet_bool();
    for (int i = 0; i < NMOD; i++) {
        r = m_mod_register(vf_names[i], &vf_mods[i], &vf_hook, MODE == 4 ? M_MOD_ALLOW_REPLACE : 0, &udcell[which_ud]);
        VF_CHECK(r == 0 && vf_mods[i] != NULL, "module registered");
#if KEEP
        keep[i] = m_mem_ref(vf_mods[i]);
#endif
    }
    vf_set_errno = true; vf_errno_after_cb = nondet_int();
    _Bool act[3] = { 0, 0, 0 };        /* modules that are RUNNING or PAUSED when they are deregistered */
#if LOOPING
    for (int i = 0; i < NMOD; i++) {
        r = m_mod_start(vf_mods[i]); VF_CHECK(r == 0, "start");
        r = m_mod_ps_tell(vf_mods[i], vf_mods[i], "go", 0); VF_CHECK(r == 0, "a message that will wake the module up");
    }
    for (int i = 0; i < NMOD; i++) act[i] = 1;
#else
    for (int i = 0; i < NMOD; i++) {
        if (MODE == 1 && i == NMOD - 1) { act[i] = 1; continue; }      /* started below: RUNNING inside its start callback */
        if (ST >= 1) { r = m_mod_start(vf_mods[i]); VF_CHECK(r == 0, "start"); }
        if (ST == 2) { r = m_mod_pause(vf_mods[i]); VF_CHECK(r == 0, "pause"); }
        if (ST == 3) { r = m_mod_stop(vf_mods[i]); VF_CHECK(r == 0, "stop"); }
        if (ST == 1 || ST == 2) act[i] = 1;
    }
#endif
    int base[3]; for (int i = 0; i < 3; i++) base[i] = vf_nstop[i];

#if MODE == 0
    for (int i = 0; i < NMOD; i++) {
        check_alive(NMOD - i);
        r = m_mod_deregister(&vf_mods[i]);
        VF_CHECK(r == 0 && vf_mods[i] == NULL, "module deregistered, the user's reference is taken");
        gone++;
    }
#elif MODE == 1
    for (int i = 0; i < NMOD - 1; i++) { r = m_mod_deregister(&vf_mods[i]); VF_CHECK(r == 0, "module deregistered"); gone++; }
    check_alive(1);
    (void)m_mod_start(vf_mods[NMOD - 1]);           /* its start callback deregisters it */
    VF_CHECK(in_cb_ret[NMOD - 1] == 0, "a module deregisters itself from inside its start callback");
    VF_CHECK(vf_nstart[NMOD - 1] == 1, "start callback ran");
#elif MODE == 2 || MODE == 6
    r = m_ctx_dispatch(); VF_CHECK(r == 0, "loop starts");
    r = m_ctx_dispatch(); VF_CHECK(r == NMOD, "every module got its message");
    VF_CHECK(gone == NMOD, "every module deregistered itself from inside its handler");
#if MODE == 2
    VF_CHECK(m_ctx_len() == 0, "a looping context stays until the loop returns, even without modules");
    r = m_ctx_deregister(); VF_CHECK(r < 0, "a looping context refuses to be deregistered (between dispatch calls)");
    r = m_ctx_dispatch(); VF_CHECK(r == 0, "nobody is RUNNING any more: the loop ends");
#else
    VF_CHECK(m_ctx_len() == 1, "the module registered from inside the handler is counted");
    r = m_ctx_quit(0); VF_CHECK(r == 0, "quit");
    r = m_ctx_dispatch(); VF_CHECK(r == 0, "the loop ends");
#endif
#elif MODE == 3
    r = m_ctx_loop(); VF_CHECK(r == 0, "nobody is RUNNING any more: the loop returns");
    VF_CHECK(gone == NMOD, "every module deregistered itself from inside its handler");
#elif MODE == 4
    {
        m_mod_t *old = vf_mods[0], *neu = NULL;
        r = m_mod_register(vf_names[0], &neu, &vf_hook, 0, NULL);
        VF_CHECK(r == 0 && neu != NULL, "a module that allows it is replaced by a new one of the same name");
        gone++;
#if KEEP
        VF_CHECK(m_mod_is(old, M_MOD_ZOMBIE), "the replaced module was deregistered");
#endif
        /* (the callbacks of the new module are recorded under index 0 as well: judge the old one's stop callback now) */
        if (act[0]) VF_CHECK(vf_nstop[0] - base[0] == 1, "a RUNNING or PAUSED module is stopped through its stop callback when replaced, exactly once");
        act[0] = 0;
        m_mem_unref(old);              /* the reference m_mod_register() gave the user for the old module */
        check_alive(1);
        VF_CHECK(m_mod_is(neu, M_MOD_IDLE), "the new module is registered");
        r = m_mod_start(neu); VF_CHECK(r == 0 && m_mod_is(neu, M_MOD_RUNNING), "and can be operated: the thread's context is the one it lives in");
        extra = neu; extra_keep = m_mem_ref(neu);
        r = m_mod_deregister(&extra); VF_CHECK(r == 0, "the new module is deregistered");
    }
#elif MODE == 5
    check_alive(2);
    r = m_mod_deregister(&vf_mods[0]); gone++;
    VF_CHECK(gone == 2, "the stop callback of A deregistered B");
#endif

    /* ---- every module is gone ---- */
#if LOOPING
    for (int i = 0; i < NMOD; i++) {
        VF_CHECK(in_cb_ret[i] == 0, "a module deregisters itself from inside its handler");
        VF_CHECK(in_cb_len[i] >= 0 && in_cb_len[i] < NMOD, "inside the loop the context is still registered, whatever the number of modules left");
        VF_CHECK(in_cb_dereg[i] < 0, "a looping context refuses to be deregistered (from inside a handler)");
    }
#endif
#if KEEP
    for (int i = 0; i < NMOD; i++) {
        VF_CHECK(m_mod_is(keep[i], M_MOD_ZOMBIE), "deregistered modules are ZOMBIE");
        VF_CHECK(m_mod_userdata(keep[i]) == &udcell[which_ud], "a zombie still answers the plain getters");
    }
#endif
    for (int i = 0; i < NMOD; i++) if (act[i]) VF_CHECK(vf_nstop[i] - base[i] == 1, "a RUNNING or PAUSED module is stopped through its stop callback when deregistered, exactly once");
#if MODE == 6
    check_alive(1);                     /* not empty when the loop returned: it stays, whatever its flags */
    r = m_mod_deregister(&extra); VF_CHECK(r == 0, "the late module is deregistered on the idle context");
#endif
#if PERSIST
    check_alive(0);
    VF_CHECK(m_ctx_userdata() == cud, "a persistent context survives the deregistration of its last module");
    r = m_ctx_deregister(); VF_CHECK(r == 0, "until it is deregistered explicitly");
#endif
    VF_CHECK(m_ctx_len() == -EPIPE, "the context has been released: context calls fail with EPIPE");
    VF_CHECK(m_ctx_name() == NULL, "no context name any more");
    r = m_ctx_register("fresh", M_CTX_PERSIST, NULL); VF_CHECK(r == 0, "the thread registers a fresh context");
    VF_CHECK(m_ctx_len() == 0, "which is empty");
    r = m_ctx_deregister(); VF_CHECK(r == 0, "and deregisters it");
#if KEEP
    for (int i = 0; i < NMOD; i++) m_mem_unref(keep[i]);
#endif
    if (extra_keep) m_mem_unref(extra_keep);
    VF_CHECK(live == 0, "after the user references are dropped every library allocation has been released exactly once");
    VF_CHECK(c07_freed[0] == (ud_auto ? 1 : 0), "context user data released exactly once iff flagged auto-free");
    if (!ud_auto) free(cud);
    VF_WITNESS("end");
    return 0;
}
