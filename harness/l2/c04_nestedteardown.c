/* C04: re-entrant teardown - a module's on_stop(), run by m_ctx_deregister(), asks for the context's deregistration
 * again (ACT 1: m_ctx_deregister(); ACT 2: m_mod_deregister() of another module).  Every block is released exactly once
 * whatever the order in which the user drops the references kept on the three modules (ORDER, per job); nothing freed
 * is touched (CBMC pointer/free checks, leak check at the end).
 * Symbolic: errno left by callbacks. */
#include "vf.h"
#include "vf_os.h"
#include <module/mod.h>
#include <module/ctx.h>
#define VF_ACTION my_action
#include "l2.h"
#ifndef ACT
#define ACT 1
#endif
#ifndef NM
#define NM 3
#endif
#ifndef ORDER
#define ORDER 0
#endif
static int acted, act_r = 1;
static m_mod_t *keep[3];
static void my_action(int who, int kind, m_mod_t *m, const m_queue_t *q) {
    (void)q; (void)m;
    if (kind != VF_CB_STOP || acted) return;
    acted = 1;
#if ACT == 1
    act_r = m_ctx_deregister();
#else
    { m_mod_t *other = m_mem_ref(vf_mods[(who + 1) % NM]); act_r = m_mod_deregister(&other); }   /* through a reference of its own */
#endif
}
int vf_main(void) {
    vf_set_errno = true; vf_errno_after_cb = nondet_int();
    vf_ctx(0);
    int r;
    for (int i = 0; i < NM; i++) { m_mod_t *m = vf_mod(i, 0, NULL); keep[i] = m; r = m_mod_start(m); VF_CHECK(r == 0, "start"); }
    r = m_ctx_deregister();
    VF_CHECK(r == 0 && acted, "context deregistered; a stop callback ran and re-entered the teardown");
    for (int i = 0; i < NM; i++) VF_CHECK(m_mod_is(keep[i], M_MOD_ZOMBIE) && vf_nstop[i] == 1, "every module is ZOMBIE, stopped exactly once");
    VF_CHECK(m_ctx_name() == NULL, "the thread has no context any more");
    /* the user drops the three references in some order; the last one releases the context */
    static const int ord[3][3] = { {0, 1, 2}, {2, 1, 0}, {1, 2, 0} };
    for (int k = 0; k < 3; k++) if (ord[ORDER][k] < NM) { m_mod_t *m = keep[ord[ORDER][k]]; VF_CHECK(m_mod_is(m, M_MOD_ZOMBIE), "still a valid ZOMBIE until its last reference goes"); m_mem_unref(m); }
    r = m_ctx_register("again", 0, NULL); VF_CHECK(r == 0, "the thread can register a fresh context");
    r = m_ctx_deregister(); VF_CHECK(r == 0, "and release it");
    VF_WITNESS("end");
    return 0;
}
