/* C07 helpers: allocator-hook accounting shared by the c07_*.c scenario harnesses.
 * The library allocates and releases only through the hook installed with m_set_memhook(): `live` is the number of
 * outstanding library allocations; blocks the user handed to the library (context name / user data flagged auto-free)
 * are tracked separately so that "released exactly once iff flagged" can be asserted. */
#ifndef C07_COMMON_H
#define C07_COMMON_H
#define C07_NUSER 4
static long live;
static void *c07_user[C07_NUSER];
static int c07_freed[C07_NUSER];
void *vf_malloc(size_t n) { void *p = malloc(n); if (p) live++; return p; }
void *vf_calloc(size_t n, size_t s) { void *p = calloc(n, s); if (p) live++; return p; }
void vf_free(void *p) {
    if (!p) return;
    _Bool user = 0;
    for (int i = 0; i < C07_NUSER; i++) if (p == c07_user[i]) { c07_freed[i]++; user = 1; }
    if (!user) live--;
    free(p);
}
/* a block owned by the user (slot k), possibly handed over to the library */
static inline void *c07_user_block(int k, size_t n) { void *p = malloc(n); VF_ASSUME(p != NULL); c07_user[k] = p; return p; }
static inline void c07_hook(void) { int hr = m_set_memhook(vf_malloc, vf_calloc, vf_free); VF_ASSUME(hr == 0); }
#endif
