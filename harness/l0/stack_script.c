/* C12 (stack): every operation sequence of length L from the empty stack. */
#include "vf.h"
#include <structs/stack.c>
#ifndef L
#define L 5
#endif
static char elems[L + 1];
#define EL(i) ((void *)&elems[i])
static int dt_cnt[L + 1], exp_dt[L + 1];
static void vf_dtor(void *p) { int i = (int)((char *)p - elems); if (i >= 0 && i <= L) dt_cnt[i]++; }

int vf_main(void) {
    _Bool with_dtor = nondet_bool();
    m_stack_t *st = m_stack_new(with_dtor ? vf_dtor : NULL); VF_ASSUME(st != NULL);
    int model[L + 1], mlen = 0, r;   /* model[mlen-1] is the top */
    for (int s = 0; s < L; s++) {
        VF_PICK(op, 5);
        switch (op) {
        case 0: r = m_stack_push(st, EL(s)); VF_CHECK(r == 0, "push returns 0"); model[mlen++] = s; break;
        case 1: { void *d = m_stack_pop(st);
            if (!mlen) VF_CHECK(d == NULL, "pop on empty is NULL");
            else { VF_CHECK(d == EL(model[mlen - 1]), "pop returns the newest"); mlen--; }
            break; }
        case 2: r = m_stack_remove(st);
            if (!mlen) VF_CHECK(r < 0, "remove on empty fails");
            else { VF_CHECK(r == 0, "remove returns 0"); if (with_dtor) exp_dt[model[mlen - 1]]++; mlen--; }
            break;
        case 3: { void *d = m_stack_peek(st); VF_CHECK(d == (mlen ? EL(model[mlen - 1]) : NULL), "peek returns the newest"); break; }
        default: {
            m_stack_itr_t *it = m_stack_itr_new(st);
            VF_CHECK((it != NULL) == (mlen > 0), "iterator exists iff non-empty");
            if (it) {
                unsigned char p = nondet_uchar(); VF_ASSUME(p < mlen);   /* p-th from the top */
                for (int i = 0; i < L; i++) if (i < p) m_stack_itr_next(&it);
                VF_CHECK(it != NULL && m_stack_itr_get_data(it) == EL(model[mlen - 1 - p]), "iterator reaches position p");
                r = m_stack_itr_remove(it); VF_CHECK(r == 0, "itr_remove returns 0");
                if (with_dtor) exp_dt[model[mlen - 1 - p]]++;
                for (int i = mlen - 1 - p; i + 1 < L + 1; i++) model[i] = model[i + 1];
                mlen--;
                for (int i = 0; i < L + 1; i++) if (it) m_stack_itr_next(&it);
                VF_CHECK(it == NULL, "iterator terminates");
            }
            break; }
        }
        VF_CHECK(m_stack_len(st) == mlen, "length is exact after every step");
    }
    for (int i = 0; i < L; i++) if (mlen > 0) { void *d = m_stack_pop(st); VF_CHECK(d == EL(model[mlen - 1]), "LIFO order at the end"); mlen--; }
    VF_CHECK(m_stack_pop(st) == NULL, "empty at the end");
    for (int i = 0; i <= L; i++) VF_CHECK(dt_cnt[i] == exp_dt[i], "dtor count");
    VF_WITNESS("end");
    return 0;
}
