/* C10: alignment/placement/size arithmetic of m_mem_new for every size up to MAXSZ (no content loops, so the
 * bound can be large).  Allocator = one fixed 16-aligned arena. */
#include "vf.h"
#include <stdalign.h>
#ifndef MAXSZ
#define MAXSZ 4096
#endif
#define ARENA (MAXSZ + 64)
static _Alignas(16) unsigned char arena[ARENA];
static size_t a_req; static int a_live, a_frees;
void *vf_calloc(size_t n, size_t s) { VF_CHECK(!a_live, "harness: single allocation"); a_req = n * s; VF_CHECK(a_req <= ARENA, "harness: arena large enough"); a_live = 1; return arena; }
void *vf_malloc(size_t s) { return vf_calloc(1, s); }
void vf_free(void *p) { VF_CHECK(p == (void *)arena && a_live, "free gets the allocation base once"); a_frees++; a_live = 0; }
m_memhook_t memhook = { vf_malloc, vf_calloc, vf_free };
#include <mem/mem.c>
int vf_main(void) {
    size_t size = nondet_size_t(); VF_ASSUME(size <= MAXSZ);
#ifdef VF_KF_align_size_mod_16
    VF_ASSUME(size % alignof(max_align_t) == 0);     /* known finding: misaligned for every other size */
#endif
    unsigned char *p = m_mem_new(size, NULL);
    VF_CHECK(p != NULL, "new succeeds");
    size_t off = (size_t)(p - arena);
    VF_CHECK(off % alignof(max_align_t) == 0, "block aligned for any object type, whatever the size");
    VF_CHECK(off >= sizeof(mem_header_t) && off + size <= a_req, "block lies inside the allocation, after the header");
    VF_CHECK(m_mem_size(p) == size, "reported size equals requested size");
    VF_CHECK(m_mem_ref(p) == p, "ref");
    m_mem_unref(p); VF_CHECK(a_frees == 0, "still alive");
    VF_CHECK(m_mem_size(p) == size, "size after ref/unref");
    m_mem_unref(p); VF_CHECK(a_frees == 1, "freed once");
    VF_WITNESS("end");
    return 0;
}
