/* C05 (map): ONE operation from an ARBITRARY table that satisfies the representation invariant (map_common.h).
 * Pre-state: a TS-slot table filled by the solver (which key in which slot, which slots empty), arbitrary hash
 * homes for the NK keys (collisions, one shared home, homes on the last slot so that clusters wrap), every flag
 * combination m_map_new() can produce, destructor installed or not.  Because the invariant is assumed before and
 * asserted after the operation, and is established by m_map_new()+API (map_script.c), the step covers operation
 * histories of any length that stay at this table size.  Growth is cut here (VF_NO_REHASH) and is map_grow.c's job.
 *
 * Operations: 0 get, 1 contains, 2 len, 3 remove, 4 put (no growth), 5 clear, 6 free.
 * Post-condition against the present[]/value[] model, seen through the public API (get for every key + len),
 * destructor log by value identity, key-buffer log for maps that own their keys.
 * -DOPS=<mask> restricts the menu of operations (case split), -DKEYMODE=<0|1|2> to one key ownership mode. */
#include "map_common.h"

#define M (vf_map_arena)      /* the map object and its table live in the allocator's arenas, so op 6 can free them */
#define TBL vf_tbl_a0
static char putkey[KEYLEN];

#ifndef OPS
#define OPS 0x7f             /* bit n set: operation n is in the menu */
#endif
#define OP_ON(n) ((OPS >> (n)) & 1)

int vf_main(void) {
    vf_hooks_init();
    vf_homes_init();
    vf_keys_init();
    VF_PICK_KEYMODE(keymode);
    bool upd = nondet_bool();
    bool with_dtor = nondet_bool();
    vf_map_handed = 1; vf_tbl_next = 1;
    vf_build(&M, TBL, keymode, upd, with_dtor);
    int pre_ka[NK];
    for (int k = 0; k < NK; k++) pre_ka[k] = (keymode && mo_present[k]) ? ka_index(TBL[slot_of[k]].key) : -1;
    const int pre_ka_n = ka_n;

    VF_PICK(op, 7);
    VF_ASSUME(OP_ON(op));
    VF_PICK(k, NK);
    int r;
    switch (op) {
#if OP_ON(0)
    case 0: { /* get */
        void *g = m_map_get(&M, PK(k));
        VF_CHECK(g == (mo_present[k] ? VAL(mo_val[k]) : NULL), "get returns the live value of a present key and NULL for an absent one");
        VF_WITNESS("get");
        break; }
#endif
#if OP_ON(1)
    case 1: { /* contains */
        bool c = m_map_contains(&M, PK(k));
        VF_CHECK(c == mo_present[k], "contains is true exactly for the live keys");
        VF_WITNESS("contains");
        break; }
#endif
#if OP_ON(2)
    case 2: /* len: checked below by vf_check_model */
        VF_WITNESS("len");
        break;
#endif
#if OP_ON(3)
    case 3: /* remove */
        r = m_map_remove(&M, PK(k));
        if (mo_present[k]) {
            VF_CHECK(r == 0, "remove of a present key succeeds");
            mo_present[k] = false; mo_dt[mo_val[k]]++;
            if (keymode) VF_CHECK(ka_freed[pre_ka[k]] == 1, "an owned key is released with its entry, once");
        } else {
            VF_CHECK(r < 0, "remove of an absent key fails");
        }
        VF_WITNESS("remove");
        break;
#endif
#if OP_ON(4)
    case 4: { /* put, table does not grow */
        int v = (nondet_bool() && mo_present[k]) ? mo_val[k] : FRESH(k);    /* the value it already has, or a new one */
        const char *key;
        if (keymode == 1) key = vf_heap_key(k);                           /* ownership handed to the map */
        else { memcpy(putkey, keystr[k], KEYLEN); key = putkey; }
        const bool was = mo_present[k];
        r = m_map_put(&M, key, VAL(v));
        if (keymode == 2) putkey[0] = 'z';                                /* a duplicating map must not depend on the caller's buffer */
        if (!mo_present[k]) {
            VF_CHECK(r == 0, "put of a new key succeeds");
            mo_present[k] = true; mo_val[k] = v;
        } else if (upd) {
            VF_CHECK(r == 0, "put on an existing key succeeds when updates are allowed");
            if (v != mo_val[k]) mo_dt[mo_val[k]]++;
            mo_val[k] = v;
        } else {
            VF_CHECK(r < 0, "put on an existing key fails when updates are not allowed");
        }
        /* update/refusal with a caller-allocated key in an AUTOFREE-only map: map.h does not say who owns that
         * buffer - not asserted; it is taken out of the log so that it counts neither way */
        if (keymode == 1 && was) ka_n = pre_ka_n;
        VF_WITNESS("put");
        break; }
#endif
#if OP_ON(5)
    case 5: /* clear */
        r = m_map_clear(&M);
        VF_CHECK(r == 0, "clear succeeds");
        for (int j = 0; j < NK; j++) if (mo_present[j]) {
            mo_dt[mo_val[j]]++; mo_present[j] = false;
            if (keymode) VF_CHECK(ka_freed[pre_ka[j]] == 1, "clear releases every owned key once");
        }
        VF_WITNESS("clear");
        break;
#endif
#if OP_ON(6)
    case 6: { /* free: nothing to observe through the API afterwards */
        m_map_t *mp = &M;
        r = m_map_free(&mp);
        VF_CHECK(r == 0 && mp == NULL, "free succeeds and clears the handle");
        for (int j = 0; j < NK; j++) if (mo_present[j]) {
            mo_dt[mo_val[j]]++; mo_present[j] = false;
            if (keymode) VF_CHECK(ka_freed[pre_ka[j]] == 1, "free releases every owned key once");
        }
        VF_CHECK(vf_tbl_freed[0] == 1 && vf_map_freed == 1, "free releases the table and the map object, once each");
        vf_check_dtors();
        VF_WITNESS("free");
        return 0; }
#endif
    }
    if (keymode == 0) VF_CHECK(ka_n == 0, "a map without M_MAP_KEY_DUP never allocates keys");
    vf_check_inv(&M);
    vf_check_model(&M);
    vf_check_dtors();
    VF_WITNESS("end");
    return 0;
}
