/* C12 (list): one operation from an ARBITRARY well-formed list of up to N elements (duplicates by comparator
 * class allowed) + observation through find/iterate.  Elements are cells of a static array; the optional user
 * comparator compares their class (index / 2), so distinct pointers may compare equal.
 * Symbolic: n, element of every node, op, argument, iterator position/edit (incl. two removals at one cursor),
 * comparator and dtor installed. */
#include "vf.h"
#include <structs/list.c>

#ifndef N
#define N 3
#endif
#define NE 6                                 /* element universe */
static char elems[NE];
#define EL(i) ((void *)&elems[i])
static int idx(void *p) { return (int)((char *)p - elems); }
static int dt_cnt[NE];
static void vf_dtor(void *p) { int i = idx(p); if (i >= 0 && i < NE) dt_cnt[i]++; }
static int vf_cmp(void *my, void *theirs) { return idx(my) / 2 - idx(theirs) / 2; }
static int cb_seen[N + 2], cb_n, cb_stop_at, cb_ret;
static int vf_cb(void *up, void *data) {
    if (cb_n <= N) cb_seen[cb_n] = idx(data);
    cb_n++;
    if (cb_n - 1 == cb_stop_at) return cb_ret;
    return 0;
}
static int model[N + 2], mlen;
static _Bool with_cmp;
static _Bool matches(int arg, int e) { return (with_cmp && arg / 2 == e / 2) || arg == e; }
static void check_content(m_list_t *l) {
    /* the list holds exactly the model sequence, in order: walk it with a fresh iterator */
    VF_CHECK(m_list_len(l) == mlen, "length is exact");
    m_list_itr_t *it = m_list_itr_new(l);
    VF_CHECK((it != NULL) == (mlen > 0), "iterator exists iff non-empty");
    int v = 0;
    for (int i = 0; i < N + 2; i++) {
        if (!it) break;
        VF_CHECK(v < mlen && m_list_itr_get_data(it) == EL(model[v]), "content and relative order preserved");
        v++;
        m_list_itr_next(&it);
    }
    VF_CHECK(it == NULL && v == mlen, "iteration visits every element exactly once");
}

/* after an insertion of element a: the list must be the model sequence with exactly one extra a somewhere;
 * the model adopts the observed position */
static void model_insert_observed(m_list_t *l, int a) {
    int seq[N + 2], sl = 0;
    m_list_itr_t *it = m_list_itr_new(l);
    for (int i = 0; i < N + 2; i++) { if (!it) break; seq[sl++] = idx(m_list_itr_get_data(it)); m_list_itr_next(&it); }
    VF_CHECK(it == NULL && sl == mlen + 1, "insert adds exactly one element");
    int pos = mlen;
    for (int i = mlen - 1; i >= 0; i--) if (i < sl && seq[i] != model[i]) pos = i;
    VF_CHECK(pos < sl && seq[pos] == a, "the extra element is the inserted one");
    for (int i = 0; i < N + 1; i++) if (i >= pos && i < mlen) VF_CHECK(i + 1 < sl && seq[i + 1] == model[i], "insert keeps the relative order of the others");
    for (int i = N + 1; i > pos; i--) model[i] = model[i - 1];
    model[pos] = a; mlen++;
}

int vf_main(void) {
    unsigned char n = nondet_uchar(); VF_ASSUME(n <= N);
    _Bool with_dtor = nondet_bool(); with_cmp = nondet_bool();
    m_list_t *l = m_list_new(with_cmp ? vf_cmp : NULL, with_dtor ? vf_dtor : NULL);
    VF_ASSUME(l != NULL);
    list_node *nodes[N];
    for (int i = 0; i < N; i++) {
        nodes[i] = NULL;
        if (i < n) {
            nodes[i] = calloc(1, sizeof(list_node)); VF_ASSUME(nodes[i] != NULL);
            unsigned char e = nondet_uchar(); VF_ASSUME(e < NE - 1);   /* NE-1 is reserved for fresh insertions */
            model[i] = e; nodes[i]->userptr = EL(e);
        }
    }
    for (int i = 0; i + 1 < N; i++) if (i + 1 < n) nodes[i]->next = nodes[i + 1];
    l->data = n ? nodes[0] : NULL; l->len = n; mlen = n;
    int exp_dt[NE]; for (int i = 0; i < NE; i++) exp_dt[i] = 0;

    VF_PICK(op, 8);
    unsigned char a = nondet_uchar(); VF_ASSUME(a < NE);
    int r;
    switch (op) {
    case 0: /* insert: the property fixes the multiset and the relative order of the others, not the position */
        r = m_list_insert(l, EL(a)); VF_CHECK(r == 0, "insert returns 0");
        model_insert_observed(l, a);
        break;
    case 1: { /* remove first match */
        r = m_list_remove(l, EL(a));
        int pos = -1;
        for (int i = mlen - 1; i >= 0; i--) if (matches(a, model[i])) pos = i;
        if (pos < 0) VF_CHECK(r < 0, "remove of an absent element fails");
        else {
            VF_CHECK(r == 0, "remove of a present element returns 0");
            if (with_dtor) exp_dt[model[pos]]++;
            for (int i = pos; i + 1 < N + 2; i++) model[i] = model[i + 1];
            mlen--;
        }
        break; }
    case 2: { /* find first match */
        void *d = m_list_find(l, EL(a));
        int pos = -1;
        for (int i = mlen - 1; i >= 0; i--) if (matches(a, model[i])) pos = i;
        VF_CHECK(d == (pos >= 0 ? EL(model[pos]) : NULL), "find returns the first match or NULL");
        break; }
    case 3: { /* iterator walk with one edit at position p */
        m_list_itr_t *it = m_list_itr_new(l);
        VF_CHECK((it != NULL) == (mlen > 0), "iterator exists iff non-empty");
        if (it) {
            unsigned char p = nondet_uchar(); VF_ASSUME(p < mlen);
            VF_PICK(edit, 4);                      /* 0 none 1 remove 2 set 3 insert */
            _Bool twice = nondet_bool();           /* remove: also remove the follower from the same cursor */
            int visited = 0; _Bool done = 0;
            for (int i = 0; i < N + 2; i++) {
                if (!it) break;
                void *d = m_list_itr_get_data(it);
                if (visited == p && !done && edit == 1) {
                    VF_CHECK(d == EL(model[visited]), "iterator yields elements in list order (before remove)");
                    r = m_list_itr_remove(it); VF_CHECK(r == 0, "itr_remove returns 0");
                    if (with_dtor) exp_dt[model[p]]++;
                    for (int k = p; k + 1 < N + 2; k++) model[k] = model[k + 1];
                    mlen--; done = 1;
                    /* the cursor now shows the follower; it may be removed from the same cursor as well, before any
                     * itr_next (a run of unwanted elements) */
                    if (twice && p < mlen) {
                        VF_CHECK(m_list_itr_get_data(it) == EL(model[p]), "after itr_remove the cursor shows the follower");
                        r = m_list_itr_remove(it); VF_CHECK(r == 0, "second itr_remove at the same cursor returns 0");
                        if (with_dtor) exp_dt[model[p]]++;
                        for (int k = p; k + 1 < N + 2; k++) model[k] = model[k + 1];
                        mlen--;
                    }
                } else if (visited == p && !done && edit == 3) {
                    VF_CHECK(d == EL(model[visited]), "iterator yields elements in list order (before insert)");
                    r = m_list_itr_insert(it, EL(NE - 1)); VF_CHECK(r == 0, "itr_insert returns 0");
                    for (int k = N + 1; k > p; k--) model[k] = model[k - 1];
                    model[p] = NE - 1; mlen++; done = 1;
                    /* visit-once is not asserted across itr_insert (property does not define it): stop walking */
                    free(it); it = NULL;
                    break;
                } else {
                    VF_CHECK(d == EL(model[visited]), "iterator yields elements in list order, once each");
                    if (visited == p && !done && edit == 2) { r = m_list_itr_set_data(it, EL(NE - 1)); VF_CHECK(r == 0, "itr_set returns 0"); model[p] = NE - 1; done = 1; }
                    visited++;
                }
                m_list_itr_next(&it);
            }
            if (edit != 3) { VF_CHECK(it == NULL, "iterator ends after the last element"); VF_CHECK(visited == mlen, "iterator visited every remaining element"); }
        }
        break; }
    case 4: {
        cb_n = 0; cb_stop_at = nondet_uchar(); cb_ret = nondet_bool() ? 1 : -7;
        r = m_list_iterate(l, vf_cb, NULL);
        if (mlen == 0) VF_CHECK(r < 0 && cb_n == 0, "iterate on empty fails");
        else {
            int expn = cb_stop_at < mlen ? cb_stop_at + 1 : mlen;
            VF_CHECK(cb_n == expn, "iterate calls the callback once per element until stopped");
            for (int i = 0; i < N; i++) if (i < expn) VF_CHECK(cb_seen[i] == model[i], "iterate in list order");
            VF_CHECK(r == ((cb_stop_at < mlen && cb_ret < 0) ? cb_ret : 0), "iterate return value");
        }
        break; }
    case 5:
        r = m_list_clear(l); VF_CHECK(r == 0, "clear returns 0");
        if (with_dtor) for (int i = 0; i < mlen; i++) exp_dt[model[i]]++;
        mlen = 0;
        break;
    case 6: {
        r = m_list_free(&l);
        VF_CHECK(r == 0 && l == NULL, "free clears the handle");
        if (with_dtor) for (int i = 0; i < mlen; i++) exp_dt[model[i]]++;
        for (int i = 0; i < NE; i++) VF_CHECK(dt_cnt[i] == exp_dt[i], "dtor exactly once per dropped element (free)");
        VF_WITNESS("free");
        return 0; }
    default:
        break;
    }
    check_content(l);
    /* the container keeps working: append a fresh element and look again */
    if (mlen <= N) {
        r = m_list_insert(l, EL(NE - 1)); VF_CHECK(r == 0, "suffix insert");
        model_insert_observed(l, NE - 1);
        check_content(l);
    }
    for (int i = 0; i < NE; i++) VF_CHECK(dt_cnt[i] == exp_dt[i], "dtor exactly once per dropped element, never for kept ones");
    VF_WITNESS("end");
    return 0;
}
