/* C11, default comparator: "with the default comparator distinct pointers are always distinct elements and are ordered
 * consistently however far apart they are".
 *
 * The tree is created with a NULL comparator and the comparator bst.c installs is called exactly the way bst_find()
 * calls it: l->comp(key, stored).  Three pointers at fully symbolic distances:
 *   - under CBMC they point into ONE object of at least SPAN = 2^54 bytes (allocated with a symbolic size so that it is
 *     never flattened, never read or written): CBMC gives an unconstrained result to the difference of pointers into
 *     different objects, so raw integer-to-pointer casts would produce spurious failures; inside one object the
 *     difference is exact.  2^54 exceeds every user-space address range, the claim is "any two pointers less than
 *     2^54 bytes apart";
 *   - natively (replay) they are plain integer values cast to void * - they are only compared, never dereferenced.
 * Part 1 (comparator contract): sign(cmp(a,b)) == sign(a - b), zero iff same pointer, antisymmetric, transitive.
 * Part 2 (through the public API): two distinct pointers are both accepted, both found as themselves, length 2, and
 * in-order traversal reports the lower address first.
 * Symbolic: the three offsets (each < 2^54). */
#include "vf.h"
#include <structs/bst.c>

#define SPAN (1ull << 54)

static void *seen[3];
static int seen_n;
int vf_cb(void *up, void *data) { (void)up; if (seen_n < 3) seen[seen_n] = data; seen_n++; return 0; }
int vf_cmp(void *a, void *b) { (void)a; (void)b; return 0; }      /* never installed; named by the function-pointer restriction */
void vf_dtor(void *p) { (void)p; }                                  /* never installed */

static int sgn(int x) { return (x > 0) - (x < 0); }

int vf_main(void) {
    uint64_t oa = nondet_u64(), ob = nondet_u64(), oc = nondet_u64();
    VF_ASSUME(oa < SPAN && ob < SPAN && oc < SPAN);
#ifndef VF_NATIVE
    size_t span = nondet_size_t(); VF_ASSUME(span >= SPAN && span <= (1ull << 55));
    char *base = malloc(span); VF_ASSUME(base != NULL);
    void *a = base + oa, *b = base + ob, *c = base + oc;
#else
    (void)nondet_size_t();             /* keep the replay value stream aligned with the symbolic run */
    void *a = (void *)(uintptr_t)(0x1000 + oa), *b = (void *)(uintptr_t)(0x1000 + ob), *c = (void *)(uintptr_t)(0x1000 + oc);
#endif
    m_bst_t *t = m_bst_new(NULL, NULL);
    VF_ASSUME(t != NULL);

#ifndef VF_PART
#define VF_PART 3                      /* bit 0: part 1, bit 1: part 2 */
#endif
#if VF_PART & 1
    /* ---- part 1: the comparator the tree uses ---- */
    int ab = t->comp(a, b), ba = t->comp(b, a), bc = t->comp(b, c), ac = t->comp(a, c);
    VF_CHECK((ab == 0) == (oa == ob), "default comparator: equal iff the same pointer (distinct pointers are distinct elements)");
    VF_CHECK(sgn(ab) == (oa > ob) - (oa < ob), "default comparator: sign follows the address order however far apart");
    VF_CHECK(sgn(ab) == -sgn(ba), "default comparator: antisymmetric");
    if (ab < 0 && bc < 0) VF_CHECK(ac < 0, "default comparator: transitive");
    if (ab == 0 && bc == 0) VF_CHECK(ac == 0, "default comparator: equality is transitive");

#if !(VF_PART & 2)
    VF_WITNESS("comparator");
#endif
#endif
#if VF_PART & 2
    /* ---- part 2: the same through the public API ---- */
    if (oa != ob) {
        int r = m_bst_insert(t, a); VF_CHECK(r == 0, "first pointer accepted");
        r = m_bst_insert(t, b); VF_CHECK(r == 0, "a distinct pointer is a distinct element: accepted");
        VF_CHECK(m_bst_len(t) == 2, "length is exact");
        VF_CHECK(m_bst_find(t, a) == a && m_bst_find(t, b) == b, "each pointer finds itself");
        seen_n = 0; r = m_bst_traverse(t, M_BST_IN, vf_cb, NULL);
        VF_CHECK(r == 0 && seen_n == 2, "in-order traversal visits both");
        if (seen_n == 2) VF_CHECK(seen[0] == (oa < ob ? a : b) && seen[1] == (oa < ob ? b : a), "in-order traversal is ascending by address");
        VF_WITNESS("distinct");
    } else {
        int r = m_bst_insert(t, a); VF_CHECK(r == 0, "first pointer accepted");
        r = m_bst_insert(t, b); VF_CHECK(r < 0, "the same pointer again is rejected");
        VF_CHECK(m_bst_len(t) == 1, "length is exact");
        VF_WITNESS("same");
    }
#endif
    return 0;
}
