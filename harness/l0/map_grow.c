/* C05 (map): put on a HEAP map whose table can grow.
 * Pre-state: arbitrary TS-slot table under the representation invariant (map_common.h), allocated with calloc like
 * m_map_new does (from the harness allocator's typed arenas), so hashmap_rehash() can release it; -DCNT=<n> fixes the number of entries (case split: with a
 * concrete length the load test in hashmap_put is decided during symbolic execution).  One m_map_put with
 * symbolic key/value: the table grows when the load threshold is reached (TS <= len + len/3) or when the TS/2
 * slots after the key's home are all taken.  homes[] are full size_t, so the bit that decides an entry's home in
 * the doubled table is free.
 * Post: put's contract, every entry survives with its value, invariant at the new size, destructor and key logs,
 * and the table bookkeeping: at most one new table per put (a second growth is reported and cut), the old table
 * released exactly once iff the map moved to the new one. */
#ifndef MAXTS
#define MAXTS (2 * TS)
#endif
#include "map_common.h"

static char putkey[KEYLEN];
static struct _map M;

int vf_main(void) {
    vf_hooks_init();
    vf_homes_init();
    vf_keys_init();
    VF_PICK_KEYMODE(keymode);
    bool upd = nondet_bool();
    bool with_dtor = nondet_bool();
    struct _map *m = &M;
    map_elem *table = vf_tbl_arena[0];              /* the table in use: first arena; the second is for the growth */
    vf_tbl_next = 1; vf_tbl_budget = 2;
    vf_build(m, table, keymode, upd, with_dtor);
    const int pre_ka_n = ka_n;
    const size_t pre_len = (size_t)mo_len();

    VF_PICK(k, NK);
    int v = (nondet_bool() && mo_present[k]) ? mo_val[k] : FRESH(k);
    const char *key;
    if (keymode == 1) key = vf_heap_key(k);
    else { memcpy(putkey, keystr[k], KEYLEN); key = putkey; }
    const bool was = mo_present[k];
    int r = m_map_put(m, key, VAL(v));
    if (keymode == 2) putkey[0] = 'z';
    if (!was) {
        VF_CHECK(r == 0, "put of a new key succeeds (growing the table if needed)");
        mo_present[k] = true; mo_val[k] = v;
    } else if (upd) {
        VF_CHECK(r == 0, "put on an existing key succeeds when updates are allowed");
        if (v != mo_val[k]) mo_dt[mo_val[k]]++;
        mo_val[k] = v;
    } else {
        VF_CHECK(r < 0, "put on an existing key fails when updates are not allowed");
    }
    if (keymode == 1 && was) ka_n = pre_ka_n;       /* ownership of that buffer is not specified: not counted */
    const bool grown = vf_tbl_next > 1;
    if (grown) {
        VF_CHECK(m->table == vf_tbl_arena[1] && m->table_size == 2 * TS, "after growth the map uses the new, doubled table");
        VF_CHECK(vf_tbl_freed[0] == 1 && vf_tbl_freed[1] == 0, "the old table is released exactly once, the new one is not");
    } else {
        VF_CHECK(m->table == table && m->table_size == TS, "without growth the table is unchanged");
        VF_CHECK(vf_tbl_freed[0] == 0, "the table in use is not released");
    }
    if (TS <= pre_len + pre_len / 3) VF_CHECK(grown, "the table grows at the load threshold");
    if (keymode == 0) VF_CHECK(ka_n == 0, "a map without M_MAP_KEY_DUP never allocates keys");
    vf_check_inv(m);
    vf_check_model(m);
    vf_check_dtors();
#ifdef EXPECT_GROWN
    VF_ASSUME(grown);
#endif
    if (grown) VF_WITNESS("grown");
#ifndef EXPECT_GROWN
    else VF_WITNESS("same size");
#endif
    return 0;
}
