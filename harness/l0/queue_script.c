/* C12 (queue): every operation sequence of length L from the empty queue (ops symbolic), checked step by step
 * against an array model.  Shows the representation reached through the API keeps behaving (complements the
 * direct-state step harness, whose pre-state is assumed). */
#include "vf.h"
#include <structs/queue.c>
#ifndef L
#define L 5
#endif
static char elems[L + 1];
#define EL(i) ((void *)&elems[i])
static int dt_cnt[L + 1], exp_dt[L + 1];
static void vf_dtor(void *p) { int i = (int)((char *)p - elems); if (i >= 0 && i <= L) dt_cnt[i]++; }

int vf_main(void) {
    _Bool with_dtor = nondet_bool();
    m_queue_t *q = m_queue_new(with_dtor ? vf_dtor : NULL); VF_ASSUME(q != NULL);
    int model[L + 1], mlen = 0, r;
    for (int s = 0; s < L; s++) {
        VF_PICK(op, 5);
        switch (op) {
        case 0: r = m_queue_enqueue(q, EL(s)); VF_CHECK(r == 0, "enqueue returns 0"); model[mlen++] = s; break;
        case 1: { void *d = m_queue_dequeue(q);
            if (!mlen) VF_CHECK(d == NULL, "dequeue on empty is NULL");
            else { VF_CHECK(d == EL(model[0]), "dequeue returns the oldest"); for (int i = 0; i + 1 < L + 1; i++) model[i] = model[i + 1]; mlen--; }
            break; }
        case 2: r = m_queue_remove(q);
            if (!mlen) VF_CHECK(r < 0, "remove on empty fails");
            else { VF_CHECK(r == 0, "remove returns 0"); if (with_dtor) exp_dt[model[0]]++; for (int i = 0; i + 1 < L + 1; i++) model[i] = model[i + 1]; mlen--; }
            break;
        case 3: { void *d = m_queue_peek(q); VF_CHECK(d == (mlen ? EL(model[0]) : NULL), "peek returns the oldest"); break; }
        default: { /* iterator removal at a symbolic position */
            m_queue_itr_t *it = m_queue_itr_new(q);
            VF_CHECK((it != NULL) == (mlen > 0), "iterator exists iff non-empty");
            if (it) {
                unsigned char p = nondet_uchar(); VF_ASSUME(p < mlen);
                for (int i = 0; i < L; i++) if (i < p) m_queue_itr_next(&it);
                VF_CHECK(it != NULL && m_queue_itr_get_data(it) == EL(model[p]), "iterator reaches position p");
                r = m_queue_itr_remove(it); VF_CHECK(r == 0, "itr_remove returns 0");
                if (with_dtor) exp_dt[model[p]]++;
                for (int i = p; i + 1 < L + 1; i++) model[i] = model[i + 1];
                mlen--;
                for (int i = 0; i < L + 1; i++) if (it) m_queue_itr_next(&it);
                VF_CHECK(it == NULL, "iterator terminates");
            }
            break; }
        }
        VF_CHECK(m_queue_len(q) == mlen, "length is exact after every step");
    }
    for (int i = 0; i < L; i++) if (i < mlen) { void *d = m_queue_dequeue(q); VF_CHECK(d == EL(model[i]), "FIFO order at the end"); }
    VF_CHECK(m_queue_dequeue(q) == NULL, "empty at the end");
    for (int i = 0; i <= L; i++) VF_CHECK(dt_cnt[i] == exp_dt[i], "dtor count");
    VF_WITNESS("end");
    return 0;
}
