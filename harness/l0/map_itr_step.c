/* C05 (map): iteration from an ARBITRARY table that satisfies the representation invariant (map_common.h).
 *  op 0  iterator: m_map_itr_new, then at EVERY position the solver chooses between leaving the entry alone,
 *        m_map_itr_remove and m_map_itr_set_data, then m_map_itr_next - until the iterator ends.  So every
 *        mid-iteration state (any table, cursor on any entry, any set of earlier removals) is stepped from.
 *  op 1  callback form m_map_iterate; the callback removes the current key for a solver-chosen subset of keys.
 * Oracle: ghost visited[]: an entry is never yielded twice, only live entries are yielded with their live value,
 * and when the iteration ends every entry that was live at the start has been yielded (once) - whether it was
 * removed on the way or not.  Afterwards: invariant, model through get/len, destructor and key-buffer logs.
 * The harness uses only the public iterator API (no knowledge of the iterator's layout or scan order). */
#include "map_common.h"

static map_elem table[TS];
static struct _map M;
#ifndef OPS
#define OPS 0x3
#endif
#define OP_ON(n) ((OPS >> (n)) & 1)

static unsigned keymode_g;
static int pre_ka[NK];
static int visits[NK];
static bool cb_rm[NK];

static void drop_entry(int k) {           /* model side of removing the entry of key k */
    mo_present[k] = false; mo_dt[mo_val[k]]++;
    if (keymode_g) VF_CHECK(ka_freed[pre_ka[k]] == 1, "an owned key is released with its entry, once");
}

int vf_cb(void *up, const char *key, void *val) {
    int k = kid_of(key);
    VF_CHECK(k >= 0, "callback gets a key of the map");
    if (k < 0) return 0;
    VF_CHECK(mo_present[k], "callback gets live entries only");
    VF_CHECK(visits[k] == 0, "m_map_iterate never visits an entry twice");
    VF_CHECK(val == VAL(mo_val[k]), "callback gets the live value");
    visits[k]++;
    if (cb_rm[k]) {
        int r = m_map_remove((m_map_t *)up, key);
        VF_CHECK(r == 0, "removing the current entry from the callback succeeds");
        drop_entry(k);
    }
    return 0;
}

int vf_main(void) {
    vf_hooks_init();
    vf_homes_init();
    vf_keys_init();
    VF_PICK_KEYMODE(keymode);
    keymode_g = keymode;
    bool upd = nondet_bool();
    bool with_dtor = nondet_bool();
    vf_build(&M, table, keymode, upd, with_dtor);
    bool pre_present[NK];
    for (int k = 0; k < NK; k++) {
        pre_present[k] = mo_present[k];
        pre_ka[k] = (keymode && mo_present[k]) ? ka_index(table[slot_of[k]].key) : -1;
    }
    const int pre_len = mo_len();
    VF_PICK(op, 2);
    VF_ASSUME(OP_ON(op));
    int r;
    switch (op) {
#if OP_ON(0)
    case 0: {
        m_map_itr_t *it = m_map_itr_new(&M);
        VF_CHECK((it != NULL) == (mo_len() > 0), "an iterator exists iff the map is not empty");
        for (int step = 0; step < NK + 1; step++) {
            if (!it) break;
            const char *key = m_map_itr_get_key(it);
            VF_CHECK(key != NULL, "a live iterator has a current key");
            int k = key ? kid_of(key) : -1;
            VF_CHECK(k >= 0, "iterator yields a key of the map");
            if (k < 0) break;
            VF_CHECK(mo_present[k], "iterator yields live entries only");
            VF_CHECK(visits[k] == 0, "iterator never yields an entry twice");
            VF_CHECK(m_map_itr_get_data(it) == VAL(mo_val[k]), "iterator yields the live value");
            visits[k]++;
            VF_PICK(edit, 3);
            if (edit == 1) {
                r = m_map_itr_remove(it);
                VF_CHECK(r == 0, "itr_remove succeeds");
                drop_entry(k);
            } else if (edit == 2) {
                r = m_map_itr_set_data(it, VAL(FRESH(k)));
                VF_CHECK(r == 0, "itr_set_data succeeds");
                mo_dt_open[mo_val[k]] = true;
                mo_val[k] = FRESH(k);
            }
            r = m_map_itr_next(&it);
            VF_CHECK(r == 0, "itr_next succeeds");
        }
        VF_CHECK(it == NULL, "the iterator ends after one step per entry");
        VF_WITNESS("iterator");
        break; }
#endif
#if OP_ON(1)
    case 1:
        for (int k = 0; k < NK; k++) cb_rm[k] = nondet_bool();
        r = m_map_iterate(&M, vf_cb, &M);
        if (pre_len > 0) VF_CHECK(r == 0, "m_map_iterate returns 0 when the callback never stops it");
        VF_WITNESS("iterate");
        break;
#endif
    }
    for (int k = 0; k < NK; k++) VF_CHECK(visits[k] == (pre_present[k] ? 1 : 0), "every entry live at the start is visited exactly once, nothing else is");
    if (keymode == 0) VF_CHECK(ka_n == 0, "a map without M_MAP_KEY_DUP never allocates keys");
    vf_check_inv(&M);
    vf_check_model(&M);
    vf_check_dtors();
    VF_WITNESS("end");
    return 0;
}
