/* C05 (map): operation scripts through the PUBLIC API, from the empty map made by the real m_map_new().
 * L operations chosen by the solver from put / remove / clear with symbolic key, value, flags and hash homes, then a
 * closing observation: every key through contains, len, a full iterator walk (every live entry exactly once),
 * m_map_free, and nothing left allocated (leak=True).  After EVERY operation the representation invariant of
 * map_common.h is asserted on the real object - the base case of the induction the step harnesses (map_step.c,
 * map_itr_step.c, map_grow.c) rely on - which also ties the harness's copy of the private layout to the real one.
 *
 * Table size: map.c is compiled with the repository's add-only verification hook -DFEDEDP_LIBMODULE_VERIF_MAP_SIZE=TS
 * (MAP_SIZE_DEFAULT = TS instead of 256; a symbolic 256-slot table did not finish: symex > 15 min, every slot may
 * hold an entry at every table walk).  map.c is size-generic (power of two); the shipped size is exercised natively
 * by /verif/repro/C05_*.c.  Paths on which a put grows the table are outside this harness (cut; possible from
 * operation TS/2 + 1 on, an earlier growth would be reported); growth is map_grow.c. */
#ifndef TS
#define TS 4
#endif
#ifndef L
#define L 3
#endif
#define MAXTS (2 * TS)
#define VBASE 0
#define NFRESH (L + 1)
#define MAXA (L + 2)
#include "map_common.h"

static char putkey[KEYLEN];

int vf_main(void) {
    vf_hooks_init();
    vf_homes_init();
    vf_keys_init();
    VF_PICK_KEYMODE(keymode);
    bool upd = nondet_bool();
    bool with_dtor = nondet_bool();
    g_with_dtor = with_dtor;
    vf_tbl_budget = 1;                                     /* the initial table, no growth */
    /* flags as the user passes them: M_MAP_KEY_DUP alone must imply AUTOFREE */
    unsigned uf = (upd ? M_MAP_VAL_ALLOW_UPDATE : 0) | (keymode == 1 ? M_MAP_KEY_AUTOFREE : 0) | (keymode == 2 ? M_MAP_KEY_DUP : 0);
    if (keymode == 2 && nondet_bool()) uf |= M_MAP_KEY_AUTOFREE;
    m_map_t *m = m_map_new((m_map_flags)uf, with_dtor ? vf_dtor : NULL);
    VF_ASSUME(m != NULL);
    VF_CHECK(m == &vf_map_arena && m->table == vf_tbl_a0 && m->table_size == TS && vf_tbl_req0 == TS, "m_map_new: one map object, one zeroed table of the default size");
    vf_check_inv(m);
    VF_CHECK(m_map_len(m) == 0, "a new map is empty");

    for (int step = 0; step < L; step++) {
        /* scripts stay at one table size: a put can only grow a table that already holds TS/2 entries (its probe
         * window full), i.e. not before operation TS/2 + 1 - until then a growth would be REPORTED; from then on the
         * growing paths are cut (bound of this harness; growth is map_grow.c's job) */
        vf_tbl_silent = step >= TS / 2;
        VF_PICK(op, 3);
        VF_PICK(k, NK);
        int r;
        if (op == 0) {                                     /* put */
            int v = (nondet_bool() && mo_present[k]) ? mo_val[k] : FRESH(step);
            const char *key; char *mine = NULL;
            if (keymode == 1) key = mine = vf_heap_key(k);
            else if (keymode == 2) { memcpy(putkey, keystr[k], KEYLEN); key = putkey; }   /* scratch buffer, scribbled below */
            else key = keystr[k];                          /* the caller keeps the key alive and unchanged */
            const bool was = mo_present[k];
            const int ka_before = ka_n;
            r = m_map_put(m, key, VAL(v));
            if (keymode == 2) putkey[0] = 'z';
            if (!was) {
                VF_CHECK(r == 0, "put of a new key succeeds");
                mo_present[k] = true; mo_val[k] = v;
            } else if (upd) {
                VF_CHECK(r == 0, "put on an existing key succeeds when updates are allowed");
                if (v != mo_val[k]) mo_dt[mo_val[k]]++;
                mo_val[k] = v;
            } else {
                VF_CHECK(r < 0, "put on an existing key fails when updates are not allowed");
            }
            if (keymode == 1 && was) { ka_n = ka_before - 1; free(mine); }   /* buffer of an update/refusal stays the caller's */
        } else if (op == 1) {                              /* remove */
            r = m_map_remove(m, PK(k));
            if (mo_present[k]) {
                VF_CHECK(r == 0, "remove of a present key succeeds");
                mo_present[k] = false; mo_dt[mo_val[k]]++;
            } else {
                VF_CHECK(r < 0, "remove of an absent key fails");
            }
        } else {                                           /* clear */
            r = m_map_clear(m);
            VF_CHECK(r == 0, "clear succeeds");
            for (int j = 0; j < NK; j++) if (mo_present[j]) { mo_dt[mo_val[j]]++; mo_present[j] = false; }
        }
        if (keymode == 0) VF_CHECK(ka_n == 0, "a map without M_MAP_KEY_DUP never allocates keys");
        vf_check_inv(m);
        vf_check_model(m);
        vf_check_dtors();
    }

    /* closing observation */
    for (int k = 0; k < NK; k++) VF_CHECK(m_map_contains(m, PK(k)) == mo_present[k], "contains is true exactly for the live keys");
    int visits[NK]; for (int k = 0; k < NK; k++) visits[k] = 0;
    m_map_itr_t *it = m_map_itr_new(m);
    VF_CHECK((it != NULL) == (mo_len() > 0), "an iterator exists iff the map is not empty");
    for (int i = 0; i < NK + 1; i++) {
        if (!it) break;
        const char *key = m_map_itr_get_key(it);
        int k = key ? kid_of(key) : -1;
        VF_CHECK(k >= 0 && mo_present[k] && visits[k] == 0, "iterator yields live entries, each once");
        if (k >= 0) { VF_CHECK(m_map_itr_get_data(it) == VAL(mo_val[k]), "iterator yields the live value"); visits[k]++; }
        m_map_itr_next(&it);
    }
    VF_CHECK(it == NULL, "the iterator ends after one step per entry");
    for (int k = 0; k < NK; k++) VF_CHECK(visits[k] == (mo_present[k] ? 1 : 0), "every live entry is visited exactly once");

    int r = m_map_free(&m);
    VF_CHECK(r == 0 && m == NULL, "free succeeds and clears the handle");
    for (int j = 0; j < NK; j++) if (mo_present[j]) { mo_dt[mo_val[j]]++; mo_present[j] = false; }
    vf_check_dtors();
    VF_CHECK(vf_tbl_freed[0] == 1 && vf_tbl_freed[1] == (vf_tbl_next > 1) && vf_map_freed == 1, "every table and the map object are released, once each");
    if (keymode) VF_CHECK(ka_live() == 0, "free releases every key the map owns");
    VF_WITNESS("end");
    return 0;
}
