/* C12 (list): every operation sequence of length L from the empty list; comparator = class (index / 2). */
#include "vf.h"
#include <structs/list.c>
#ifndef L
#define L 5
#endif
static char elems[L + 1];
#define EL(i) ((void *)&elems[i])
static int idx(void *p) { return (int)((char *)p - elems); }
static int dt_cnt[L + 1], exp_dt[L + 1];
static void vf_dtor(void *p) { int i = idx(p); if (i >= 0 && i <= L) dt_cnt[i]++; }
static int vf_cmp(void *my, void *theirs) { return idx(my) / 2 - idx(theirs) / 2; }
static int model[L + 2], mlen;
static _Bool with_cmp;
static _Bool matches(int arg, int e) { return (with_cmp && arg / 2 == e / 2) || arg == e; }

int vf_main(void) {
    _Bool with_dtor = nondet_bool(); with_cmp = nondet_bool();
    m_list_t *l = m_list_new(with_cmp ? vf_cmp : NULL, with_dtor ? vf_dtor : NULL); VF_ASSUME(l != NULL);
    int r;
    for (int s = 0; s < L; s++) {
        VF_PICK(op, 4);
        unsigned char a = nondet_uchar(); VF_ASSUME(a <= L);
        switch (op) {
        case 0: { /* insert a fresh element; position observed (see list_step.c) */
            r = m_list_insert(l, EL(s)); VF_CHECK(r == 0, "insert returns 0");
            int seq[L + 2], sl = 0;
            m_list_itr_t *it = m_list_itr_new(l);
            for (int i = 0; i < L + 1; i++) { if (!it) break; seq[sl++] = idx(m_list_itr_get_data(it)); m_list_itr_next(&it); }
            VF_CHECK(it == NULL && sl == mlen + 1, "insert adds exactly one element");
            int pos = mlen;
            for (int i = mlen - 1; i >= 0; i--) if (i < sl && seq[i] != model[i]) pos = i;
            VF_CHECK(pos < sl && seq[pos] == s, "the extra element is the inserted one");
            for (int i = 0; i < L; i++) if (i >= pos && i < mlen) VF_CHECK(i + 1 < sl && seq[i + 1] == model[i], "insert keeps the relative order");
            for (int i = L; i > pos; i--) model[i] = model[i - 1];
            model[pos] = s; mlen++;
            break; }
        case 1: {
            r = m_list_remove(l, EL(a));
            int pos = -1;
            for (int i = mlen - 1; i >= 0; i--) if (matches(a, model[i])) pos = i;
            if (pos < 0) VF_CHECK(r < 0, "remove of an absent element fails");
            else { VF_CHECK(r == 0, "remove returns 0"); if (with_dtor) exp_dt[model[pos]]++; for (int i = pos; i + 1 < L + 2; i++) model[i] = model[i + 1]; mlen--; }
            break; }
        case 2: {
            void *d = m_list_find(l, EL(a));
            int pos = -1;
            for (int i = mlen - 1; i >= 0; i--) if (matches(a, model[i])) pos = i;
            VF_CHECK(d == (pos >= 0 ? EL(model[pos]) : NULL), "find returns the first match or NULL");
            break; }
        default: {
            m_list_itr_t *it = m_list_itr_new(l);
            VF_CHECK((it != NULL) == (mlen > 0), "iterator exists iff non-empty");
            if (it) {
                unsigned char p = nondet_uchar(); VF_ASSUME(p < mlen);
                for (int i = 0; i < L; i++) if (i < p) m_list_itr_next(&it);
                VF_CHECK(it != NULL && m_list_itr_get_data(it) == EL(model[p]), "iterator reaches position p");
                r = m_list_itr_remove(it); VF_CHECK(r == 0, "itr_remove returns 0");
                if (with_dtor) exp_dt[model[p]]++;
                for (int i = p; i + 1 < L + 2; i++) model[i] = model[i + 1];
                mlen--;
                int rest = 0;
                for (int i = 0; i < L + 1; i++) { if (!it) break; m_list_itr_next(&it); if (it) { VF_CHECK(p + rest < mlen && m_list_itr_get_data(it) == EL(model[p + rest]), "iteration continues with the following elements"); rest++; } }
                VF_CHECK(it == NULL, "iterator terminates");
            }
            break; }
        }
        VF_CHECK(m_list_len(l) == mlen, "length is exact after every step");
    }
    m_list_itr_t *it = m_list_itr_new(l); int v = 0;
    for (int i = 0; i < L + 1; i++) { if (!it) break; VF_CHECK(v < mlen && m_list_itr_get_data(it) == EL(model[v]), "final content"); v++; m_list_itr_next(&it); }
    VF_CHECK(it == NULL && v == mlen, "final iteration complete");
    r = m_list_free(&l); VF_CHECK(r == 0 && l == NULL, "free");
    if (with_dtor) for (int i = 0; i < mlen; i++) exp_dt[model[i]]++;
    for (int i = 0; i <= L; i++) VF_CHECK(dt_cnt[i] == exp_dt[i], "dtor count");
    VF_WITNESS("end");
    return 0;
}
