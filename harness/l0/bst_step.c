/* C11 (ordered set, bst.c): one operation from an ARBITRARY valid binary search tree, followed by an observation
 * suffix through the public API.  One job = one tree shape (every shape of <= N nodes is a job, see vf/specs/C11.py).
 *
 * Pre-state (built directly, = representation invariant of bst.c): N nodes calloc'd by the harness and linked in the
 * shape given by VF_PAR / VF_SIDE (node 0 is the root, parents precede children); parent links consistent; every
 * node's key lies strictly inside the open interval inherited from its ancestors (= BST ordering); len == N.
 * Histories of any length that lead to such a tree are covered by the single step.  The shape is fixed per job because
 * CBMC scales on this code only while the heap shape is concrete (DESIGN.md section 2; measured here: symbolic shape
 * of <= 3 nodes = 11.5 M SAT variables, no verdict in 15 min); for the same reason the operations are run in an
 * explicit case split without a join (run_op is called with constant op / removal mask).
 *
 * Elements are cells of a static array (identity = index).  With the user comparator two neighbouring cells form one
 * comparator class (index / 2), so distinct pointers may compare equal; with the default comparator (NULL passed to
 * m_bst_new) every cell is its own class and the order is the address order.  The class function is monotone in the
 * index.  The model is the ascending array of the cells in the set.
 *
 * Symbolic: element of every node (any assignment satisfying the ordering), comparator / destructor installed,
 * op, argument element, traversal order / stop position / callback result, set of positions removed through the
 * iterator, key of the suffix find.
 *
 * Only what C11 promises is asserted: acceptance/rejection (sign of the return value), which element is found /
 * removed / destroyed, exact length, visit-once + ascending order of in-order traversal and of the iterator,
 * pre/post-order consistent with ONE search tree (reconstructed from the pre-order output), positive callback results
 * stop a traversal and are not forwarded, negative ones are forwarded (tests/test_bst.c relies on both).
 * In addition the suffix re-establishes the part of the pre-state invariant that traversals do not show (parent
 * links): that is the induction hypothesis, any failure of it must be triaged with an API-level reproducer. */
#include "vf.h"
#include <structs/bst.c>

#ifndef N
#define N 3                            /* number of nodes of the pre-state */
#define VF_PAR 0, 0                    /* parent of node 1, 2, ... (node 0 is the root; parents precede children) */
#define VF_SIDE 0, 1                   /* side of node 1, 2, ...: 0 = left child, 1 = right child */
#endif
static const unsigned char sh_par[] = { 0, VF_PAR };
static const unsigned char sh_side[] = { 0, VF_SIDE };
#define NK (2 * N + 1)                 /* classes: room for an argument below / between / equal to / above N keys */
#define NE (2 * NK)                    /* two distinct elements per class under the user comparator */
#define MAXN (N + 1)                   /* most elements a tree holds in this harness (after one insert) */

static char elems[NE];
#define EL(i) ((void *)&elems[i])
static int idx(void *p) { return (int)((char *)p - elems); }
static _Bool with_cmp, with_dtor;
static int kf(int e) { return with_cmp ? e / 2 : e; }

static unsigned char dt_cnt[NE], exp_dt[NE], dt_bad;
void vf_dtor(void *p) { int i = idx(p); if (i >= 0 && i < NE) dt_cnt[i]++; else dt_bad++; }
int vf_cmp(void *my, void *theirs) { return idx(my) / 2 - idx(theirs) / 2; }

static int cb_seen[MAXN + 1], cb_n, cb_stop_at, cb_ret;
int vf_cb(void *up, void *data) {
    (void)up;
    if (cb_n <= MAXN) cb_seen[cb_n] = idx(data);
    cb_n++;
    if (cb_n - 1 == cb_stop_at) return cb_ret;
    return 0;
}

/* ---- model: the cells in the set, ascending; at most one per class ---- */
static int srt[MAXN + 2], mlen;
/* position of the element of the set that compares equal to cell a, or -1 */
static int model_pos(int a) {
    int p = -1;
    for (int i = 0; i < MAXN; i++) if (i < mlen && kf(srt[i]) == kf(a)) p = i;
    return p;
}
static void model_insert(int a) {
    int p = 0;
    for (int i = 0; i < MAXN; i++) if (i < mlen && kf(srt[i]) < kf(a)) p = i + 1;
    for (int i = MAXN; i > 0; i--) if (i > p) srt[i] = srt[i - 1];
    srt[p] = a; mlen++;
}
static void model_remove(int p) {
    for (int i = 0; i < MAXN; i++) if (i >= p) srt[i] = srt[i + 1];
    mlen--;
}

/* ---- pre/post-order consistency: rebuild the unique search tree that has the given pre-order (interval recursion)
 *      and emit its in-order and post-order ---- */
static int cv_pre[MAXN + 1], cv_n, cv_idx, cv_post[MAXN + 1], cv_pn, cv_in[MAXN + 1], cv_in_n;
static void conv(int lo, int hi, int depth) {
    if (depth > MAXN) return;              /* a tree of <= MAXN nodes has no node this deep; keeps the recursion concrete */
    if (cv_idx >= cv_n) return;
    int k = kf(cv_pre[cv_idx]);
    if (k <= lo || k >= hi) return;
    int root = cv_pre[cv_idx++];
    conv(lo, k, depth + 1);
    if (cv_in_n <= MAXN) cv_in[cv_in_n] = root;
    cv_in_n++;
    conv(k, hi, depth + 1);
    if (cv_pn <= MAXN) cv_post[cv_pn] = root;
    cv_pn++;
}

static int full_traverse(m_bst_t *t, m_bst_order o) {
    cb_n = 0; cb_stop_at = -1;
    return m_bst_traverse(t, o, vf_cb, NULL);
}

/* representation invariant the pre-state assumes and that is not visible through traversals: parent links */
static void check_links(bst_node *node, bst_node *parent, int depth) {
    if (!node || depth > MAXN) return;
    VF_CHECK(node->parent == parent, "representation: every node's parent link names its parent (the induction hypothesis of this harness)");
    check_links(node->left, node, depth + 1);
    check_links(node->right, node, depth + 1);
}

#define OP_INSERT 0
#define OP_REMOVE 1
#define OP_TRAVERSE 2
#define OP_ITERATE 3
#define OP_ITR_WALK 4
#define OP_CLEAR 5
#define OP_FREE 6
#define OP_NONE 7
#define NOPS 8
#define HAS_OP(o) ((VF_OPS >> (o)) & 1)
#ifndef VF_OPS
#define VF_OPS 0xff                    /* bit mask of the operations this job covers */
#endif
#ifndef VF_MASK_LO
#define VF_MASK_LO 0                   /* range of iterator-removal masks this job covers */
#define VF_MASK_HI 255
#endif
#ifndef VF_SUFFIX_ITR
#define VF_SUFFIX_ITR 0                /* 1: walk the iterator in the suffix also after insert / remove (expensive) */
#endif

/* everything the public API shows about the set must agree with the model */
static void check_state(m_bst_t *t, const unsigned op) {
    int r;
    VF_CHECK(m_bst_len(t) == mlen, "length is exact");

    r = full_traverse(t, M_BST_IN);
    VF_CHECK(r == 0, "in-order traversal succeeds");
    VF_CHECK(cb_n == mlen, "in-order traversal visits every element exactly once");
    for (int i = 0; i < MAXN; i++) if (i < mlen && i < cb_n) VF_CHECK(cb_seen[i] == srt[i], "in-order traversal is strictly ascending = the sorted set");

    /* (after iterator removals the tree is again a valid tree of fewer nodes - in-order and parent links are checked
     * here -, for which pre/post-order, find and the iterator are established by the jobs of the smaller shapes) */
    if (op != OP_ITR_WALK) {
        r = full_traverse(t, M_BST_PRE);
        VF_CHECK(r == 0, "pre-order traversal succeeds");
        VF_CHECK(cb_n == mlen, "pre-order traversal visits every element exactly once (count)");
        cv_n = cb_n <= MAXN ? cb_n : MAXN;
        for (int i = 0; i < MAXN; i++) if (i < cv_n) cv_pre[i] = cb_seen[i];
        cv_idx = 0; cv_pn = 0; cv_in_n = 0;
        conv(-1, NE, 0);
        VF_CHECK(cv_idx == cv_n, "pre-order output is the pre-order of a binary search tree");
        for (int i = 0; i < MAXN; i++) if (i < cv_in_n && i < mlen) VF_CHECK(cv_in[i] == srt[i], "the search tree with that pre-order holds exactly the elements of the set");
        r = full_traverse(t, M_BST_POST);
        VF_CHECK(r == 0, "post-order traversal succeeds");
        VF_CHECK(cb_n == mlen, "post-order traversal visits every element exactly once (count)");
        for (int i = 0; i < MAXN; i++) if (i < cv_pn && i < cb_n) VF_CHECK(cb_seen[i] == cv_post[i], "post-order output is the post-order of the same search tree");
    }

    VF_CHECK(t->root == NULL || t->root->parent == NULL, "representation: the root has no parent");
    check_links(t->root, NULL, 0);

    /* after insert / remove the node the operation touched is symbolic; bst.c's iterator walks pointers to node
     * FIELDS, which CBMC then encodes with symbolic byte offsets (measured: 70 s for this walk alone at n = 3).
     * There the parent links - the only thing the iterator reads that the traversals do not - are checked directly
     * above, and the iterator itself is verified on every tree satisfying that invariant by OP_ITR_WALK / OP_NONE. */
    if ((op != OP_INSERT && op != OP_REMOVE) || VF_SUFFIX_ITR) {
        m_bst_itr_t *it = m_bst_itr_new(t);
        VF_CHECK((it != NULL) == (mlen > 0), "iterator exists iff the set is non-empty");
        int v = 0;
        for (int i = 0; i < MAXN + 1; i++) {
            if (!it) break;
            VF_CHECK(v < mlen && m_bst_itr_get_data(it) == EL(srt[v < mlen ? v : 0]), "iterator yields the elements in ascending order, once each");
            v++;
            m_bst_itr_next(&it);
        }
        VF_CHECK(it == NULL && v == mlen, "iterator ends after the last element, having visited every element");
    }

    if (op != OP_ITR_WALK) {
        unsigned char b = nondet_uchar(); VF_ASSUME(b < NE);
        void *d = m_bst_find(t, EL(b));
        int p = model_pos(b);
        VF_CHECK(d == (p >= 0 ? EL(srt[p]) : NULL), "find returns exactly the element comparing equal to the key, or nothing");
    }
}

static void check_dtors(void) {
    VF_CHECK(dt_bad == 0, "destructor called on something that is not an element");
    for (int i = 0; i < NE; i++) VF_CHECK(dt_cnt[i] == exp_dt[i], "destructor exactly once on the removed element, never on one that stays");
}

/* iterator walk over the whole set, removing the positions in `mask` through the iterator */
static void itr_walk(m_bst_t *t, const unsigned mask) {
    int r, kept[MAXN + 1], nk = 0;
    const int n0 = mlen;
    m_bst_itr_t *it = m_bst_itr_new(t);
    VF_CHECK((it != NULL) == (n0 > 0), "iterator exists iff the set is non-empty");
    int v = 0;
    for (int i = 0; i < N + 1; i++) {
        if (!it) break;
        void *d = m_bst_itr_get_data(it);
        VF_CHECK(v < n0 && d == EL(srt[v < n0 ? v : 0]), "iterator yields every element once, ascending, also after removals through it");
        if (v < n0) {
            if ((mask >> v) & 1) {
                r = m_bst_itr_remove(it); VF_CHECK(r == 0, "removal of the current element through the iterator succeeds");
                if (with_dtor) exp_dt[srt[v]]++;
            } else kept[nk++] = srt[v];
        }
        v++;
        m_bst_itr_next(&it);
    }
    VF_CHECK(it == NULL && v == n0, "iterator ends after the last element, having visited every element");
    for (int i = 0; i < MAXN; i++) if (i < nk) srt[i] = kept[i];
    mlen = nk;
}

/* `op` (and `mask`) are compile-time constants at every call site: the heap stays concrete as long as the library
 * does not branch on a comparison */
static int run_op(m_bst_t *t, const unsigned op, const unsigned mask, unsigned char a) {
    int r, p;
    switch (op) {
    case OP_INSERT:
        p = model_pos(a);
        r = m_bst_insert(t, EL(a));
        if (p >= 0) VF_CHECK(r < 0, "insert of an element comparing equal to a present one is rejected");
        else { VF_CHECK(r == 0, "insert is accepted when no element compares equal"); model_insert(a); }
        break;
    case OP_REMOVE:
        p = model_pos(a);
        r = m_bst_remove(t, EL(a));
        if (p < 0) VF_CHECK(r < 0, "remove of an absent key fails");
        else { VF_CHECK(r == 0, "remove of a present key succeeds"); if (with_dtor) exp_dt[srt[p]]++; model_remove(p); }
        break;
    case OP_TRAVERSE: { /* traversal in a symbolic order, optionally stopped by the callback */
        VF_PICK(ty, 4);
        cb_n = 0; cb_stop_at = nondet_uchar(); cb_ret = nondet_bool() ? 5 : -7;
        r = m_bst_traverse(t, ty == 0 ? M_BST_PRE : ty == 1 ? M_BST_POST : ty == 2 ? M_BST_IN : (m_bst_order)7, vf_cb, NULL);
        if (ty == 3) VF_CHECK(r < 0 && cb_n == 0, "unknown traversal order is rejected");
        else {
            int expn = cb_stop_at < mlen ? cb_stop_at + 1 : mlen;
            VF_CHECK(cb_n == expn, "traversal calls the callback once per element until it is stopped");
            VF_CHECK(r == ((cb_stop_at < mlen && cb_ret < 0) ? cb_ret : 0), "traversal forwards a negative callback result, not a positive one");
            if (ty == 2) for (int i = 0; i < N; i++) if (i < expn && i < cb_n) VF_CHECK(cb_seen[i] == srt[i], "stopped in-order traversal saw the smallest elements in ascending order");
        }
        break; }
    case OP_ITERATE: { /* m_bst_iterate: every element exactly once until stopped */
        cb_n = 0; cb_stop_at = nondet_uchar(); cb_ret = nondet_bool() ? 5 : -7;
        r = m_bst_iterate(t, vf_cb, NULL);
        int expn = cb_stop_at < mlen ? cb_stop_at + 1 : mlen;
        VF_CHECK(cb_n == expn, "iterate calls the callback once per element until it is stopped");
        VF_CHECK(r == ((cb_stop_at < mlen && cb_ret < 0) ? cb_ret : 0), "iterate forwards a negative callback result, not a positive one");
        for (int i = 0; i < N; i++) if (i < expn && i < cb_n) {
            _Bool member = 0;
            for (int j = 0; j < N; j++) if (j < mlen && srt[j] == cb_seen[i]) member = 1;
            VF_CHECK(member, "iterate reports only elements of the set");
            for (int j = 0; j < i; j++) VF_CHECK(cb_seen[j] != cb_seen[i], "iterate reports no element twice");
        }
        break; }
    case OP_ITR_WALK:
        itr_walk(t, mask);
        break;
    case OP_CLEAR:
        r = m_bst_clear(t);
        if (mlen > 0) VF_CHECK(r == 0, "clear of a non-empty set succeeds");
        for (int i = 0; i < N; i++) if (i < mlen && with_dtor) exp_dt[srt[i]]++;
        mlen = 0;
        break;
    case OP_FREE:
        r = m_bst_free(&t);
        VF_CHECK(r == 0 && t == NULL, "free clears the handle");
        for (int i = 0; i < N; i++) if (i < mlen && with_dtor) exp_dt[srt[i]]++;
        check_dtors();
#if HAS_OP(OP_FREE)
        VF_WITNESS("free");
#endif
        return 0;
    default: /* OP_NONE: the suffix alone = len / find / traversals / iterator on the arbitrary tree */
        break;
    }
    check_state(t, op);
    check_dtors();
    switch (op) {                      /* one reachability witness per operation */
#if HAS_OP(OP_INSERT)
    case OP_INSERT: VF_WITNESS("insert"); break;
#endif
#if HAS_OP(OP_REMOVE)
    case OP_REMOVE: VF_WITNESS("remove"); break;
#endif
#if HAS_OP(OP_TRAVERSE)
    case OP_TRAVERSE: VF_WITNESS("traverse"); break;
#endif
#if HAS_OP(OP_ITERATE)
    case OP_ITERATE: VF_WITNESS("iterate"); break;
#endif
#if HAS_OP(OP_ITR_WALK)
    case OP_ITR_WALK: VF_WITNESS("iterator walk"); break;
#endif
#if HAS_OP(OP_CLEAR)
    case OP_CLEAR: VF_WITNESS("clear"); break;
#endif
#if HAS_OP(OP_NONE)
    case OP_NONE: VF_WITNESS("none"); break;
#endif
    default: break;
    }
    return 0;
}

/* in-order numbering of the (concrete) shape */
static int sh_lc[N + 1], sh_rc[N + 1], sh_ord[N + 1], sh_k;
static void shape_inorder(int i, int depth) {
    if (i < 0 || depth > N) return;
    shape_inorder(sh_lc[i], depth + 1);
    sh_ord[sh_k++] = i;
    shape_inorder(sh_rc[i], depth + 1);
}

int vf_main(void) {
    const int n = N;
    with_dtor = nondet_bool(); with_cmp = nondet_bool();
    m_bst_t *t = m_bst_new(with_cmp ? vf_cmp : NULL, with_dtor ? vf_dtor : NULL);
    VF_ASSUME(t != NULL);

    /* ---- arbitrary valid tree of the given shape ---- */
    bst_node *nd[N + 1]; int el[N + 1], lo[N + 1], hi[N + 1];
    for (int i = 0; i < N; i++) {
        nd[i] = calloc(1, sizeof(bst_node)); VF_ASSUME(nd[i] != NULL);
        unsigned char e = nondet_uchar(); VF_ASSUME(e < NE);
        el[i] = e; nd[i]->userptr = EL(e);
        lo[i] = -1; hi[i] = NE;
    }
    for (int i = 1; i < N; i++) {
        const int p = sh_par[i]; const _Bool right = sh_side[i];
        bst_node **slot = right ? &nd[p]->right : &nd[p]->left;
        VF_ASSUME(p < i && *slot == NULL);                    /* shape table is well formed */
        *slot = nd[i]; nd[i]->parent = nd[p];
        lo[i] = right ? kf(el[p]) : lo[p];
        hi[i] = right ? hi[p] : kf(el[p]);
        VF_ASSUME(lo[i] < kf(el[i]) && kf(el[i]) < hi[i]);
    }
    t->root = n ? nd[0] : NULL; t->len = n;
    for (int i = 0; i < N + 1; i++) sh_lc[i] = sh_rc[i] = -1;
    for (int i = 1; i < N; i++) if (sh_side[i]) sh_rc[sh_par[i]] = i; else sh_lc[sh_par[i]] = i;
    sh_k = 0;
    if (n) shape_inorder(0, 0);
    for (int i = 0; i < N; i++) srt[i] = el[sh_ord[i]];
    mlen = n;

    VF_PICK(op, NOPS);
    VF_ASSUME((VF_OPS >> op) & 1);
    unsigned char a = nondet_uchar(); VF_ASSUME(a < NE);
    unsigned char mask = nondet_uchar(); VF_ASSUME(mask < (1u << N) && mask >= VF_MASK_LO && mask <= VF_MASK_HI);
    /* explicit case split, no join afterwards: every (operation, removal mask) runs on the un-merged concrete heap */
    for (unsigned o = 0; o < NOPS; o++) {
        if (!((VF_OPS >> o) & 1)) continue;
        if (o == OP_ITR_WALK) {
            for (unsigned m = 0; m < (1u << N); m++) { if (m < VF_MASK_LO || m > VF_MASK_HI) continue; if (op == o && mask == m) return run_op(t, o, m, a); }
        } else if (op == o) return run_op(t, o, 0, a);
    }
    return 0;
}
