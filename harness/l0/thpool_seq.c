/* C06: thread pool - each accepted task runs at most once with its argument, wait-all free returns after every
 * accepted task ran, free without wait-all discards what had not started, no deadlock, nobody touches the pool after
 * free returned.
 * CBMC cannot run thpool.c with real threads (it refuses shared-pointer dereferences in threads).  This harness is a
 * SEQUENTIALISATION of the real thpool.c (included verbatim) at the granularity the pool itself synchronises on:
 * every access to shared pool state happens under the pool mutex (running_tasks is atomic), so a schedule is a
 * sequence of critical sections.  The pthread primitives are replaced by a scheduler model:
 *   - pthread_create registers the worker; a registered worker is started at a nondeterministic later scheduling
 *     point (before any action of the submitting thread, or nested at another thread's scheduling point) and then runs
 *     thpool_thread() for real;
 *   - every pthread_mutex_lock of a worker, every pthread_cond_wait and the body of every task are scheduling points:
 *     there the solver chooses which of the other threads' pending critical sections run (the submitting thread's next
 *     m_thpool_add(), its shutdown request = the real wait_pool(), or starting another worker);
 *   - pthread_cond_wait returns only after a signal/broadcast issued while it waited, or spuriously (budget SPURIOUS);
 *     if it is not woken and no other thread can act any more, that is a deadlock and is reported;
 *   - pthread_join runs the worker to completion if it has not started; when the joined worker is suspended further
 *     down the (simulated) stack, join returns and the remainder of m_thpool_free() runs after that worker returned
 *     (the only code that moves is `init_state &= ~INITED_STARTED`, which no worker reads).
 * Restriction (stated in the evidence): context switches are stack-shaped (a thread that was pre-empted resumes after
 * the threads that pre-empted it reached their end or their own scheduling point returned); with one worker and one
 * submitter this is every interleaving of critical sections; with two workers it is a subset.
 * Symbolic: every scheduling choice, spurious wake-ups, wait_all, which worker a signal wakes. */
#include "vf.h"
#include <pthread.h>
#define pthread_mutex_init vf_mutex_init
#define pthread_mutex_destroy vf_mutex_destroy
#define pthread_mutex_lock vf_mutex_lock
#define pthread_mutex_unlock vf_mutex_unlock
#define pthread_cond_init vf_cond_init
#define pthread_cond_destroy vf_cond_destroy
#define pthread_cond_wait vf_cond_wait
#define pthread_cond_signal vf_cond_signal
#define pthread_cond_broadcast vf_cond_broadcast
#define pthread_create vf_thread_create
#define pthread_join vf_thread_join
#define pthread_attr_init vf_attr_init
#define pthread_attr_destroy vf_attr_destroy
#define pthread_attr_setdetachstate vf_attr_setdetachstate
int vf_mutex_init(pthread_mutex_t *m, const void *a);
int vf_mutex_destroy(pthread_mutex_t *m);
int vf_mutex_lock(pthread_mutex_t *m);
int vf_mutex_unlock(pthread_mutex_t *m);
int vf_cond_init(pthread_cond_t *c, const void *a);
int vf_cond_destroy(pthread_cond_t *c);
int vf_cond_wait(pthread_cond_t *c, pthread_mutex_t *m);
int vf_cond_signal(pthread_cond_t *c);
int vf_cond_broadcast(pthread_cond_t *c);
int vf_thread_create(pthread_t *th, const pthread_attr_t *a, void *(*fn)(void *), void *arg);
int vf_thread_join(pthread_t th, void **ret);
int vf_attr_init(pthread_attr_t *a);
int vf_attr_destroy(pthread_attr_t *a);
int vf_attr_setdetachstate(pthread_attr_t *a, int st);
#include <thpool/thpool.c>

#ifndef NT
#define NT 1
#endif
#ifndef NTASK
#define NTASK 2
#endif
#ifndef FLAGS
#define FLAGS 0
#endif
#ifndef SPURIOUS
#define SPURIOUS 1
#endif
#define NW NT
enum { T_NONE = 0, T_CREATED, T_RUNNING, T_DONE };
static struct { void *(*fn)(void *); void *arg; int state; _Bool detached, waiting, woken; } thr[NW];
static int nthr, cur = -1;                 /* cur: -1 = submitting/freeing thread, else worker index */
static _Bool lock_held; static int lock_owner;
static _Bool attr_detached;
static int spurious_left = SPURIOUS;
static m_thpool_t *pool;
static _Bool wait_all;
static int main_pc;                        /* next action of the submitting thread: 0..NTASK-1 add, NTASK shutdown request */
static _Bool shutdown_requested, free_returned, pool_destroyed;
static int ran[NTASK], accepted[NTASK], in_flight, max_in_flight;
static char targ[NTASK];

static _Bool vf_env(void);
void *vf_task(void *a) {
    int i = (int)((char *)a - targ);
    VF_CHECK(i >= 0 && i < NTASK, "task gets the argument it was submitted with");
    VF_CHECK(!free_returned, "no task runs after m_thpool_free() returned");
    if (i >= 0 && i < NTASK) ran[i]++;
    in_flight++; if (in_flight > max_in_flight) max_in_flight = in_flight;
    vf_env();                              /* other threads may run while the task executes */
    in_flight--;
    return NULL;
}
static int depth;                          /* how many workers are suspended below on the simulated stack */
static void run_worker(int w) {
    int save = cur;
    thr[w].state = T_RUNNING; cur = w; depth++;
    thr[w].fn(thr[w].arg);
    thr[w].state = T_DONE; cur = save; depth--;
}
/* the submitting thread's next critical section, executed on its behalf at a scheduling point of another thread */
static _Bool main_step(void) {
    int save = cur; cur = -1;
    _Bool acted = 0;
    if (main_pc < NTASK) {
        int i = main_pc++;
        int r = m_thpool_add(pool, vf_task, &targ[i]);
        accepted[i] = (r == 0);
        VF_CHECK(r == 0, "submission to a live pool is accepted");
        acted = 1;
    } else if (main_pc == NTASK && !shutdown_requested) {
        main_pc++; shutdown_requested = 1;
        int r = wait_pool(pool, wait_all ? SHUTDOWN_WAITALL : SHUTDOWN_WAITCURR);   /* first half of m_thpool_free() */
        VF_CHECK(r == 0, "shutdown request");
        acted = 1;
    }
    cur = save;
    return acted;
}
/* scheduling point: the solver decides whether a pending critical section of ANOTHER thread runs now (at most
 * ENV_STEPS of them per point; a not yet started worker may be started here only when NESTED_WORKERS is set) */
#ifndef ENV_STEPS
#define ENV_STEPS 1
#endif
static _Bool vf_env(void) {
    _Bool acted = 0;
    for (int k = 0; k < ENV_STEPS; k++) {
        if (!nondet_bool()) break;
        _Bool did = 0;
#ifdef NESTED_WORKERS
        for (int w = 0; w < NW; w++) if (!did && w < nthr && thr[w].state == T_CREATED && nondet_bool()) { run_worker(w); did = 1; }
#endif
        if (!did && cur != -1) did = main_step();
        if (!did) break;
        acted = 1;
    }
    return acted;
}
static _Bool anyone_can_act(void) {
    if (cur != -1 && (main_pc <= NTASK && !shutdown_requested)) return 1;
#ifdef NESTED_WORKERS
    for (int w = 0; w < NW; w++) if (w < nthr && thr[w].state == T_CREATED) return 1;
#endif
    return 0;
}

int vf_mutex_init(pthread_mutex_t *m, const void *a) { (void)m; (void)a; lock_held = 0; return 0; }
int vf_mutex_destroy(pthread_mutex_t *m) { (void)m; VF_CHECK(!lock_held, "mutex destroyed while held"); return 0; }
int vf_mutex_lock(pthread_mutex_t *m) {
    (void)m;
    VF_CHECK(!pool_destroyed, "nobody touches the pool after it was destroyed");
    if (cur != -1) vf_env();
    VF_CHECK(!lock_held, "no deadlock: the pool mutex is free when a thread that can run takes it");
    VF_ASSUME(!lock_held);
    lock_held = 1; lock_owner = cur;
    return 0;
}
int vf_mutex_unlock(pthread_mutex_t *m) {
    (void)m;
    VF_CHECK(lock_held && lock_owner == cur, "mutex unlocked by its owner");
    lock_held = 0;
    return 0;
}
int vf_cond_init(pthread_cond_t *c, const void *a) { (void)c; (void)a; return 0; }
int vf_cond_destroy(pthread_cond_t *c) { (void)c; for (int w = 0; w < NW; w++) VF_CHECK(!thr[w].waiting, "condition variable destroyed while a worker waits on it"); return 0; }
int vf_cond_signal(pthread_cond_t *c) {
    (void)c;
    /* wakes one waiting thread, whichever */
    for (int w = 0; w < NW; w++) if (thr[w].waiting && nondet_bool()) { thr[w].waiting = 0; thr[w].woken = 1; return 0; }
    for (int w = 0; w < NW; w++) if (thr[w].waiting) { thr[w].waiting = 0; thr[w].woken = 1; return 0; }
    return 0;
}
int vf_cond_broadcast(pthread_cond_t *c) { (void)c; for (int w = 0; w < NW; w++) if (thr[w].waiting) { thr[w].waiting = 0; thr[w].woken = 1; } return 0; }
int vf_cond_wait(pthread_cond_t *c, pthread_mutex_t *m) {
    (void)c; (void)m;
    int w = cur;
    VF_CHECK(w >= 0 && lock_held && lock_owner == w, "cond_wait with the mutex held");
    lock_held = 0; thr[w].waiting = 1; thr[w].woken = 0;
    _Bool spurious = 0;
    if (spurious_left > 0 && nondet_bool()) { spurious_left--; spurious = 1; }
    for (int k = 0; k < NTASK + 2; k++) {
        if (thr[w].woken || spurious) break;
        /* blocked: somebody else has to run */
        _Bool did = 0;
#ifdef NESTED_WORKERS
        for (int v = 0; v < NW; v++) if (!did && v < nthr && thr[v].state == T_CREATED && nondet_bool()) { run_worker(v); did = 1; }
#endif
        if (!did) did = main_step();
#ifdef NESTED_WORKERS
        if (!did) for (int v = 0; v < NW; v++) if (!did && v < nthr && thr[v].state == T_CREATED) { run_worker(v); did = 1; }
#endif
        if (!did) break;
    }
    if (!thr[w].woken && !spurious) {
        VF_CHECK(anyone_can_act(), "no deadlock: a worker waits on the condition variable although nobody is left to signal it");
        VF_ASSUME(0);
    }
    thr[w].waiting = 0;
    VF_CHECK(!lock_held, "mutex free when the waiter re-acquires it");
    VF_ASSUME(!lock_held);
    lock_held = 1; lock_owner = w;
    return 0;
}
int vf_attr_init(pthread_attr_t *a) { (void)a; attr_detached = 0; return 0; }
int vf_attr_destroy(pthread_attr_t *a) { (void)a; return 0; }
int vf_attr_setdetachstate(pthread_attr_t *a, int st) { (void)a; attr_detached = (st == PTHREAD_CREATE_DETACHED); return 0; }
int vf_thread_create(pthread_t *th, const pthread_attr_t *a, void *(*fn)(void *), void *arg) {
    (void)a;
    VF_ASSUME(nthr < NW);
    thr[nthr].fn = fn; thr[nthr].arg = arg; thr[nthr].state = T_CREATED; thr[nthr].detached = attr_detached;
    *th = (pthread_t)(nthr + 1);
    nthr++;
    return 0;
}
int vf_thread_join(pthread_t th, void **ret) {
    (void)ret;
    int w = (int)th - 1;
    VF_CHECK(w >= 0 && w < nthr && !thr[w].detached, "join of a joinable pool thread");
#ifdef NESTED_WORKERS
    if (w >= 0 && w < nthr && thr[w].state == T_CREATED) run_worker(w);
#else
    /* with a single worker a join issued at a scheduling point of that worker finds it running (suspended below) */
    if (depth == 0 && w >= 0 && w < nthr && thr[w].state == T_CREATED) run_worker(w);
#endif
    /* T_RUNNING: the worker is suspended further down the simulated stack and finishes when control returns to it */
    return 0;
}

int vf_main(void) {
    wait_all = nondet_bool();
    pool = m_thpool_new(NT, (m_thpool_flags)(FLAGS));
    VF_ASSUME(pool != NULL);
    /* the submitting thread: NTASK submissions, then free; before each of its steps already created workers may start */
    for (int step = 0; step <= NTASK; step++) {
        for (int w = 0; w < NW; w++) if (w < nthr && thr[w].state == T_CREATED && nondet_bool()) run_worker(w);
        if (main_pc == step) main_step();
    }
    /* whatever the schedule was, the shutdown request has been made; joinable workers that never started run inside
     * the join of the real m_thpool_free() */
    if (!(FLAGS & M_THPOOL_DETACHED)) {
        /* nested shutdown already joined suspended workers logically; all joinable workers must be done by now */
        for (int w = 0; w < NW; w++) if (w < nthr && thr[w].state == T_CREATED) run_worker(w);
        for (int w = 0; w < NW; w++) if (w < nthr) VF_CHECK(thr[w].state == T_DONE, "every pool thread has exited when free proceeds past join");
    }
    int r = m_thpool_free(&pool, wait_all);
    pool_destroyed = 1; free_returned = 1;
    VF_CHECK(r == 0 && pool == NULL, "free succeeds and clears the handle");
    /* detached workers that were never scheduled so far get the CPU now: they must not touch the freed pool */
    for (int w = 0; w < NW; w++) if (w < nthr && thr[w].state == T_CREATED) run_worker(w);
    for (int i = 0; i < NTASK; i++) {
        VF_CHECK(ran[i] <= 1, "every accepted task runs at most once");
        if (wait_all && accepted[i] && !(FLAGS & M_THPOOL_DETACHED)) VF_CHECK(ran[i] == 1, "free with wait-all returns only after every accepted task ran");
    }
    VF_CHECK(max_in_flight <= NT, "at most the configured number of threads run tasks at a time");
    VF_CHECK(!lock_held, "mutex released at the end");
    VF_WITNESS("end");
    return 0;
}
