/* C05 (map): shared part of the map_*.c harnesses.
 *
 * Symbolic build (goto-cc): /repo/Lib/structs/map.c is compiled on its own with --export-file-local-symbols, the
 * body of its static hashmap_hash_string() is cut (Job.remove) and defined HERE as an arbitrary function of the
 * key identity, homes[kid] (free size_t per key) - the real hash is one instance.  The harnesses build tables
 * directly, so the private layout of map.c is repeated below; map_script.c checks the representation invariant
 * through this copy on a map that was built by the real m_map_new()/m_map_put(), so a drifted copy fails there.
 *
 * Native replay (-DVF_NATIVE, gcc + ASan/UBSan): map.c is #included unchanged - REAL hash - and the key strings
 * are searched so that their real hash has the low bits of homes[] chosen by the solver.
 *
 * Keys are identified by content (first character), never by pointer: with M_MAP_KEY_DUP the map holds copies.
 * Values are addresses of cells of a static array. */
#ifndef VF_MAP_COMMON_H
#define VF_MAP_COMMON_H
#include "vf.h"

#ifndef TS
#define TS 4                 /* table size of the directly built pre-state */
#endif
#ifndef NK
#define NK 3                 /* key universe */
#endif
#ifndef MAXTS
#define MAXTS TS             /* largest table size the invariant has to walk (2*TS in the growth harness) */
#endif
#ifndef VBASE
#define VBASE MAXTS          /* VAL(s), s < VBASE, sits in slot s of a directly built pre-state */
#endif
#ifndef NFRESH
#define NFRESH NK            /* FRESH(i): values the harness hands to put/set */
#endif
#define NVALS (VBASE + NFRESH)
#define FRESH(i) (VBASE + (i))

static size_t homes[NK];

#ifdef VF_NATIVE
#include <structs/map.c>
#define KEYLEN 16
static char keystr[NK][KEYLEN];
/* real keys whose real hash agrees with homes[] on every bit any table size in the harness looks at */
#ifndef VF_HMASK
#define VF_HMASK ((size_t)(2 * MAXTS - 1))
#endif
static void vf_keys_init(void) {
    for (int k = 0; k < NK; k++) {
        for (unsigned n = 0;; n++) {
            snprintf(keystr[k], KEYLEN, "%c%u", 'a' + k, n);
            if (((hashmap_hash_string(keystr[k]) ^ homes[k]) & VF_HMASK) == 0) break;
        }
    }
}
#else
#include "public/module/structs/map.h"
typedef struct { const char *key; void *data; } map_elem;
struct _map { size_t table_size; size_t length; m_map_flags flags; map_elem *table; m_map_dtor dtor; };
#define KEYLEN 2
static char keystr[NK][KEYLEN];
static void vf_keys_init(void) { for (int k = 0; k < NK; k++) { keystr[k][0] = (char)('a' + k); keystr[k][1] = 0; } }
/* the hash of map.c, cut and replaced: arbitrary function of the key identity */
size_t __CPROVER_file_local_map_c_hashmap_hash_string(const char *key) {
    int c = key[0] - 'a';
    VF_CHECK(c >= 0 && c < NK, "hash asked for a string that is not a key (dangling/corrupted key pointer)");
    return homes[c];
}
#ifdef VF_NO_REHASH
/* growth is the business of map_grow.c; here every path that would grow is cut (stated in the job's bounds) */
int __CPROVER_file_local_map_c_hashmap_rehash(m_map_t *m) { (void)m; VF_ASSUME(0); return 0; }
#endif
#endif

static void vf_homes_init(void) { for (int k = 0; k < NK; k++) homes[k] = nondet_size_t(); }

/* ---- values and destructor log ------------------------------------------------------------------------- */
static char vals[NVALS];
#define VAL(i) ((void *)&vals[i])
static int vid(const void *p) { return (int)((const char *)p - vals); }
static int dt_cnt[NVALS];
void vf_dtor(void *p) {
    int i = vid(p);
    VF_CHECK(i >= 0 && i < NVALS, "destructor called with something that is not a stored value");
    if (i >= 0 && i < NVALS) dt_cnt[i]++;
}

/* ---- allocator hook: log of key allocations --------------------------------------------------------------
 * map.c calls memhook._malloc only from mem_strdup (key duplication); the harness allocates the keys of a
 * pre-state that owns its keys through the same function, so ka_* is the log of every key buffer. */
#ifndef MAXA
#define MAXA (MAXTS + 4)
#endif
static char *ka_ptr[MAXA];
static int ka_n;
static int ka_freed[MAXA];
void *vf_malloc(size_t n) {
    void *p = malloc(n);
    VF_ASSUME(p != NULL);
    VF_CHECK(ka_n < MAXA, "more key buffers allocated than the harness's log holds");
    VF_ASSUME(ka_n < MAXA);
    ka_ptr[ka_n++] = p;
    return p;
}
/* Tables and the map object are served from static, typed arenas (a calloc'd table indexed by a symbolic hash is
 * what made earlier formulations need > 30 GB); everything else (iterators, keys) comes from malloc/calloc.
 * Contract of the hook = contract of calloc: zeroed block of the requested size, distinct from every live block
 * (each arena is handed out once).  A request the harness has no arena for is REPORTED and that path is cut. */
#define VF_NARENA 2
static map_elem vf_tbl_a0[MAXTS], vf_tbl_a1[MAXTS];       /* separate 1-D objects: pointers into a 2-D array are costly */
static map_elem *const vf_tbl_arena[VF_NARENA] = { vf_tbl_a0, vf_tbl_a1 };
static int vf_tbl_next, vf_tbl_budget = VF_NARENA, vf_tbl_freed[VF_NARENA];
static bool vf_tbl_silent;                 /* cut a growth the harness has no room for WITHOUT reporting it (stated bound) */
static size_t vf_tbl_req0;                 /* element count of the first table request */
static struct _map vf_map_arena;
static int vf_map_handed, vf_map_freed;
static char vf_dead;                       /* released tables are poisoned with this "key" */
void *vf_calloc(size_t a, size_t b) {
    if (b == sizeof(map_elem)) {              /* a table (no other allocation of map.c has this element size) */
        const size_t room = MAXTS;
        if (!vf_tbl_silent) VF_CHECK(a <= room && vf_tbl_next < vf_tbl_budget, "table allocation the harness has room for (one growth per put, by doubling)");
        VF_ASSUME(a <= room && vf_tbl_next < vf_tbl_budget);
        if (vf_tbl_next == 0) vf_tbl_req0 = a;
        return vf_tbl_arena[vf_tbl_next++];
    }
    if (a == 1 && b == sizeof(struct _map)) {
        VF_CHECK(!vf_map_handed, "one map object per harness");
        VF_ASSUME(!vf_map_handed);
        vf_map_handed = 1;
        return &vf_map_arena;
    }
    void *p = calloc(a, b);
    VF_ASSUME(p != NULL);
    return p;
}
void vf_free(void *p) {
    for (int i = 0; i < VF_NARENA; i++) if (p == (void *)vf_tbl_arena[i]) {
        vf_tbl_freed[i]++;
        for (int s = 0; s < MAXTS; s++) { vf_tbl_arena[i][s].key = &vf_dead; vf_tbl_arena[i][s].data = &vf_dead; }
        return;
    }
    if (p == (void *)&vf_map_arena) { vf_map_freed++; return; }
    for (int i = 0; i < MAXA; i++) if (i < ka_n && ka_ptr[i] == (char *)p) ka_freed[i]++;
    free(p);
}
static void vf_hooks_init(void) { memhook._malloc = vf_malloc; memhook._calloc = vf_calloc; memhook._free = vf_free; }
static int ka_index(const char *p) { int r = -1; for (int i = 0; i < MAXA; i++) if (i < ka_n && ka_ptr[i] == p) r = i; return r; }
static int ka_live(void) { int n = 0; for (int i = 0; i < MAXA; i++) if (i < ka_n && ka_freed[i] == 0) n++; return n; }
static char *vf_heap_key(int kid) { char *p = vf_malloc(KEYLEN); memcpy(p, keystr[kid], KEYLEN); return p; }

/* key identity of a stored key (by content), -1 if it is not one of the keys */
static int kid_of(const char *key) {
    int c = key[0] - 'a';
    if (c < 0 || c >= NK) return -1;
#ifdef VF_NATIVE
    if (strcmp(key, keystr[c]) != 0) return -1;
#else
    if (key[1] != 0) return -1;
#endif
    return c;
}

/* ---- representation invariant ----------------------------------------------------------------------------
 * exactly the tables the API can produce at a given size (any table with these properties is produced by
 * putting its keys cluster by cluster in slot order):
 *   - an occupied slot holds one of the keys, no key twice, a non-NULL value
 *   - length = number of occupied slots, and it respects the growth threshold checked before every insertion
 *   - every entry sits d < size/2 slots after its home (hashmap_entry_find probes size/2 slots) and the slots
 *     from its home up to it are occupied
 * slot_of[] is filled as a side effect.  Key ownership (vf_keys_live/vf_keys_noleak) is the second half: if the
 * map owns its keys (M_MAP_KEY_AUTOFREE, implied by M_MAP_KEY_DUP) every stored key is a live logged key buffer,
 * and with M_MAP_KEY_DUP there is no other live key buffer (nothing leaked). */
static int slot_of[NK];
static bool vf_inv(const struct _map *m) {
    const size_t ts = m->table_size;
    size_t cnt = 0;
    if (!m->table || ts < 2 || ts > MAXTS || (ts & (ts - 1))) return false;
    for (int k = 0; k < NK; k++) slot_of[k] = -1;
    for (size_t s = 0; s < MAXTS; s++) {
        if (s >= ts) break;
        const map_elem *e = &m->table[s];
        if (!e->key) continue;
        int k = kid_of(e->key);
        if (k < 0 || slot_of[k] != -1 || !e->data) return false;
        slot_of[k] = (int)s;
        cnt++;
        size_t h = homes[k] & (ts - 1);
        size_t d = (s - h) & (ts - 1);
        if (d >= ts / 2 || d >= NK) return false;      /* d slots before it are occupied by OTHER keys: d < NK */
        for (size_t i = 0; i + 1 < NK; i++) if (i < d && !m->table[(h + i) & (ts - 1)].key) return false;
    }
    if (cnt != m->length) return false;
    if (cnt > 0 && (cnt - 1) + (cnt - 1) / 3 >= ts) return false;
    return true;
}
/* key ownership part of the invariant (after vf_inv() returned true: slot_of[] is valid) */
static bool vf_keys_live(const struct _map *m) {          /* no stored key has been released */
    if (!(m->flags & M_MAP_KEY_AUTOFREE)) return true;
    for (int k = 0; k < NK; k++) if (slot_of[k] >= 0) {
        int a = ka_index(m->table[slot_of[k]].key);
        if (a < 0 || ka_freed[a] != 0) return false;
    }
    return true;
}
static bool vf_keys_noleak(const struct _map *m) {        /* every live duplicate belongs to an entry */
    if (!(m->flags & M_MAP_KEY_DUP)) return true;
    return (size_t)ka_live() == m->length;
}
static void vf_check_inv(const struct _map *m) {
    bool ok = vf_inv(m);
    VF_CHECK(ok, "representation invariant preserved (every entry reachable from its home, length exact)");
    if (ok) {
        VF_CHECK(vf_keys_live(m), "the key of a live entry is never released");
        VF_CHECK(vf_keys_noleak(m), "a key duplicated by the map is released with its entry, never leaked");
    }
}

/* ---- model ---------------------------------------------------------------------------------------------- */
static bool mo_present[NK];
static int mo_val[NK];
static int mo_dt[NVALS];                  /* expected destructor calls per value */
static bool mo_dt_open[NVALS];            /* value overwritten through m_map_itr_set_data: the property text does not
                                             say whether the destructor runs for it (0 or 1 call accepted) */
static int mo_len(void) { int n = 0; for (int k = 0; k < NK; k++) n += mo_present[k]; return n; }
static void mo_from_table(void) {         /* after vf_inv() */
    for (int k = 0; k < NK; k++) { mo_present[k] = slot_of[k] >= 0; mo_val[k] = slot_of[k]; }
}

/* key buffer handed to the API: never the pointer stored in the table */
static char probe[NK][KEYLEN];
static const char *PK(int k) { memcpy(probe[k], keystr[k], KEYLEN); return probe[k]; }

static bool g_with_dtor;
static void vf_check_dtors(void) {
    for (int i = 0; i < NVALS; i++) {
        if (mo_dt_open[i]) VF_CHECK(dt_cnt[i] <= 1, "destructor ran at most once for a value overwritten through the iterator");
        else VF_CHECK(dt_cnt[i] == (g_with_dtor ? mo_dt[i] : 0), "destructor ran exactly once for each dropped value and never for a live one");
    }
}
/* the map, seen through the public API, is exactly the model */
static void vf_check_model(m_map_t *m) {
    VF_CHECK(m_map_len(m) == mo_len(), "len is the number of live entries");
    for (int k = 0; k < NK; k++) {
        void *g = m_map_get(m, PK(k));
        VF_CHECK(g == (mo_present[k] ? VAL(mo_val[k]) : NULL), "get returns the live value of a present key and NULL for an absent one");
    }
}

/* flags of a map as m_map_new() would store them; keymode 0: caller keeps the keys, 1: M_MAP_KEY_AUTOFREE,
 * 2: M_MAP_KEY_DUP (m_map_new adds AUTOFREE) */
static m_map_flags vf_flags(unsigned keymode, bool upd) {
    unsigned f = upd ? M_MAP_VAL_ALLOW_UPDATE : 0;
    if (keymode == 1) f |= M_MAP_KEY_AUTOFREE;
    if (keymode == 2) f |= M_MAP_KEY_DUP | M_MAP_KEY_AUTOFREE;
    return (m_map_flags)f;
}

/* arbitrary table of size TS satisfying the invariant, written into table[] */
static void vf_build(struct _map *m, map_elem *table, unsigned keymode, bool upd, bool with_dtor) {
    m->table = table; m->table_size = TS; m->flags = vf_flags(keymode, upd);
    m->dtor = with_dtor ? vf_dtor : NULL;
    g_with_dtor = with_dtor;
#ifdef VF_SYM_ORDER
    /* symmetry reduction (used at table size 8 only): key identities are interchangeable - a key is nothing but its
     * home homes[id], an arbitrary value - so WLOG the i-th occupied slot holds key i.  Every other table is the image
     * of such a one under a renaming of the keys; the operation's key is still any of the NK. */
    int next_key = 0;
    for (int s = 0; s < TS; s++) {
        if (nondet_bool()) {
            VF_ASSUME(next_key < NK);
            table[s].key = keymode ? vf_heap_key(next_key) : keystr[next_key];
            table[s].data = VAL(s);
            next_key++;
        } else {
            table[s].key = NULL; table[s].data = NULL;
        }
    }
#else
    for (int s = 0; s < TS; s++) {
        unsigned char k = nondet_uchar();
        if (k < NK) {
            table[s].key = keymode ? vf_heap_key(k) : keystr[k];
            table[s].data = VAL(s);
        } else {
            table[s].key = NULL; table[s].data = NULL;
        }
    }
#endif
#ifdef CNT
    m->length = CNT;                      /* case split on the number of entries (keeps the growth test concrete) */
#else
    m->length = nondet_size_t();
#endif
    VF_ASSUME(vf_inv(m));
    VF_ASSUME(vf_keys_live(m) && vf_keys_noleak(m));      /* true by construction; kept as documentation */
    mo_from_table();
}

#ifdef KEYMODE
#define VF_PICK_KEYMODE(var) unsigned char var = KEYMODE
#else
#define VF_PICK_KEYMODE(var) VF_PICK(var, 3)
#endif
#endif
