/* C12 (queue): one operation from an ARBITRARY well-formed queue of up to N elements, followed by an
 * observation suffix through the public API.  The pre-state is built directly (nodes allocated and linked by
 * the harness; head/tail/len consistent = the representation invariant), so histories of any length that
 * lead to a queue of <= N elements are covered by the single step.
 * Symbolic: n, op, iterator position p, iterator edit, whether a destructor is installed. */
#include "vf.h"
#include <structs/queue.c>

#ifndef N
#define N 3
#endif
static char elems[N + 3];
#define EL(i) ((void *)&elems[i])
static int dt_cnt[N + 3];
static void vf_dtor(void *p) { int i = (int)((char *)p - elems); if (i >= 0 && i < N + 3) dt_cnt[i]++; }

static int cb_seen[N + 2], cb_n, cb_stop_at, cb_ret;
static int vf_cb(void *up, void *data) {
    if (cb_n <= N) cb_seen[cb_n] = (int)((char *)data - elems);
    cb_n++;
    if (cb_n - 1 == cb_stop_at) return cb_ret;
    return 0;
}

int vf_main(void) {
    unsigned char n = nondet_uchar(); VF_ASSUME(n <= N);
    _Bool with_dtor = nondet_bool();
    m_queue_t *q = m_queue_new(with_dtor ? vf_dtor : NULL);
    VF_ASSUME(q != NULL);
    queue_elem *nodes[N];
    for (int i = 0; i < N; i++) {
        nodes[i] = NULL;
        if (i < n) { nodes[i] = calloc(1, sizeof(queue_elem)); VF_ASSUME(nodes[i] != NULL); nodes[i]->userptr = EL(i); }
    }
    for (int i = 0; i + 1 < N; i++) if (i + 1 < n) nodes[i]->prev = nodes[i + 1];
    q->head = n ? nodes[0] : NULL; q->tail = n ? nodes[n - 1] : NULL; q->len = n;

    int model[N + 2]; int mlen = n;
    for (int i = 0; i < N + 2; i++) model[i] = i;
    int exp_dt[N + 3]; for (int i = 0; i < N + 3; i++) exp_dt[i] = 0;

    VF_PICK(op, 9);
    int r;
    switch (op) {
    case 0: /* enqueue */
        r = m_queue_enqueue(q, EL(N)); VF_CHECK(r == 0, "enqueue returns 0");
        model[mlen++] = N;
        break;
    case 1: { /* dequeue */
        void *d = m_queue_dequeue(q);
        if (mlen == 0) VF_CHECK(d == NULL, "dequeue on empty is NULL");
        else { VF_CHECK(d == EL(model[0]), "dequeue returns the oldest"); for (int i = 0; i + 1 < N + 2; i++) model[i] = model[i + 1]; mlen--; }
        break; }
    case 2: { /* peek */
        void *d = m_queue_peek(q);
        VF_CHECK(d == (mlen ? EL(model[0]) : NULL), "peek returns the oldest, does not remove");
        break; }
    case 3: /* remove = dequeue + dtor */
        r = m_queue_remove(q);
        if (mlen == 0) VF_CHECK(r < 0, "remove on empty fails");
        else { VF_CHECK(r == 0, "remove returns 0"); if (with_dtor) exp_dt[model[0]]++; for (int i = 0; i + 1 < N + 2; i++) model[i] = model[i + 1]; mlen--; }
        break;
    case 4: /* clear */
        r = m_queue_clear(q);
        if (with_dtor) for (int i = 0; i < mlen; i++) exp_dt[model[i]]++;
        mlen = 0;
        break;
    case 5: { /* iterator: walk to position p, optionally edit there, continue to the end: every remaining element exactly once, in order */
        m_queue_itr_t *it = m_queue_itr_new(q);
        VF_CHECK((it != NULL) == (mlen > 0), "iterator exists iff non-empty");
        if (it) {
            unsigned char p = nondet_uchar(); VF_ASSUME(p < mlen);
            VF_PICK(edit, 3);              /* 0 none, 1 remove, 2 set */
            int visited = 0;
            for (int i = 0; i < N + 1; i++) {
                if (!it) break;
                void *d = m_queue_itr_get_data(it);
                VF_CHECK(d == EL(model[visited]), "iterator yields elements in queue order, once each");
                if (visited == p && edit == 1) {
                    r = m_queue_itr_remove(it); VF_CHECK(r == 0, "itr_remove returns 0");
                    if (with_dtor) exp_dt[model[p]]++;
                    for (int k = p; k + 1 < N + 2; k++) model[k] = model[k + 1];
                    mlen--;
                    VF_CHECK(m_queue_itr_get_data(it) == NULL, "no data after itr_remove until next");
                } else {
                    if (visited == p && edit == 2) { r = m_queue_itr_set_data(it, EL(N + 1)); VF_CHECK(r == 0, "itr_set returns 0"); model[p] = N + 1; }
                    visited++;
                }
                m_queue_itr_next(&it);
            }
            VF_CHECK(it == NULL, "iterator ends (and frees itself) after the last element");
            VF_CHECK(visited == mlen, "iterator visited every remaining element");
        }
        break; }
    case 6: { /* callback iteration, optionally stopped by the callback */
        cb_n = 0; cb_stop_at = nondet_uchar(); cb_ret = nondet_bool() ? 1 : -7;
        r = m_queue_iterate(q, vf_cb, NULL);
        if (mlen == 0) VF_CHECK(r < 0 && cb_n == 0, "iterate on empty fails");
        else {
            int expn = cb_stop_at < mlen ? cb_stop_at + 1 : mlen;
            VF_CHECK(cb_n == expn, "iterate calls the callback once per element until stopped");
            for (int i = 0; i < N; i++) if (i < expn) VF_CHECK(cb_seen[i] == model[i], "iterate in queue order");
            VF_CHECK(r == ((cb_stop_at < mlen && cb_ret < 0) ? cb_ret : 0), "iterate return value");
        }
        break; }
    case 7: { /* free */
        r = m_queue_free(&q);
        VF_CHECK(r == 0 && q == NULL, "free clears the handle");
        if (with_dtor) for (int i = 0; i < mlen; i++) exp_dt[model[i]]++;
        for (int i = 0; i < N + 3; i++) VF_CHECK(dt_cnt[i] == exp_dt[i], "dtor exactly once per dropped element (free)");
        VF_WITNESS("free");
        return 0; }
    default: /* len */
        break;
    }
    VF_CHECK(m_queue_len(q) == mlen, "length is exact");
    /* observation suffix: a broken representation shows through the API */
    r = m_queue_enqueue(q, EL(N + 2)); VF_CHECK(r == 0, "suffix enqueue");
    model[mlen++] = N + 2;
    VF_CHECK(m_queue_len(q) == mlen, "length after suffix enqueue");
    for (int i = 0; i < N + 2; i++) if (i < mlen) { void *d = m_queue_dequeue(q); VF_CHECK(d == EL(model[i]), "FIFO order after the operation"); }
    VF_CHECK(m_queue_len(q) == 0 && m_queue_dequeue(q) == NULL, "empty after draining");
    for (int i = 0; i < N + 3; i++) VF_CHECK(dt_cnt[i] == exp_dt[i], "dtor exactly once per dropped element, never for returned ones");
    VF_WITNESS("end");
    return 0;
}
