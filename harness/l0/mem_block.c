/* C10: life cycle of a reference-counted block, all of Lib/mem/mem.c.
 * Allocator = harness hook over fixed 16-aligned arenas (malloc's contract: the base is aligned for any type).
 * Symbolic: requested size (0..MAXSZ, every residue mod 16), number of extra refs, dtor installed or not,
 * nesting (the outer block's dtor drops the last ref of an inner block), unref vs unrefp. */
#include "vf.h"
#include <stdalign.h>

#ifndef MAXSZ
#define MAXSZ 100
#endif
#ifndef MAXREF
#define MAXREF 3
#endif
#define ARENA (MAXSZ + 64)
static _Alignas(16) unsigned char arena[2][ARENA];
static size_t a_req[2]; static int a_live[2], a_frees[2]; static void *a_freed[2];
static int a_next;
void *vf_calloc(size_t n, size_t s) {
    int k = a_next++;
    VF_CHECK(k < 2, "harness: at most two allocations");
    a_req[k] = n * s; VF_CHECK(a_req[k] <= ARENA, "harness: arena large enough");
    a_live[k] = 1;
    return arena[k];
}
void *vf_malloc(size_t s) { return vf_calloc(1, s); }
void vf_free(void *p) {
    int k = (p == (void *)arena[1]);
    VF_CHECK(p == (void *)arena[k], "free gets the allocation base");
    VF_CHECK(a_live[k] == 1, "no double free");
    a_frees[k]++; a_freed[k] = p; a_live[k] = 0;
}
m_memhook_t memhook = { vf_malloc, vf_calloc, vf_free };
#include <mem/mem.c>

static int dtor_calls[2]; static void *dtor_arg[2]; static int dtor_saw_live[2];
static void *inner;
void vf_dt_inner(void *p) { dtor_calls[1]++; dtor_arg[1] = p; dtor_saw_live[1] = a_live[1]; }
void vf_dt_outer(void *p) {
    dtor_calls[0]++; dtor_arg[0] = p; dtor_saw_live[0] = a_live[0];
    if (inner) m_mem_unref(inner);            /* nested block: destructor drops another block */
}

int vf_main(void) {
    size_t size = nondet_size_t(); VF_ASSUME(size <= MAXSZ);
#ifdef VF_KF_align_size_mod_16
    VF_ASSUME(size % alignof(max_align_t) == 0);     /* known finding: misaligned for every other size */
#endif
    _Bool with_dtor = nondet_bool();
    _Bool nested = nondet_bool();
    VF_ASSUME(!nested || with_dtor);
    unsigned char *p = m_mem_new(size, with_dtor ? vf_dt_outer : NULL);
    VF_CHECK(p != NULL, "new succeeds when the allocator does");
    size_t off = (size_t)(p - arena[0]);
    VF_CHECK(off % alignof(max_align_t) == 0, "block aligned for any object type, whatever the size");
    VF_CHECK(off >= sizeof(mem_header_t) && off + size <= a_req[0], "block lies inside the allocation, after the header");
    VF_CHECK(m_mem_size(p) == size, "reported size equals requested size");
    if (size > 0) { p[0] = 0xAA; p[size - 1] = 0x55; }          /* writing the whole block must not damage the header */
    size_t isz = 0;
    if (nested) {
        isz = nondet_size_t(); VF_ASSUME(isz <= 16);
#ifdef VF_KF_align_size_mod_16
        VF_ASSUME(isz % alignof(max_align_t) == 0);
#endif
        inner = m_mem_new(isz, vf_dt_inner);
        VF_CHECK(inner != NULL, "inner new");
        VF_CHECK(((size_t)((unsigned char *)inner - arena[1])) % alignof(max_align_t) == 0, "inner block aligned");
    }
    unsigned char k = nondet_uchar(); VF_ASSUME(k <= MAXREF);
    for (unsigned char i = 0; i < MAXREF; i++) if (i < k) VF_CHECK(m_mem_ref(p) == p, "ref returns the block");
    for (unsigned char i = 0; i < MAXREF; i++) if (i < k) {
        VF_CHECK(m_mem_unref(p) == NULL, "unref returns NULL");
        VF_CHECK(dtor_calls[0] == 0 && a_frees[0] == 0 && a_live[0] == 1, "alive while a reference remains");
        VF_CHECK(m_mem_size(p) == size, "size stable while referenced");
        if (size > 1) VF_CHECK(p[0] == 0xAA && p[size - 1] == 0x55, "content intact while referenced");
    }
    if (nondet_bool()) { m_mem_unref(p); }
    else { void *pp = p; m_mem_unrefp(&pp); VF_CHECK(pp == NULL, "unrefp clears the pointer"); }
    VF_CHECK(dtor_calls[0] == (with_dtor ? 1 : 0), "dtor runs exactly once when the last reference goes");
    if (with_dtor) VF_CHECK(dtor_arg[0] == p && dtor_saw_live[0] == 1, "dtor sees the still-valid block");
    VF_CHECK(a_frees[0] == 1 && a_freed[0] == (void *)arena[0], "memory returned once to the configured allocator");
    if (nested) {
        VF_CHECK(dtor_calls[1] == 1 && dtor_arg[1] == inner && dtor_saw_live[1] == 1, "inner dtor ran once on the valid inner block");
        VF_CHECK(a_frees[1] == 1, "inner memory returned once");
    }
    /* null arguments are tolerated */
    VF_CHECK(m_mem_ref(NULL) == NULL && m_mem_unref(NULL) == NULL && m_mem_size(NULL) == 0, "NULL tolerated");
    m_mem_unrefp(NULL);
    void *np = NULL; m_mem_unrefp(&np); VF_CHECK(np == NULL, "unrefp(NULL ptr) tolerated");
    VF_WITNESS("end");
    return 0;
}
