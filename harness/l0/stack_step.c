/* C12 (stack): one operation from an ARBITRARY well-formed stack of up to N elements + observation suffix.
 * Symbolic: n, op, iterator position, iterator edit, dtor installed, callback stop. */
#include "vf.h"
#include <structs/stack.c>

#ifndef N
#define N 3
#endif
static char elems[N + 3];
#define EL(i) ((void *)&elems[i])
static int dt_cnt[N + 3];
static void vf_dtor(void *p) { int i = (int)((char *)p - elems); if (i >= 0 && i < N + 3) dt_cnt[i]++; }
static int cb_seen[N + 2], cb_n, cb_stop_at, cb_ret;
static int vf_cb(void *up, void *data) {
    if (cb_n <= N) cb_seen[cb_n] = (int)((char *)data - elems);
    cb_n++;
    if (cb_n - 1 == cb_stop_at) return cb_ret;
    return 0;
}

int vf_main(void) {
    unsigned char n = nondet_uchar(); VF_ASSUME(n <= N);
    _Bool with_dtor = nondet_bool();
    m_stack_t *s = m_stack_new(with_dtor ? vf_dtor : NULL);
    VF_ASSUME(s != NULL);
    /* model[0] is the top */
    stack_elem *nodes[N];
    for (int i = 0; i < N; i++) {
        nodes[i] = NULL;
        if (i < n) { nodes[i] = calloc(1, sizeof(stack_elem)); VF_ASSUME(nodes[i] != NULL); nodes[i]->userptr = EL(i); }
    }
    for (int i = 0; i + 1 < N; i++) if (i + 1 < n) nodes[i]->prev = nodes[i + 1];
    s->data = n ? nodes[0] : NULL; s->len = n;
    int model[N + 2]; int mlen = n;
    for (int i = 0; i < N + 2; i++) model[i] = i;
    int exp_dt[N + 3]; for (int i = 0; i < N + 3; i++) exp_dt[i] = 0;

    VF_PICK(op, 9);
    int r;
    switch (op) {
    case 0:
        r = m_stack_push(s, EL(N)); VF_CHECK(r == 0, "push returns 0");
        for (int i = N + 1; i > 0; i--) model[i] = model[i - 1];
        model[0] = N; mlen++;
        break;
    case 1: {
        void *d = m_stack_pop(s);
        if (mlen == 0) VF_CHECK(d == NULL, "pop on empty is NULL");
        else { VF_CHECK(d == EL(model[0]), "pop returns the newest"); for (int i = 0; i + 1 < N + 2; i++) model[i] = model[i + 1]; mlen--; }
        break; }
    case 2: {
        void *d = m_stack_peek(s);
        VF_CHECK(d == (mlen ? EL(model[0]) : NULL), "peek returns the newest, does not remove");
        break; }
    case 3:
        r = m_stack_remove(s);
        if (mlen == 0) VF_CHECK(r < 0, "remove on empty fails");
        else { VF_CHECK(r == 0, "remove returns 0"); if (with_dtor) exp_dt[model[0]]++; for (int i = 0; i + 1 < N + 2; i++) model[i] = model[i + 1]; mlen--; }
        break;
    case 4:
        r = m_stack_clear(s); VF_CHECK(r == 0, "clear returns 0");
        if (with_dtor) for (int i = 0; i < mlen; i++) exp_dt[model[i]]++;
        mlen = 0;
        break;
    case 5: {
        m_stack_itr_t *it = m_stack_itr_new(s);
        VF_CHECK((it != NULL) == (mlen > 0), "iterator exists iff non-empty");
        if (it) {
            unsigned char p = nondet_uchar(); VF_ASSUME(p < mlen);
            VF_PICK(edit, 3);
            int visited = 0;
            for (int i = 0; i < N + 1; i++) {
                if (!it) break;
                void *d = m_stack_itr_get_data(it);
                VF_CHECK(d == EL(model[visited]), "iterator yields elements top to bottom, once each");
                if (visited == p && edit == 1) {
                    r = m_stack_itr_remove(it); VF_CHECK(r == 0, "itr_remove returns 0");
                    if (with_dtor) exp_dt[model[p]]++;
                    for (int k = p; k + 1 < N + 2; k++) model[k] = model[k + 1];
                    mlen--;
                    VF_CHECK(m_stack_itr_get_data(it) == NULL, "no data after itr_remove until next");
                } else {
                    if (visited == p && edit == 2) { r = m_stack_itr_set_data(it, EL(N + 1)); VF_CHECK(r == 0, "itr_set returns 0"); model[p] = N + 1; }
                    visited++;
                }
                m_stack_itr_next(&it);
            }
            VF_CHECK(it == NULL, "iterator ends after the last element");
            VF_CHECK(visited == mlen, "iterator visited every remaining element");
        }
        break; }
    case 6: {
        cb_n = 0; cb_stop_at = nondet_uchar(); cb_ret = nondet_bool() ? 1 : -7;
        r = m_stack_iterate(s, vf_cb, NULL);
        if (mlen == 0) VF_CHECK(r < 0 && cb_n == 0, "iterate on empty fails");
        else {
            int expn = cb_stop_at < mlen ? cb_stop_at + 1 : mlen;
            VF_CHECK(cb_n == expn, "iterate calls the callback once per element until stopped");
            for (int i = 0; i < N; i++) if (i < expn) VF_CHECK(cb_seen[i] == model[i], "iterate in stack order");
            VF_CHECK(r == ((cb_stop_at < mlen && cb_ret < 0) ? cb_ret : 0), "iterate return value");
        }
        break; }
    case 7: {
        r = m_stack_free(&s);
        VF_CHECK(r == 0 && s == NULL, "free clears the handle");
        if (with_dtor) for (int i = 0; i < mlen; i++) exp_dt[model[i]]++;
        for (int i = 0; i < N + 3; i++) VF_CHECK(dt_cnt[i] == exp_dt[i], "dtor exactly once per dropped element (free)");
        VF_WITNESS("free");
        return 0; }
    default:
        break;
    }
    VF_CHECK(m_stack_len(s) == mlen, "length is exact");
    r = m_stack_push(s, EL(N + 2)); VF_CHECK(r == 0, "suffix push");
    for (int i = N + 1; i > 0; i--) model[i] = model[i - 1];
    model[0] = N + 2; mlen++;
    VF_CHECK(m_stack_len(s) == mlen, "length after suffix push");
    for (int i = 0; i < N + 2; i++) if (i < mlen) { void *d = m_stack_pop(s); VF_CHECK(d == EL(model[i]), "LIFO order after the operation"); }
    VF_CHECK(m_stack_len(s) == 0 && m_stack_pop(s) == NULL, "empty after draining");
    for (int i = 0; i < N + 3; i++) VF_CHECK(dt_cnt[i] == exp_dt[i], "dtor exactly once per dropped element, never for returned ones");
    VF_WITNESS("end");
    return 0;
}
