/* C11 (ordered set, bst.c): every operation script of length L from the EMPTY set, for every insertion order, checked
 * step by step against a sorted-array model.  Complements bst_step.c (whose pre-state is assumed): here every state is
 * reached through the public API only, and the iterator runs on trees produced by insert / remove / iterator-remove.
 *
 * Formulation.  Scripts with symbolic KEYS do not scale: the tree shape then depends on symbolic comparisons and
 * bst.c's pointers to node fields are encoded with symbolic byte offsets (measured: insert,insert,insert + final
 * checks = 28 s, with one iterator walk 197 s, for ONE operation sequence).  What the behaviour of bst.c depends on is
 * only the ORDER of the argument relative to the keys in the set, so the script quantifies over that instead: at every
 * step the solver picks the operation and the relative position of its argument (equal to the j-th smallest key -
 * through the stored pointer itself or through a distinct pointer of the same comparator class - or strictly inside
 * the g-th gap), and the harness then runs that choice with the key of that rank made concrete (keys are dyadic
 * fractions, so there is always room inside a gap).  Every choice continues on its own copy of the state (explicit
 * case split without join), so the heap stays concrete on every path and CBMC's symbolic execution enumerates the
 * order-isomorphism classes of all scripts.  Collisions (equal keys) are one of the choices at every step.
 *
 * Operations: insert / remove / find with such an argument; iterator walk removing an arbitrary subset of positions;
 * clear.  After the script: in-order traversal == model, pre/post-order consistent with one search tree, a plain
 * iterator walk, m_bst_free and the destructor counts.
 *
 * Symbolic: op and argument rank of every step, removal mask of every iterator walk, destructor installed.
 * Per job (compile time): VF_CMP (user / default comparator), optionally VF_SPLIT_K / VF_SPLIT_I (case split). */
#include "vf.h"
#include <structs/bst.c>

#ifndef L
#define L 4
#endif
#ifndef VF_CMP
#define VF_CMP 1
#endif
#define NC (1 << (L + 1))              /* key classes: dyadic midpoints, L nested insertions fit */
#define NE (2 * NC)                    /* cell 2c and its twin 2c+1 form class c under the user comparator */

static char elems[NE];
#define EL(i) ((void *)&elems[i])
static int idx(void *p) { return (int)((char *)p - elems); }
static _Bool with_dtor;

static unsigned char dt_cnt[NE], exp_dt[NE], dt_bad;
void vf_dtor(void *p) { int i = idx(p); if (i >= 0 && i < NE) dt_cnt[i]++; else dt_bad++; }
int vf_cmp(void *my, void *theirs) { return idx(my) / 2 - idx(theirs) / 2; }
static int kf(int e) { return VF_CMP ? e / 2 : e; }

static int cb_seen[L + 1], cb_n;
int vf_cb(void *up, void *data) {
    (void)up;
    if (cb_n <= L) cb_seen[cb_n] = idx(data);
    cb_n++;
    return 0;
}

/* model: the cells in the set, ascending (concrete on every path) */
static int srt[L + 2], mlen;
static int model_pos(int a) {
    int p = -1;
    for (int i = 0; i < L; i++) if (i < mlen && kf(srt[i]) == kf(a)) p = i;
    return p;
}
static void model_insert(int a) {
    int p = 0;
    for (int i = 0; i < L; i++) if (i < mlen && kf(srt[i]) < kf(a)) p = i + 1;
    for (int i = L; i > 0; i--) if (i > p) srt[i] = srt[i - 1];
    srt[p] = a; mlen++;
}
static void model_remove(int p) {
    for (int i = 0; i < L; i++) if (i >= p) srt[i] = srt[i + 1];
    mlen--;
}

static int cv_pre[L + 1], cv_n, cv_idx, cv_post[L + 1], cv_pn, cv_in[L + 1], cv_in_n;
static void conv(int lo, int hi, int depth) {
    if (depth > L) return;
    if (cv_idx >= cv_n) return;
    int k = kf(cv_pre[cv_idx]);
    if (k <= lo || k >= hi) return;
    int root = cv_pre[cv_idx++];
    conv(lo, k, depth + 1);
    if (cv_in_n <= L) cv_in[cv_in_n] = root;
    cv_in_n++;
    conv(k, hi, depth + 1);
    if (cv_pn <= L) cv_post[cv_pn] = root;
    cv_pn++;
}

/* iterator over the whole set; removes the visited positions whose bit is set in mask */
static void itr_walk(m_bst_t *t, const unsigned mask) {
    int r, kept[L + 1], nk = 0;
    const int n0 = mlen;
    m_bst_itr_t *it = m_bst_itr_new(t);
    VF_CHECK((it != NULL) == (n0 > 0), "iterator exists iff the set is non-empty");
    int v = 0;
    for (int i = 0; i < L + 1; i++) {
        if (!it) break;
        void *d = m_bst_itr_get_data(it);
        VF_CHECK(v < n0 && d == EL(srt[v < n0 ? v : 0]), "iterator yields every element once, ascending, also after removals through it");
        if (v < n0) {
            if ((mask >> v) & 1) {
                r = m_bst_itr_remove(it); VF_CHECK(r == 0, "removal of the current element through the iterator succeeds");
                if (with_dtor) exp_dt[srt[v]]++;
            } else kept[nk++] = srt[v];
        }
        v++;
        m_bst_itr_next(&it);
    }
    VF_CHECK(it == NULL && v == n0, "iterator ends after the last element, having visited every element");
    for (int i = 0; i < L; i++) if (i < nk) srt[i] = kept[i];
    mlen = nk;
}

static void finish(m_bst_t *t) {
    int r;
    cb_n = 0; r = m_bst_traverse(t, M_BST_IN, vf_cb, NULL);
    VF_CHECK(r == 0 && cb_n == mlen, "in-order traversal visits every element exactly once");
    for (int i = 0; i < L; i++) if (i < mlen && i < cb_n) VF_CHECK(cb_seen[i] == srt[i], "in-order traversal is strictly ascending = the sorted set");
    cb_n = 0; r = m_bst_traverse(t, M_BST_PRE, vf_cb, NULL);
    VF_CHECK(r == 0 && cb_n == mlen, "pre-order traversal visits every element exactly once (count)");
    cv_n = cb_n <= L ? cb_n : L;
    for (int i = 0; i < L; i++) if (i < cv_n) cv_pre[i] = cb_seen[i];
    cv_idx = 0; cv_pn = 0; cv_in_n = 0;
    conv(-1, NE, 0);
    VF_CHECK(cv_idx == cv_n, "pre-order output is the pre-order of a binary search tree");
    for (int i = 0; i < L; i++) if (i < cv_in_n && i < mlen) VF_CHECK(cv_in[i] == srt[i], "the search tree with that pre-order holds exactly the elements of the set");
    cb_n = 0; r = m_bst_traverse(t, M_BST_POST, vf_cb, NULL);
    VF_CHECK(r == 0 && cb_n == mlen, "post-order traversal visits every element exactly once (count)");
    for (int i = 0; i < L; i++) if (i < cv_pn && i < cb_n) VF_CHECK(cb_seen[i] == cv_post[i], "post-order output is the post-order of the same search tree");

    itr_walk(t, 0);

    r = m_bst_free(&t);
    VF_CHECK(r == 0 && t == NULL, "free clears the handle");
    for (int i = 0; i < L; i++) if (i < mlen && with_dtor) exp_dt[srt[i]]++;
    VF_CHECK(dt_bad == 0, "destructor called on something that is not an element");
    for (int i = 0; i < NE; i++) VF_CHECK(dt_cnt[i] == exp_dt[i], "destructor exactly once on the removed element, never on one that stays");
    VF_WITNESS("end");
}

enum { S_INSERT, S_REMOVE, S_FIND, S_ITR, S_CLEAR, S_NOPS };

static void do_op(m_bst_t *t, const int op, const int a, const unsigned mask) {
    int r, p;
    switch (op) {
    case S_INSERT:
        p = model_pos(a);
        r = m_bst_insert(t, EL(a));
        if (p >= 0) VF_CHECK(r < 0, "insert of an element comparing equal to a present one is rejected");
        else { VF_CHECK(r == 0, "insert is accepted when no element compares equal"); model_insert(a); }
        break;
    case S_REMOVE:
        p = model_pos(a);
        r = m_bst_remove(t, EL(a));
        if (p < 0) VF_CHECK(r < 0, "remove of an absent key fails");
        else { VF_CHECK(r == 0, "remove of a present key succeeds"); if (with_dtor) exp_dt[srt[p]]++; model_remove(p); }
        break;
    case S_FIND: {
        void *d = m_bst_find(t, EL(a));
        p = model_pos(a);
        VF_CHECK(d == (p >= 0 ? EL(srt[p]) : NULL), "find returns exactly the element comparing equal to the key, or nothing");
        break; }
    case S_ITR:
        itr_walk(t, mask);
        break;
    default:
        r = m_bst_clear(t);
        if (mlen > 0) VF_CHECK(r == 0, "clear of a non-empty set succeeds");
        for (int i = 0; i < L; i++) if (i < mlen && with_dtor) exp_dt[srt[i]]++;
        mlen = 0;
        break;
    }
    VF_CHECK(m_bst_len(t) == mlen, "length is exact after every step");
}

#ifndef VF_SPLIT_K
#define VF_SPLIT_K 1                   /* case split over jobs: the cases of the SECOND step are dealt round-robin */
#define VF_SPLIT_I 0                   /* to VF_SPLIT_K jobs; this job takes those with number % K == I */
#endif
#define VF_TAKE() (s != 1 || (cn++ % VF_SPLIT_K) == VF_SPLIT_I)

/* one step: symbolic (op, choice); every value continues on its own copy of the state */
static void step(m_bst_t *t, const int s) {
    if (s >= L) { finish(t); return; }
#ifdef VF_OPSEQ
    /* the operation of every step is a per-job constant (longer scripts than the fully symbolic ones can afford);
     * the argument's relative position stays symbolic */
    static const unsigned char opseq[L] = VF_OPSEQ;
    const unsigned char op = opseq[s];
#else
    VF_PICK(op, S_NOPS);
#endif
    unsigned char choice = nondet_uchar();
    /* candidate arguments for this state (all concrete): the stored cell of every element, its twin under the user
     * comparator, and the midpoint cell of every gap */
    int cand[3 * L + 2], nc = 0, cn = 0;
    for (int j = 0; j < L; j++) if (j < mlen) {
        cand[nc++] = srt[j];
        if (VF_CMP) cand[nc++] = srt[j] ^ 1;
    }
    for (int g = 0; g < L + 1; g++) if (g <= mlen) {
        int lo = g ? kf(srt[g - 1]) : 0, hi = g < mlen ? kf(srt[g]) : (VF_CMP ? NC : NE);
        int mid = (lo + hi) / 2;                       /* dyadic: lo < mid < hi as long as fewer than L keys were nested */
        cand[nc++] = VF_CMP ? 2 * mid : mid;
    }
    for (int o = 0; o < S_NOPS; o++) {
        if (o == S_ITR) {
            for (unsigned m = 0; m < (1u << L); m++) if (m < (1u << mlen) && VF_TAKE() && op == o && choice == m) { do_op(t, o, 0, m); step(t, s + 1); return; }
        } else if (o == S_CLEAR) {
            if (VF_TAKE() && op == o) { do_op(t, o, 0, 0); step(t, s + 1); return; }
        } else {
            for (int k = 0; k < 3 * L + 2; k++) if (k < nc && VF_TAKE() && op == o && choice == k) {
#ifdef VF_OPSEQ
                /* long fixed scripts: inserts use new keys, removals present keys (the other cases are the short scripts' job) */
                if (o == S_INSERT && model_pos(cand[k]) >= 0) continue;
                if (o == S_REMOVE && (model_pos(cand[k]) < 0 || cand[k] != srt[model_pos(cand[k])])) continue;
#endif
                do_op(t, o, cand[k], 0); step(t, s + 1); return;
            }
        }
    }
    VF_ASSUME(0);                      /* (op, choice) names no case of this state / of this job */
}

int vf_main(void) {
    with_dtor = nondet_bool();
    m_bst_t *t = m_bst_new(VF_CMP ? vf_cmp : NULL, with_dtor ? vf_dtor : NULL);
    VF_ASSUME(t != NULL);
    step(t, 0);
    return 0;
}
